"""C11 — MDL (V2000/V3000) and MRV files: write then read preserves the record  (translation_validation, partial proofs).

Lean model (Model/C11*.lean): Python text primitives (`{:3d}`, `{:10.4f}`, `int()`, `float()` on plain decimals,
`strip`, `lstrip(chars)` as a character set, `replace`), `MOLWrite._write_molecule`, `parse_mol_v2000`,
`postprocess_parsed_molecule`, `SDFWrite.write`, `SDFRead._read_block/_read_mol/read_metadata`, `MDLRead.__iter__`,
`reset_index`+`seek`+`__getitem__`; V3000 and RDF counterparts (Model/C11Mol3000.lean, C11Rdf.lean).
Streams (model vs real chython, in-process):
  prim   text primitives vs CPython
  W      real writers' text vs model text, molecule by molecule (exactly representable coordinates)
  P      parse_mol_v2000 / parse_mol_v3000 on written blocks, corrupted blocks, the repo's test files
  F      multi-record files with a corrupted record at every position: blocks, m_end, metadata, iteration, index
  M      metadata blocks over printable text
  RT     property-level write->read oracle on the real code (all five writers incl. MRV) inside the stated domain
"""
import io
import os
import re
import tempfile
from decimal import Decimal

from .. import core, molgen
from ..gen import gen_mdl

LEVEL = 'translation_validation'
LEVEL_TEXT = ('The text layer of the MDL formats (fixed-width formatting, int()/float() of column slices, charge codes, '
              'M  CHG/ISO/RAD, V3000 tokenisation, SDF/RDF record framing, metadata blocks, skip-on-error iteration, index '
              'seek) is an executable Lean model mirrored statement by statement from the readers and writers; round-trip '
              'theorems are proved about exactly these model functions for all field values / all well-formed records, and '
              'the model is tied to today\'s source by regenerated tables and by differential testing of writers, parsers and '
              'framing on generated and corrupted files. Atom/bond construction (create_molecule), wedge geometry and the '
              'lxml-based MRV path are not modelled: they are validated by a write->read oracle on the real code. That is '
              'translation validation with partial proofs, not a proof about the Python text.')
LEVEL_NOTE = ('Lean kernel; gen_mdl translator (literal tables via AST); hand transcription of the text layer validated by '
              'correspondence; ASCII text domain; coordinates restricted to exact multiples of 1/10000; create_molecule, '
              'stereo post-processing, lxml and grep are outside the model.')
TECHNIQUE = 'Lean 4 round-trip theorems over an executable model of the MDL text layer + regenerated tables + differential testing'
HAS_DRIVER = True
EXTRA_MODULES = []
FINDINGS_MODULE = 'ChythonModel.Findings.C11'
RULE = ('structured: molecules from the repo corpus / handmade set / repo test files / decorated skeletons, renumbered, with '
        'random charges -4..4, isotopes, radicals, names and metadata over printable ASCII, coordinates k/10000; every '
        'writer output is re-read; corrupted variants by single edits (character, field, line, record) at every record '
        'position; a case is non-trivial when the model executed a writer or parser on it; distinct by (stream, text hash)')
TRUSTED = ['gen_mdl translator (AST literal tables of mol.py / write.py / SDFrw.py)',
           'hand transcription of the text layer in Model/C11*.lean (validated by correspondence, not proved against Python)',
           'harness canonicalisers (Decimal(repr(float)) for coordinates)']
ASSUMPTIONS = ['text is ASCII (Python str.strip()/int()/float() Unicode behaviour is outside the model)',
               'coordinates are exact multiples of 1/10000 with |x| < 10^5 (float formatting/parsing is then exact)',
               'files use "\\n" line ends; the grep-built index is modelled as "lines containing $$$$"',
               'create_molecule / calc_labels / stereo post-processing / lxml are exercised, not modelled']

_state = {}
PRINTABLE = ''.join(chr(i) for i in range(32, 127))


def generate(ctx):
    path, t = gen_mdl.generate()
    _state['tables'] = t
    return [path]


# ------------------------------------------------------------------------------------------------
# encoding helpers (wire)
# ------------------------------------------------------------------------------------------------

def enc(s):
    return [len(s)] + [ord(c) for c in s]


def raw(s):
    return ' '.join(str(ord(c)) for c in s)


def cps(s):
    return '[' + '.'.join(str(ord(c)) for c in s) + ']'


def optstr(s):
    return '-' if s is None else cps(s)


def optint(i):
    return '-' if i is None else str(i)


def dec(x):
    """float -> 'mant e scale' of its shortest repr (equals the decimal text for <= 15 significant digits)."""
    d = Decimal(repr(float(x)))
    if not d.is_finite():
        return 'nonfinite'
    sign, digits, exp = d.as_tuple()
    mant = int(''.join(map(str, digits)))
    if exp > 0:
        mant *= 10 ** exp
        exp = 0
    scale = -exp
    while scale > 0 and mant % 10 == 0:
        mant //= 10
        scale -= 1
    if mant == 0:
        scale = 0
    return f'{-mant if sign else mant}e{scale}'


def show_pmol(tmp):
    atoms = []
    for a in tmp['atoms']:
        atoms.append(f"{cps(a['element'])} {a['charge']} {optint(a['isotope'])} {optint(a.get('delta_isotope'))} "
                     f"{a['parsed_mapping']} {dec(a['x'])} {dec(a['y'])} {dec(a['z'])} {1 if a.get('is_radical') else 0} "
                     f"{optint(a.get('implicit_hydrogens'))}")
    tr = lambda t: f'{t[0]} {t[1]} {t[2]}'
    return (f"T {optstr(tmp['title'])} A {len(atoms)} " + ' '.join(atoms) + f" B {len(tmp['bonds'])} " +
            ' '.join(map(tr, tmp['bonds'])) + f" S {len(tmp['stereo'])} " + ' '.join(map(tr, tmp['stereo'])))


def show_meta(md):
    return f'M {len(md)} ' + ' '.join(cps(k) + '=' + cps(v) for k, v in md.items())


def exc_name(e):
    return 'err:' + type(e).__name__


def wmol_ints(mol, name=None):
    out = enc(mol.name if name is None else name)
    out.append(len(mol._atoms))
    for n, a in mol._atoms.items():
        out.append(n)
        out += enc(a.atomic_symbol)
        out += [kcoord(a.x), kcoord(a.y), a.charge, a.isotope or 0, int(a.is_radical)]
        nb = mol._bonds[n]
        out.append(len(nb))
        for m, b in nb.items():
            out += [m, b.order]
    wm = mol._wedge_map
    out.append(len(wm))
    for n, m, s in wm:
        out += [n, m, s]
    return out


def kcoord(x):
    return int(round(x * 10000))


def meta_ints(md):
    out = [len(md)]
    for k, v in md.items():
        out += enc(k) + enc(v)
    return out


# ------------------------------------------------------------------------------------------------
# generators
# ------------------------------------------------------------------------------------------------

def snap(mol):
    """coordinates -> exact multiples of 1/10000 (k/10000 formats and parses exactly)"""
    for _, a in mol.atoms():
        a.x = kcoord(a.x) / 10000
        a.y = kcoord(a.y) / 10000
    mol.flush_cache()
    return mol


def layout(rng, mol):
    try:
        mol.clean2d()
    except Exception:
        for i, (_, a) in enumerate(mol.atoms()):
            a.x, a.y = (i % 7) * 0.825, (i // 7) * 0.825
    return snap(mol)


def rand_text(rng, lo=1, hi=12, alphabet=PRINTABLE):
    return ''.join(rng.choice(alphabet) for _ in range(rng.randint(lo, hi)))


SAFE = ''.join(c for c in PRINTABLE if c not in '$><&')


def rand_meta(rng, wf=True):
    """metadata dict; wf=True stays inside the domain where the SDF/RDF formats can represent the value."""
    md = {}
    for _ in range(rng.choice([0, 1, 1, 2, 3])):
        if wf:
            k = rand_text(rng, 1, 10, SAFE.replace(' ', '')) if rng.random() < 0.7 else \
                (rand_text(rng, 1, 4, SAFE.replace(' ', '')) + rng.choice('<> ') + rand_text(rng, 1, 4, SAFE.replace(' ', '')))
            lines = []
            for _ in range(rng.choice([1, 1, 1, 2, 3])):
                l = rand_text(rng, 1, 20, SAFE).strip() or 'x'
                if rng.random() < 0.2:
                    l = rng.choice(['DATUM 5', 'AT5 MUD', 'M  END', 'MUD', 'a$b', 'x > y', 'a<b>c']) + l
                lines.append(l)
            md[k] = '\n'.join(lines)
        else:
            md[rand_text(rng, 0, 8)] = '\n'.join(rand_text(rng, 0, 14) for _ in range(rng.choice([1, 2, 3])))
    return md


def decorate_fields(rng, mol):
    """random charges (incl. +-4), isotopes, radicals directly on the atom slots (text-layer stress; valence not kept)."""
    for n, a in mol.atoms():
        r = rng.random()
        if r < 0.12:
            a._charge = rng.choice([-4, -3, -2, -1, 1, 2, 3, 4])
        if rng.random() < 0.08:
            a._isotope = rng.choice(sorted(a.isotopes_distribution))
        if rng.random() < 0.05:
            a._is_radical = True
    mol.flush_cache()
    return mol


def molecules(ctx, k_corpus):
    """(tag, molecule) with layout and exact coordinates"""
    rng = ctx.rng
    out = []
    for tag, m in molgen.handmade():
        out.append((tag, layout(rng, m)))
    for tag, m in molgen.corpus(rng, k_corpus):
        try:
            m.kekule()
        except Exception:
            pass
        out.append((tag, layout(rng, m)))
    for tag, m in molgen.test_files()[:: (7 if ctx.quick else 1)]:
        out.append((tag, snap(m)))
    return out


# ------------------------------------------------------------------------------------------------
# real-code adapters
# ------------------------------------------------------------------------------------------------

def real_sdf_text(mol, mapping=True, cls=None):
    from chython import SDFWrite
    f = io.StringIO()
    w = (cls or SDFWrite)(f, mapping=mapping)
    w.write(mol)
    return f.getvalue()


def real_parse2000(lines):
    from chython.files.mdl import parse_mol_v2000
    try:
        return 'ok ' + show_pmol(parse_mol_v2000(list(lines)))
    except Exception as e:
        return exc_name(e)


class _Stub:
    def __init__(self, tmp):
        self.tmp = tmp
        self.meta = {}


class patched_sdf:
    """run the real SDFRead.read_structure with create_molecule / postprocess_molecule replaced by recorders
    (they are outside the model); everything else — block splitting, m_end, parse, mapping, metadata — is the real code."""

    def __enter__(self):
        import chython.files.SDFrw as S
        self.S = S
        self.saved = (S.create_molecule, S.postprocess_molecule)
        S.create_molecule = lambda tmp, **kw: _Stub(tmp)
        S.postprocess_molecule = lambda mol, tmp, **kw: None
        return self

    def __exit__(self, *a):
        self.S.create_molecule, self.S.postprocess_molecule = self.saved


def show_rec(stub):
    return (show_pmol(stub.tmp) + ' MAP ' + ' '.join(map(str, stub.tmp['mapping'])) + ' ' + show_meta(stub.meta))


def real_sdfread(text, bufsize):
    """mirror of the driver's `sdfread`: step blocks with the real reader, then the real __iter__, then (if possible) the index"""
    from chython import SDFRead
    out = []
    with patched_sdf():
        r = SDFRead(io.StringIO(text), buffer_size=bufsize)
        for _ in range(text.count('\n') + 3):
            try:
                r._read_block(current=False)
            except Exception as e:
                out.append(exc_name(e))
                break
            buf, m_end = r._buffer, r._SDFRead__m_end
            head = f'blk {len(buf)} {m_end if m_end else "-"} '
            try:
                stub = r.read_structure(current=True)
                out.append(head + 'ok ' + show_rec(stub))
            except Exception as e:
                out.append(head + exc_name(e))
        r = SDFRead(io.StringIO(text), buffer_size=bufsize)
        n, crash = 0, '-'
        try:
            for _ in r:
                n += 1
        except Exception as e:
            crash = type(e).__name__
        out.append(f'iter {n} {crash}')
    return out


def real_index(text):
    """`_shifts` built by the real reset_index (grep) on a real file"""
    from chython import SDFRead
    d = tempfile.mkdtemp(prefix='c11_')
    p = os.path.join(d, 'f.sdf')
    try:
        with open(p, 'w', newline='') as f:
            f.write(text)
        r = SDFRead(p, indexable=True)
        try:
            return list(r._shifts or [])
        finally:
            r.close()
            try:
                os.remove(r._cache_path)
            except OSError:
                pass
    finally:
        try:
            os.remove(p)
            os.rmdir(d)
        except OSError:
            pass


# ------------------------------------------------------------------------------------------------
# corruption
# ------------------------------------------------------------------------------------------------

EDIT_ALPHABET = '0123456789 -+._$><MENDCHGISORAVLD\t' + 'abxyz&;='


def corrupt_lines(rng, lines):
    """one structured single edit of a list of lines (each with its '\\n'); returns (kind, new_lines)"""
    lines = list(lines)
    kind = rng.choice(['char', 'char', 'char', 'del-char', 'ins-char', 'del-line', 'dup-line', 'swap', 'field', 'field',
                       'trunc-line', 'prop-line', 'counts'])
    if not lines:
        return 'empty', lines
    i = rng.randrange(len(lines))
    body = lines[i][:-1] if lines[i].endswith('\n') else lines[i]
    if kind == 'char' and body:
        j = rng.randrange(len(body))
        body = body[:j] + rng.choice(EDIT_ALPHABET) + body[j + 1:]
        lines[i] = body + '\n'
    elif kind == 'del-char' and body:
        j = rng.randrange(len(body))
        lines[i] = body[:j] + body[j + 1:] + '\n'
    elif kind == 'ins-char':
        j = rng.randrange(len(body) + 1)
        lines[i] = body[:j] + rng.choice(EDIT_ALPHABET) + body[j:] + '\n'
    elif kind == 'del-line':
        del lines[i]
    elif kind == 'dup-line':
        lines.insert(i, lines[i])
    elif kind == 'swap' and len(lines) > 1:
        j = rng.randrange(len(lines))
        lines[i], lines[j] = lines[j], lines[i]
    elif kind == 'field' and len(lines) > 4:
        i = rng.randrange(4, len(lines))
        body = lines[i].rstrip('\n')
        a, b = rng.choice([(0, 10), (31, 34), (34, 36), (36, 39), (60, 63), (0, 3), (3, 6), (6, 9), (9, 12), (10, 13), (14, 17)])
        new = rng.choice(['  0', '  1', '  4', '  7', '  8', '  9', ' -1', '   ', '', ' D ', ' A ', ' L ', 'AL ', ' 13', '999', '1e1', '1_0',
                          ' +2', '0x1', ' 1 ', '- 1', '  6', ' 10'])
        lines[i] = body[:a] + new + body[b:] + '\n'
    elif kind == 'trunc-line':
        j = rng.randrange(len(body) + 1)
        lines[i] = body[:j] + '\n'
    elif kind == 'prop-line':
        n = rng.choice([0, 1, 2, 3, 8, -1])
        ent = ''.join(f' {rng.choice([0, 1, 2, 3, 50, -1, 999]):3d} {rng.choice([-4, -1, 0, 2, 4, 13, 15]):3d}' for _ in range(max(n, 0) + rng.choice([0, 0, 1])))
        l = f"M  {rng.choice(['CHG', 'ISO', 'RAD', 'ALS', 'STY', 'XYZ', 'SDD'])}{n:3d}{ent}\n"
        j = max(0, len(lines) - 1 - rng.choice([0, 0, 1, 2]))
        lines.insert(j, l)
    elif kind == 'counts' and len(lines) > 3:
        body = lines[3].rstrip('\n')
        a = rng.choice([0, 3])
        new = rng.choice(['  0', '  1', '  2', ' -1', ' -2', '999', '   ', ' 50', 'abc'])
        lines[3] = body[:a] + new + body[a + 3:] + '\n'
    return kind, lines


def splitkeep(text):
    return text.splitlines(keepends=True) if '\r' not in text else None


# ------------------------------------------------------------------------------------------------
# correspondence
# ------------------------------------------------------------------------------------------------

class Batch:
    """collects (request line, expected response from the real code, case descriptor) and runs the driver once"""

    def __init__(self, ctx, stream):
        self.ctx, self.stream = ctx, stream
        self.req, self.exp, self.case = [], [], []

    def add(self, req, expected, case, key=None):
        self.req.append(req)
        self.exp.append(expected)
        self.case.append(case)
        self.ctx.count((self.stream, key if key is not None else req))

    def run(self):
        ctx = self.ctx
        if not self.req or not ctx.build_ok:
            return
        got = core.run_driver('C11', self.req)
        if len(got) != len(self.req):
            ctx.broke('correspondence', self.stream, f'driver answered {len(got)} lines for {len(self.req)} requests')
            return
        bad = 0
        for g, e, c in zip(got, self.exp, self.case):
            ctx.cov['disagreements_checked'] += 1
            if 'err:unsupported' in g:
                ctx.dist(self.stream + ':out-of-model')
                continue
            if callable(e):
                ok = e(g)
            else:
                ok = g == e
            if not ok:
                bad += 1
                if bad <= 3:
                    ctx.broke('correspondence', self.stream,
                              f'case {c}\n model: {g[:1500]}\n real : {(e if isinstance(e, str) else "<predicate>")[:1500]}')
                    _state.setdefault('disagreements', []).append((self.stream, c))
        ctx.dist(self.stream, len(self.req))


def stream_prim(ctx):
    rng = ctx.rng
    b = Batch(ctx, 'prim')
    ns = list(range(-120, 1100)) if not ctx.quick else list(range(-30, 130)) + [rng.randint(-99999, 99999) for _ in range(200)] + [999, 1000, -99, -100]
    for n in ns:
        for w in (3, 2):
            b.add(f'fmtd {w} {n}', cps(f'{n:{w}d}'), ('fmtd', w, n))
    ks = [0, 1, -1, 9999, 10000, -10000, 99999999, -99999999, 999999999, -999999999, 1000000000, 12345, -7145] + \
         [rng.randint(-10 ** rng.randint(1, 10), 10 ** rng.randint(1, 10)) for _ in range(300 if ctx.quick else 3000)]
    for k in ks:
        x = k / 10000
        if kcoord(x) != k:
            continue
        b.add(f'f4 10 {k}', cps(f'{x:10.4f}'), ('f4', k))
        s = f'{x:10.4f}'
        b.add('float ' + raw(s), 'ok ' + dec(float(s)), ('float-of-f4', k))
    alpha = '0123456789 +-._\t\n'
    for _ in range(600 if ctx.quick else 6000):
        s = ''.join(rng.choice(alpha if rng.random() < 0.9 else alpha + 'eExnNiaf') for _ in range(rng.randint(0, 6)))
        try:
            e = f'some {int(s)}'
        except ValueError:
            e = 'none'
        b.add('int ' + raw(s), e, ('int', s))
        try:
            x = float(s)
            e = 'ok ' + dec(x)
        except ValueError:
            e = 'err:ValueError'
        b.add('float ' + raw(s), e, ('float', s))
    b.run()


def stream_writer(ctx, mols):
    """W: real SDFWrite text vs model text; P: parse of that text; both on the same molecules."""
    rng = ctx.rng
    bw = Batch(ctx, 'W:sdf-v2000')
    bp = Batch(ctx, 'P:v2000-written')
    texts = []
    for tag, m in mols:
        m = m.copy()
        if rng.random() < 0.5:
            m, _ = molgen.renumber(rng, m, hi=rng.choice([None, 300, 999, 1200]))
            snap(m)
        if rng.random() < 0.35:
            decorate_fields(rng, m)
        m.name = rng.choice(['', '', rand_text(rng, 1, 30), ' padded ', rand_text(rng, 1, 10, SAFE)])
        m.meta.clear()
        m.meta.update(rand_meta(rng, wf=rng.random() < 0.7))
        mapping = rng.random() < 0.85
        try:
            real = 'ok ' + cps(real_sdf_text(m, mapping))
        except Exception as e:
            real = exc_name(e)
        bw.add(f'sdfwrite {int(mapping)} ' + ' '.join(map(str, wmol_ints(m) + meta_ints(m.meta))), real,
               (tag, 'sdfwrite'), key=(tag, real))
        ctx.dist('W:atoms<=%d' % (10 * (len(m) // 10 + 1)))
        if real.startswith('ok'):
            text = real_sdf_text(m, mapping)
            texts.append((tag, m, text))
            lines = text.split('M  END\n')[0].splitlines(keepends=True) + ['M  END\n']
            if '\r' not in text and '\n' not in m.name:
                bp.add('pmol2000 ' + raw(''.join(lines)), real_parse2000(lines), (tag, 'parse-written'), key=''.join(lines))
    if ctx.cov['samples'] == [] and texts:
        ctx.sample({'stream': 'W', 'case': texts[0][0], 'text_head': texts[0][2][:200]})
    bw.run()
    bp.run()
    return texts


def stream_parse_corrupt(ctx, texts, n):
    rng = ctx.rng
    b = Batch(ctx, 'P:v2000-corrupted')
    for _ in range(n):
        tag, m, text = rng.choice(texts)
        if '\r' in text or '\n' in m.name:
            continue
        lines = text.split('M  END\n')[0].splitlines(keepends=True) + ['M  END\n']
        kinds = []
        for _ in range(rng.choice([1, 1, 1, 2])):
            k, lines = corrupt_lines(rng, lines)
            kinds.append(k)
        if any('\r' in l for l in lines):
            continue
        real = real_parse2000(lines)
        ctx.dist('P:outcome:' + real.split(' ')[0])
        b.add('pmol2000 ' + raw(''.join(lines)), real, (tag, 'corrupt', kinds), key=''.join(lines))
    b.run()


def stream_testfiles(ctx):
    """the repository's own SDF test files through the real framing + parsers vs the model"""
    b = Batch(ctx, 'F:repo-test-files')
    for p in sorted((core.REPO / 'test').glob('*.sdf')):
        text = p.read_text()
        if '\r' in text or not text.isascii():
            ctx.dist('F:skipped-non-ascii-or-cr')
            continue
        if ctx.quick:
            text = ''.join(text.split('$$$$\n')[i] + '$$$$\n' for i in range(min(6, text.count('$$$$\n'))))
        exp = real_sdfread(text, 10000)
        try:
            idx = real_index(text)
        except Exception:
            idx = None
        if not idx:  # no `$$$$` line at all: grep exits 1 / `_shifts` empty — indexing unavailable, compare the rest
            e = ' | '.join(exp)
            b.add('sdfread 10000 ' + raw(text), (lambda g, e=e: g.rsplit(' | idx', 1)[0] == e), (p.name,), key=p.name)
        else:
            b.add('sdfread 10000 ' + raw(text), ' | '.join(exp + ['idx ' + ' '.join(map(str, idx))]), (p.name,), key=p.name)
    b.run()


def stream_framing(ctx, texts, n):
    """multi-record files, one record corrupted (or replaced / emptied / truncated) at every position"""
    rng = ctx.rng
    b = Batch(ctx, 'F:multi-record')
    for _ in range(n):
        k = rng.randint(1, 4)
        recs = [rng.choice(texts)[2] for _ in range(k)]
        if any('\r' in r for r in recs):
            continue
        for pos in range(k):
            rs = list(recs)
            lines = rs[pos].splitlines(keepends=True)
            mode = rng.choice(['edit', 'edit', 'edit', 'empty', 'garbage', 'no-end', 'short', 'dollar-in-meta', 'no-sep', 'intact'])
            if mode == 'edit':
                _, lines = corrupt_lines(rng, lines)
                rs[pos] = ''.join(lines)
            elif mode == 'empty':
                rs[pos] = '$$$$\n'
            elif mode == 'garbage':
                rs[pos] = ''.join(rand_text(rng, 0, 30) + '\n' for _ in range(rng.randint(1, 6))) + '$$$$\n'
            elif mode == 'no-end':
                rs[pos] = ''.join(l for l in lines if not l.startswith('M  END'))
            elif mode == 'short':
                rs[pos] = ''.join(lines[:rng.randint(0, 3)]) + 'M  END\n$$$$\n'
            elif mode == 'dollar-in-meta':
                rs[pos] = ''.join(lines[:-1]) + '>  <k>\n' + rng.choice(['a$$$$', '$$$$x', ' $$$$', '$$$']) + '\n\n$$$$\n'
            elif mode == 'no-sep':
                rs[pos] = ''.join(lines[:-1])
            text = ''.join(rs)
            if rng.random() < 0.1 and text.endswith('\n'):
                text = text[:-1]
            if '\r' in text:
                continue
            bs = rng.choice([10000, 10000, 10000, rng.randint(3, 40)])
            exp = real_sdfread(text, bs)
            try:
                idx = real_index(text)
            except Exception as e:
                idx = None
            ctx.dist('F:mode:' + mode)
            if idx is None or not idx:
                # no separator line at all: reset_index leaves `_shifts` empty (indexing unavailable) — compare the rest
                e = ' | '.join(exp)
                b.add(f'sdfread {bs} ' + raw(text), (lambda g, e=e: g.rsplit(' | idx', 1)[0] == e), (mode, pos, k), key=text)
            else:
                b.add(f'sdfread {bs} ' + raw(text), ' | '.join(exp + ['idx ' + ' '.join(map(str, idx))]), (mode, pos, k), key=text)
    b.run()


def stream_meta(ctx, n):
    rng = ctx.rng
    from chython import SDFRead
    b = Batch(ctx, 'M:sdf-metadata')
    alpha = PRINTABLE + '><<>>  &gt;&lt;'
    for _ in range(n):
        lines = []
        for _ in range(rng.randint(0, 6)):
            r = rng.random()
            if r < 0.4:
                lines.append(rng.choice(['>  <', '> <', '><', '>  a <', '> 1 <']) + rand_text(rng, 0, 8, alpha) + rng.choice(['>', '> ', '>(1)', '', '>x>']))
            elif r < 0.5:
                lines.append('')
            else:
                lines.append(rand_text(rng, 0, 16, alpha))
        text = ''.join(l + '\n' for l in lines)
        if rng.random() < 0.1:
            text = text[:-1] if text else text
        r = SDFRead(io.StringIO(''))
        r._buffer = ['M  END\n'] + text.splitlines(keepends=True)
        r._SDFRead__m_end = 1
        md = r.read_metadata()
        b.add('meta ' + raw(text), show_meta(md), ('meta',), key=text)
    b.run()


# ------------------------------------------------------------------------------------------------
# property-level oracle on the real code (used by RT stream, search and probe)
# ------------------------------------------------------------------------------------------------

def stereo_record(mol):
    """configuration labels made independent of neighbour (dict) order: every sign is translated to the order given by
    sorted atom numbers (the stored sign is relative to the molecule's own neighbour order)."""
    tet, allene, ct = [], [], []
    for n, env in mol.stereogenic_tetrahedrons.items():
        if mol._atoms[n].stereo is not None:
            tet.append((n, bool(mol._translate_tetrahedron_sign(n, sorted(env)))))
    for c, (n0, n1, n2, n3) in mol.stereogenic_allenes.items():
        if mol._atoms[c].stereo is not None:
            nn = min(x for x in (n0, n2) if x is not None)
            nm = min(x for x in (n1, n3) if x is not None)
            allene.append((c, nn, nm, bool(mol._translate_allene_sign(c, nn, nm))))
    for (n, m), (n0, n1, n2, n3) in mol.stereogenic_cis_trans.items():
        nn = min(x for x in (n0, n2) if x is not None)
        nm = min(x for x in (n1, n3) if x is not None)
        try:
            sgn = bool(mol._translate_cis_trans_sign(n, m, nn, nm))
        except KeyError:
            continue
        if n > m:
            n, m, nn, nm = m, n, nm, nn
        ct.append((n, m, nn, nm, sgn))
    return sorted(tet), sorted(allene), sorted(ct)


def record(mol):
    """what the property says must be preserved"""
    atoms = [(n, a.atomic_symbol, a.isotope, a.charge, bool(a.is_radical)) for n, a in mol.atoms()]
    bonds = sorted((min(n, m), max(n, m), b.order) for n, m, b in mol.bonds())
    tet, allene, ct = stereo_record(mol)
    return {'atoms': atoms, 'bonds': bonds, 'tetrahedral': tet, 'allene': allene, 'cis_trans': ct, 'name': mol.name.strip()}


def norm_value(v):
    """the readers' documented per-line whitespace normalisation"""
    return '\n'.join(l.strip() for l in v.split('\n') if l.strip())


def norm_meta(md):
    return {k.strip(): norm_value(v) for k, v in md.items() if norm_value(v)}


WRITERS = ('SDFWrite', 'ESDFWrite', 'RDFWrite', 'ERDFWrite', 'MRVWrite')


def io_classes(fmt):
    import chython.files as F
    rd = {'SDFWrite': F.SDFRead, 'ESDFWrite': F.SDFRead, 'RDFWrite': F.RDFRead, 'ERDFWrite': F.RDFRead, 'MRVWrite': F.MRVRead}[fmt]
    return getattr(F, fmt), rd


def write_read(fmt, objs):
    """write objs with writer `fmt`, read everything back; returns (text, list of read objects)"""
    W, Rd = io_classes(fmt)
    if fmt == 'MRVWrite':
        f = io.BytesIO() if _mrv_binary() else io.StringIO()
    else:
        f = io.StringIO()
    w = W(f)
    for o in objs:
        w.write(o)
    w.close()
    text = f.getvalue()
    f2 = io.BytesIO(text) if isinstance(text, bytes) else io.StringIO(text)
    return text, list(Rd(f2, calc_cis_trans=True))


def _mrv_binary():
    return False


def in_meta_domain_sdf(md):
    """WFmeta for SDF: the format can represent the value (see design/C11.md)"""
    for k, v in md.items():
        if not k.strip() or k != k.strip() or '\n' in k or '&gt;' in k or '&lt;' in k or k == 'chython_unparsed_metadata':
            return False
        if not norm_value(v):
            return False
        for l in v.split('\n'):
            if l.startswith('$$$$') or re.match(r'^>([^<]+)<([^>]+)>([^><]*)$', l):
                return False
    ks = [k for k in md]
    return len(set(ks)) == len(ks)


def in_stereo_domain(mol):
    """the property's recorded writer/reader asymmetry: explicit hydrogens on stereocentres are outside the domain"""
    centres = {n for n, a in mol.atoms() if a.stereo is not None}
    for n, m, b in mol.bonds():
        if b.stereo is not None:
            centres.update((n, m))
    for (n, m) in mol.stereogenic_cis_trans:
        centres.update((n, m))
    for c in mol.stereogenic_allenes:
        centres.update(mol._stereo_allenes_terminals[c])
    for n in centres:
        if any(mol._atoms[x].atomic_number == 1 for x in mol._bonds[n]):
            return False
    return True


def compare_records(a, b):
    ra, rb = record(a), record(b)
    diffs = [f for f in ra if ra[f] != rb[f]]
    return diffs, ra, rb


def stream_roundtrip(ctx, mols):
    """RT: property-level write->read on the real code inside the stated domain (valid molecules, WF metadata)."""
    rng = ctx.rng
    for tag, m in mols:
        if not in_stereo_domain(m):
            ctx.dist('RT:skipped-explicit-H-on-stereocentre')
            continue
        m = m.copy()
        m.name = rng.choice(['', rand_text(rng, 1, 20, SAFE).strip()])
        m.meta.clear()
        md = rand_meta(rng, wf=True)
        if in_meta_domain_sdf(md):
            m.meta.update(md)
        for fmt in ('SDFWrite', 'ESDFWrite'):
            ctx.count(('RT', fmt, tag, str(m), tuple(sorted(m.meta.items()))))
            ctx.dist('RT:' + fmt)
            try:
                text, back = write_read(fmt, [m])
            except Exception as e:
                ctx.fail(f'C11/roundtrip/{fmt}/crash/{type(e).__name__}', f'{fmt} write->read of {tag} raised {e!r}',
                         {'kind': 'roundtrip', 'fmt': fmt, 'smiles': str(m), 'tag': tag})
                continue
            if len(back) != 1:
                ctx.fail(f'C11/roundtrip/{fmt}/record-lost', f'{fmt}: {len(back)} records read back for {tag}',
                         {'kind': 'roundtrip-text', 'fmt': fmt, 'text': text, 'expect_records': 1})
                continue
            diffs, ra, rb = compare_records(m, back[0])
            mdiff = norm_meta(m.meta) != {k: v for k, v in back[0].meta.items() if not k.startswith('chython_')}
            if diffs or mdiff:
                ctx.fail(f'C11/roundtrip/{fmt}/' + '+'.join(diffs + (['meta'] if mdiff else [])),
                         f'{fmt} write->read of {tag} changed {diffs} meta_changed={mdiff}',
                         {'kind': 'roundtrip-text', 'fmt': fmt, 'text': text, 'expect': ra, 'expect_meta': norm_meta(m.meta)})


def correspond(ctx):
    ctx.cov['programs'] = 9  # MOLWrite._write_molecule, SDFWrite.write, parse_mol_v2000, postprocess_parsed_molecule,
    # SDFRead._read_block/_read_mol/read_metadata/read_structure, MDLRead.__iter__, reset_index
    mols = molecules(ctx, 60 if ctx.quick else 600)
    ctx.dist('molecules', len(mols))
    stream_prim(ctx)
    texts = stream_writer(ctx, mols)
    if texts:
        stream_parse_corrupt(ctx, texts, 400 if ctx.quick else 6000)
        stream_framing(ctx, texts, 40 if ctx.quick else 500)
    stream_testfiles(ctx)
    stream_meta(ctx, 300 if ctx.quick else 4000)
    stream_roundtrip(ctx, mols[:: (3 if ctx.quick else 1)])


def search(ctx):
    return


def probe(inp):
    kind = inp.get('kind')
    if kind == 'roundtrip-text':
        _, Rd = io_classes(inp['fmt'])
        back = list(Rd(io.StringIO(inp['text']), calc_cis_trans=True))
        if 'expect_records' in inp and len(back) != inp['expect_records']:
            return True, f'{len(back)} records read, expected {inp["expect_records"]}'
        if 'expect' in inp:
            rb = record(back[0])
            exp = inp['expect']
            diffs = [f for f in exp if _jsonish(rb[f]) != _jsonish(exp[f])]
            meta = {k: v for k, v in back[0].meta.items() if not k.startswith('chython_')}
            if diffs or meta != inp.get('expect_meta', meta):
                return True, f'fields changed: {diffs}; meta read back {meta}'
        return False, 'record preserved'
    return False, f'unknown probe kind {kind}'


def _jsonish(x):
    import json
    return json.loads(json.dumps(x))
