"""C08 — SMARTS primitives and query atoms match exactly what is documented (proof level).

Tie: G (Gen/QueryTables.lean: element flags, tokenizer literals, setter domains — regenerated every run), P (Props/C08.lean),
K: the executable Lean model (Model/QueryEq.lean, Model/SmartsParse.lean) against the real chython, in-process:
  eq    query_atom == atom          every primitive / pair of primitives / API-built query x every atom environment
  beq   QueryBond == Bond|int|QueryBond, QueryBond(...) constructor           (exhaustive finite domain)
  fa    QueryElement.from_atom(atom, flags)                                   (all 32 flag sets x environments)
  lab   MoleculeContainer.calc_labels (neighbors, heteroatoms, hybridization, explicit H, ring sizes, bond in_ring)
  qp    tokenize._query_parse   (private, secondary stream)
  sm    chython.smarts(text): bracket atoms (exhaustive short strings + grammar + corruptions), bond-token strings
        (exhaustive), cis/trans chains, maps / masks / CX radicals; outcome = query graph | IncorrectSmarts | other
  m1/m2 smarts(text).get_mapping(mol) for 1- and 2-atom patterns (the public observation point; composition of all parts)
  mn    smarts(text).get_mapping(mol) for whole patterns (branches, ring closures, query bonds on the closures) on cage / polycyclic
        targets and on ordinary molecules: reference path vs the Lean model (property C07's matcher model run over this property's
        comparison models; theorem pattern_match_is_documented), public default path (accelerated matcher) vs the reference path
Search: a property-level oracle written from the documentation (never consulting the Lean model): own attribute
computation per atom (degree, heteroatoms, hybridisation per docstring, ring membership / ring sizes by cycle search) and the
documented meaning of each primitive; plus "smarts() raises something that is not IncorrectSmarts".
"""
import itertools

from .. import core, molgen, wire
from ..gen import gen_query

LEVEL = 'proof'
LEVEL_TEXT = ('The comparison methods, the label computation, the setters and the SMARTS reader are small functions with finitely many '
              'branches: their executable Lean models are proved equal to a declarative semantics written from the docstrings for ALL '
              'query atoms / atoms / bonds / bond lists (no bound); the reader is proved, for every well-formed documented bracket atom '
              '(unbounded numbers and list lengths), to return exactly the documented query atom, to reject every text containing a '
              'character no documented construct uses, and to raise nothing but IncorrectSmarts; table facts (any-metal, not_dict, '
              'charge_dict, setter domains) are proved over tables regenerated from the source on every run. The models are tied to '
              'the code by differential execution on every primitive, primitive pair, API argument form x environment and on '
              'exhaustive short strings. Whole patterns (any size, ring closures, several components): get_mapping is proved to return '
              'exactly the embeddings by the documented meaning of every atom and bond (C07 exactness theorem instantiated with '
              'eq_is_spec / bond_eq_is_spec) and executed against both matcher paths on cage targets; the input string (white-space split, CX '
              'radical block) is modelled and proved to round-trip for every index list. Proof is the right level because the quantifier of the property (all primitives x all '
              'environments, all strings of the documented subset) is closed by the theorems, not sampled.')
LEVEL_NOTE = ('Lean kernel; hand-written models validated by correspondence (not a proof about the Python text); gen_query translator; '
              'ring perception (sssr) and connected_components are inputs of the label / matcher model (C06, C07); the search itself is '
              'property C07\'s model and exactness theorem (imported); stereo matching in get_mapping (C12/C07) is outside; the compiled '
              'matcher (C09) is outside the model but its results are compared with the reference path on every pattern inside its '
              'documented domain; the CX radical scanner is property C15\'s model (imported); the chain of C07 exactness theorems is copied '
              'verbatim into Proofs/C08IsoExact.lean (same statements, same model definitions) to keep the build independent of Props/C07.lean.')
TECHNIQUE = ('Lean 4 theorems over an executable model of query __eq__ / calc_labels / SMARTS reader (whole input string incl. CX radical block) / '
             'whole-pattern get_mapping (C07 matcher model over these comparisons) + regenerated tables + differential execution on both matcher paths')
HAS_DRIVER = True
EXTRA_MODULES = []
FINDINGS_MODULE = 'ChythonModel.Findings.C08'
RULE = ('queries: every documented primitive with every admissible value, every unordered pair of primitives from different '
        'families, element / list / any / any-metal heads, isotope, charge, radical, API-built (from_atom with all 32 flag sets, '
        'ListElement, AnyMetal; constructor and setter calls with None / int / list / tuple arguments incl. 0 and the maxima); environments: distinct (Z, isotope, charge, radical, neighbours, hybridisation, ring sizes, H, '
        'heteroatoms) tuples of corpus / handmade / decorated-graph atoms plus a synthetic attribute grid; bonds: all 31 order '
        'sets x ring mark x all (order, ring) bonds; strings: all bracket contents up to a bounded length over the documented '
        'alphabet, grammar-generated documented atoms, single-edit corruptions, all bond-token strings up to length 4 between '
        'two atoms, cis/trans chains; whole patterns: ring / closure patterns (plain and bracket atoms, bond lists, negations and ring marks on '
        'the closure bond, branches, spiro / fused closures) x cage targets (quadricyclane, basketane, prismanes, propellanes, random '
        'chord-rich polycycles with O / N / double bonds, renumbered copies) and patterns cut from cages and from ordinary molecules in '
        'random depth-first order with mostly-true primitives (induced and with one cycle bond dropped), searched in their source and '
        'elsewhere. A case is one (query, environment) / (string) / (molecule, pattern) evaluation; non-trivial '
        'when the query constrains something or the string is not empty; distinct by canonical wire form.')
TRUSTED = ['gen_query translator (imports chython from /repo, AST of tokenize.py, probes the live setters)',
           'Spec/QuerySemantics.lean (written by hand from the docstrings of query.py, element.py, smarts.py)',
           'hand transcription of the four regexes and of Python int() in Model/SmartsParse.lean (validated by exhaustive short strings)']
ASSUMPTIONS = ['the SMARTS token itself is ASCII (white space around it and before the CX block is modelled: str.split)',
               'atoms handed to __eq__ are instances of a periodic-table Element subclass (so they have is_forming_single_bonds)',
               'ring sizes of an atom are taken from MoleculeContainer.sssr (ring perception itself is property C06)']

SEARCH_ALWAYS_IN_THOROUGH = True

# constructs the documentation names as unsupported / out of range: each must be rejected with IncorrectSmarts
MUST_REJECT = ['[C&D2]', '[C;D2&h1]', '[C,N&O]', '[!C]', '[C;!D2]', '[C;!r5]', '[C;R]', '[C;R2]', '[C;X2]', '[C;v4]', '[C;H1]', '[C;$(CC)]',
               '[C;D1,h1]', '[C;r5,D2]', '[C;D15]', '[C;h15]', '[C;x15]', '[C;z0]', '[C;z5]', '[C;r2]', '[C;r1]', '[C;r0]', '[C;D]', '[C;r]',
               '[C+5]', '[C-5]', '[;D2]', '[]', '[C]!~[C]', '[C]-,=,#[C]', '[C]@[C]', '[C]!@[C]', '[C];@[C]', '[C];!@[C]', '[C]-;@@[C]',
               '[C]-;!!@[C]', '[C]--[C]', '[C]-', '-[C]', '[C]!', '[C]-,[C]', '[Xx]', '[C,Xx]', '[#0]', '[#119]', '[M+]', '[M;h1]', '[M;r5]',
               '[M;x1]', '[2A]', '[13C,N]', '[C:3;D2]', '[C:1:2]', '[C:3@]', '[C;D2:0]', '[C:03]']

BRACKET_ALPHABET = 'CNOM#A,;!RahDrxz123+-:@&5'
BOND_ALPHABET = '-=#:~/\\.;,!@'

_state = {}


# ------------------------------------------------------------------------------------------------
# regenerate
# ------------------------------------------------------------------------------------------------

def generate(ctx):
    path = gen_query.generate()
    ctx.notes.extend(gen_query.NOTES)
    return [path]


# ------------------------------------------------------------------------------------------------
# wire encoders
# ------------------------------------------------------------------------------------------------

def L(xs):
    xs = list(xs)
    return [len(xs)] + xs


def tri(v):
    return -1 if v is None else int(bool(v))


def enc_matom(a):
    rs = sorted(a.ring_sizes)
    h = a.implicit_hydrogens
    return [a.atomic_number, -1 if a.isotope is None else a.isotope, a.charge, int(a.is_radical), a.neighbors, a.hybridization] \
        + L(rs) + [-1 if h is None else h, a.heteroatoms]


def enc_qatom(q):
    from chython.periodictable import AnyElement, AnyMetal, ListElement
    if isinstance(q, AnyMetal):
        return [3, 0, -1, 0, 0, 0] + L(q.neighbors) + L(q.hybridization) + [0, 0, 0, -1, int(q.masked)]
    if isinstance(q, AnyElement):
        head = [1, 0, -1, 0]
    elif isinstance(q, ListElement):
        head = [2, 0, -1] + L(sorted(set(q.atomic_numbers)))
    else:
        head = [0, q.atomic_number, -1 if q.isotope is None else q.isotope, 0]
    return head + [q.charge, int(q.is_radical)] + L(q.neighbors) + L(q.hybridization) + L(q.ring_sizes) \
        + L(q.implicit_hydrogens) + L(q.heteroatoms) + [tri(q.stereo), int(q.masked)]


def enc_qbond(b):
    return L(b.order) + [tri(b.in_ring), tri(b.stereo)]


def cps(s):
    return [ord(c) for c in s]


def line(op, ints):
    return op + ' ' + ' '.join(map(str, ints))


def mol_rings_ints(mol):
    out = wire.mol_to_ints(mol)
    rings = list(mol.sssr)
    out.append(len(rings))
    for r in rings:
        out += L(r)
    return out


def canon_graph(q):
    """real QueryContainer -> (atoms, bonds) canonical structure (masked numbers -> rank of appearance)"""
    masked = sorted(n for n in q._atoms if n > 10 ** 9)
    lab = lambda n: f'M{masked.index(n) + 1}' if n > 10 ** 9 else str(n)
    atoms = [(lab(n), tuple(enc_qatom(a))) for n, a in q._atoms.items()]
    bonds = sorted((tuple(sorted((lab(n), lab(m)))), tuple(enc_qbond(b))) for n, m, b in q.bonds())
    return atoms, bonds


def parse_model_graph(resp):
    """`ok k | atom | atom || kb | bond | bond` -> same structure"""
    body = resp[3:]
    a_part, b_part = body.split(' || ')
    a_items = [x.strip() for x in a_part.split(' | ')][1:]
    b_items = [x.strip() for x in b_part.split(' | ')][1:]
    atoms = []
    for it in a_items:
        ws = it.split()
        atoms.append((ws[0], tuple(int(w) for w in ws[1:])))
    bonds = []
    for it in b_items:
        if not it:
            continue
        ws = it.split()
        bonds.append((tuple(sorted((ws[0], ws[1]))), tuple(int(w) for w in ws[2:])))
    return atoms, sorted(bonds)


def real_smarts_outcome(text):
    """('ok', graph) | ('err', class name, inner class name or None)"""
    from chython import smarts
    try:
        q = smarts(text)
    except Exception as e:
        c = e.__cause__
        inner = None
        if c is not None:
            from chython.exceptions import IncorrectSmarts, IncorrectSmiles
            inner = next((k.__name__ for k in (IncorrectSmarts, IncorrectSmiles, ValueError, TypeError, IndexError, KeyError)
                          if isinstance(c, k)), type(c).__name__)
        return ('err', type(e).__name__, inner)
    return ('ok', canon_graph(q))


def model_smarts_outcome(resp):
    if resp.startswith('ok '):
        return ('ok', parse_model_graph(resp))
    if resp.startswith('err '):
        ws = resp.split()
        inner = ws[2][6:] if len(ws) > 2 else None
        return ('err', ws[1], inner)
    return ('other', resp)


# ------------------------------------------------------------------------------------------------
# generators
# ------------------------------------------------------------------------------------------------

PRIMS = {
    'D': [f'D{i}' for i in range(0, 7)] + ['D1,D2', 'D2,D3', 'D3,D4', 'D14'],
    'h': [f'h{i}' for i in range(0, 5)] + ['h1,h2', 'h0,h1', 'h2,h3'],
    'r': [f'r{i}' for i in range(3, 9)] + ['r5,r6', 'r3,r4', 'r6,r7', '!R', 'r12'],
    'x': [f'x{i}' for i in range(0, 5)] + ['x1,x2', 'x0,x3'],
    'z': ['z1', 'z2', 'z3', 'z4', 'a', 'z1,z2', 'z2,z4', 'z3,z4', 'z1,z3'],
}
HEADS = ['C', 'N', 'O', 'S', 'A', 'M', 'C,N', 'N,O,S', '#6', '#7,#8', 'Cl', 'Fe', 'H', 'F,Cl,Br,I', 'P', 'B',
         'C,Pb', 'Fe,Pt', 'Ni,Pd,Pt', 'Cl,I,At', '#28,#78', 'U,C,O', 'Ba,La', 'Cs,Ba,La,Hf', 'Pt', 'La', 'Og,C']
HEAD_EXTRA = ['13C', '2H', '15N', 'C+', 'N+', 'O-', 'N-', 'A+', 'A-', 'C,N+', 'Fe+2', 'C-', '0C', '12C', '14C']


def primitive_queries(ctx):
    """(text, radical indices) for single primitives and pairs of primitives on several heads"""
    quick = ctx.quick
    rng = ctx.rng
    out = []
    fam = sorted(PRIMS)
    for head in HEADS:
        out.append((f'[{head}]', []))
    for head in HEAD_EXTRA:
        out.append((f'[{head}]', []))
    for head in ['C', 'N', 'A', 'C,N', 'O']:
        out.append((f'[{head}]', [0]))  # CX radical
    # single primitives on every head family
    for f in fam:
        for p in PRIMS[f]:
            for head in (['C', 'A', 'N,O,S', 'N'] if quick else HEADS):
                if head == 'M' and f not in ('D', 'z'):
                    continue
                out.append((f'[{head};{p}]', []))
    for p in PRIMS['D'] + PRIMS['z']:
        out.append((f'[M;{p}]', []))
    # pairs of primitives from different families (all family pairs; values: all x all in thorough, sampled in quick)
    for f, g in itertools.combinations(fam, 2):
        pairs = list(itertools.product(PRIMS[f], PRIMS[g]))
        if quick:
            pairs = rng.sample(pairs, min(len(pairs), 40))
        for p, q in pairs:
            head = rng.choice(['C', 'A', 'N', 'C,N', 'O', 'C+', 'N+', 'S', 'c'.upper()])
            out.append((f'[{head};{p};{q}]', []))
    # D/z pairs on the any-metal head
    for p, q in itertools.product(PRIMS['D'][:7], PRIMS['z'][:5]):
        out.append((f'[M;{p};{q}]', []))
    # triples (sampled)
    for _ in range(60 if quick else 600):
        fs = rng.sample(fam, 3)
        head = rng.choice(['C', 'A', 'N', 'O', 'C,N,O'])
        out.append((f'[{head};' + ';'.join(rng.choice(PRIMS[f]) for f in fs) + ']', []))
    seen, res = set(), []
    for t in out:
        k = (t[0], tuple(t[1]))
        if k not in seen:
            seen.add(k)
            res.append(t)
    return res


def synthetic_atoms(ctx):
    """Element objects with directly assigned label slots: a grid over the attribute space __eq__ reads."""
    from chython.periodictable import Element
    rng = ctx.rng
    out = []
    zs = [1, 2, 3, 5, 6, 7, 8, 9, 11, 13, 14, 15, 16, 17, 18, 26, 29, 30, 35, 46, 53, 54, 78, 79, 82, 86, 92, 118]
    ring_sets = [set(), {3}, {4}, {5}, {6}, {5, 6}, {3, 4}, {6, 7}, {7}, {8}, {12}, {5, 6, 7}]
    n = 700 if ctx.quick else 6000
    for i in range(n):
        z = rng.choice(zs) if i % 3 else rng.choice([6, 7, 8])
        cls = Element.from_atomic_number(z)
        iso = None
        if rng.random() < 0.15:
            iso = rng.choice(sorted(cls.isotopes_distribution.fget(None)))
        a = cls(iso, charge=rng.choice([0, 0, 0, 1, -1, 2, -2, 3, -4, 4]), is_radical=rng.random() < 0.15,
                implicit_hydrogens=rng.choice([None, 0, 0, 1, 1, 2, 3, 4]))
        a._neighbors = rng.choice([0, 1, 1, 2, 2, 3, 3, 4, 5, 6, 14])
        a._heteroatoms = rng.choice([0, 0, 1, 1, 2, 3, 4])
        a._hybridization = rng.choice([1, 1, 2, 3, 4, 4])
        a._explicit_hydrogens = 0
        a._ring_sizes = set(rng.choice(ring_sets))
        a._in_ring = bool(a._ring_sizes)
        out.append(a)
    return out


def molecules(ctx):
    if 'mols' in _state:
        return _state['mols']
    rng = ctx.rng
    mols = list(molgen.handmade())
    mols += molgen.corpus(rng, 60 if ctx.quick else 1200)
    extra = ['[Fe]', 'Cl[Fe](Cl)Cl', 'C[Pd]C', '[He]', '[Xe](F)F', 'C[Hg]C', '[13CH3]O', '[2H]C', 'C[N+](=O)[O-]', 'c1ccccc1[CH2] |^1:6|',
             'C1CC1C1CCC1', 'C1CCC2(CC1)CCCC2', 'C12C3C4C1C5C2C3C45', 'O=S(=O)(O)O', 'O=S(=O)=O', 'N#CC#N', 'C=C=C=C', 'c1ccc2[nH]ccc2c1',
             'C1CCCCCCCCCCCCC1', 'OC(=O)c1ccccc1O', 'FC(F)(F)S(=O)(=O)[O-]', '[Na+].[O-]c1ccccc1', 'C1=CC=C1', 'C#[O+]', '[CH2]C=C |^1:0|',
             'P(=O)(O)(O)O', 'B(F)(F)F', 'C[Si](C)(C)O[Si](C)(C)C', '[Cu+2].[O-]C(=O)C.[O-]C(=O)C', 'C1CC2CCC1C2', 'c1ccc2cc3ccccc3cc2c1']
    for s in extra:
        m = molgen.parse(s)
        if m is not None:
            mols.append((s, m))
    # decorated small graphs (may be valence-invalid: labels do not care), some with order-8 bonds
    graphs = []
    for n in (3, 4, 5):
        graphs += list(molgen.small_graphs(n))
    for i in range(40 if ctx.quick else 600):
        e = rng.choice(graphs)
        try:
            m = molgen.decorate(rng, e)
            mols.append((f'decorated{i}', m))
        except Exception:
            continue
    for i in range(15 if ctx.quick else 200):
        try:
            m = molgen.from_edges(molgen.ring_assembly(rng))
            mols.append((f'rings{i}', m))
        except Exception:
            continue
    # coordination (order 8) bonds
    for i in range(10 if ctx.quick else 60):
        e = rng.choice(graphs)
        try:
            verts = sorted({v for x in e for v in x})
            orders = {x: rng.choice([1, 1, 8, 2, 8]) for x in e}
            els = {v: rng.choice(['C', 'N', 'O', 'Fe', 'Cl', 'H']) for v in verts}
            m = molgen.from_edges(e, els, orders, calc=False)
            m.calc_labels()
            mols.append((f'coord{i}', m))
        except Exception:
            continue
    # renumbered copies
    for name, m in list(mols[:30 if ctx.quick else 300]):
        try:
            r, _ = molgen.renumber(rng, m)
            mols.append((name + '/renum', r))
        except Exception:
            continue
    _state['mols'] = mols
    return mols


def bracket_strings(ctx):
    """bracket contents: exhaustive short strings, grammar-generated documented atoms, single-edit corruptions"""
    rng = ctx.rng
    out = []
    alpha = BRACKET_ALPHABET
    maxlen = 3 if ctx.quick else 4
    for n in range(1, maxlen + 1):
        if n <= 2 or not ctx.quick:
            out += [''.join(t) for t in itertools.product(alpha, repeat=n)]
        else:
            allk = [''.join(t) for t in itertools.product(alpha, repeat=n)]
            out += rng.sample(allk, 6000)
    gram = grammar_atoms(ctx, 1500 if ctx.quick else 15000)
    out += gram
    edits = []
    for s in rng.sample(gram, min(len(gram), 700 if ctx.quick else 7000)):
        k = rng.randrange(3)
        i = rng.randrange(len(s) + 1)
        if k == 0 and s:
            i = min(i, len(s) - 1)
            edits.append(s[:i] + s[i + 1:])
        elif k == 1:
            edits.append(s[:i] + rng.choice(alpha + '_?$()*%.0489HXv') + s[i:])
        elif s:
            i = min(i, len(s) - 1)
            edits.append(s[:i] + rng.choice(alpha + '_?$()*%.0489HXv') + s[i + 1:])
    out += edits
    out += ['C&D2', '!C', 'C;r2', 'C;D15', '#0', '#200', '#', '#a', 'M+', 'M;h1', '2A', '2C,N', 'C;D1_0', 'C+;D+1', '0C', 'C;z5', 'C;h1,D2',
            'C;q1', 'C;', ';C', 'C;D', 'C;D2;D3', 'C:0', 'C:12', 'C:01', 'C+-', 'C-+', 'C;D1,', 'C,', ',C', 'C;D-1', 'C;D1-', 'C;R', 'C;D1,2',
            'C:3;D2', 'C;D2@', 'C@?', 'Xx', 'C,Xx', '#6,#-7', 'C;r0', 'C;r0,r5', 'C;M', 'A;M:7', 'M@', '#118', '#119', 'Og', 'C;D 1', 'C;+;D2',
            'C;a;z2', 'C;z2;a', 'C;!R;r5', 'C;r5;!R', 'C;A', 'C;A;D2', '13C;D2+:5', 'C;D٣']
    seen, res = set(), []
    for s in out:
        if s and s not in seen and '[' not in s and ']' not in s and not any(c.isspace() for c in s) and all(ord(c) < 128 for c in s):
            seen.add(s)
            res.append(s)
    return res


def grammar_atoms(ctx, k):
    rng = ctx.rng
    syms = ['C', 'N', 'O', 'S', 'P', 'F', 'Cl', 'Br', 'I', 'B', 'Si', 'Se', 'Fe', 'Cu', 'Na', 'H', 'Pt', 'Og']
    out = []
    for _ in range(k):
        r = rng.random()
        if r < 0.12:
            head = 'A'
        elif r < 0.2:
            head = 'M'
        elif r < 0.45:
            head = ','.join(rng.sample(syms, rng.randint(2, 4)))
        elif r < 0.55:
            head = ','.join('#' + str(rng.choice([1, 6, 7, 8, 9, 15, 16, 17, 26, 35, 53, 118])) for _ in range(rng.randint(1, 3)))
        else:
            head = rng.choice(syms)
        s = ''
        if rng.random() < 0.15 and head not in ('A', 'M') and ',' not in head:
            s += str(rng.choice([2, 13, 14, 15, 18, 35, 37, 127]))
        s += head
        if rng.random() < 0.15:
            s += rng.choice(['@', '@@'])
        if rng.random() < 0.3 and head != 'M':
            s += rng.choice(['+', '-', '+2', '-2', '++', '--', '+3', '-3', '+4', '-4', '+1', '-1'])
        prims = []
        for f in rng.sample(sorted(PRIMS), rng.randint(0, 4)):
            if head == 'M' and f not in ('D', 'z') and rng.random() < 0.8:
                continue
            prims.append(rng.choice(PRIMS[f]))
        if rng.random() < 0.1:
            prims.append('M')
        if rng.random() < 0.1:
            prims.append('A')
        rng.shuffle(prims)
        for p in prims:
            s += ';' + p
        if rng.random() < 0.2:
            s += ':' + str(rng.randint(1, 40))
        out.append(s)
    return out



def corrupted_atoms(ctx, k):
    """bracket atoms obtained from VALID documented ones by one semantic corruption that the documentation excludes
    (mixed-kind OR list at any position and length, a word primitive inside a list, an empty list item, a value out of the
    documented range, a duplicated value, an unknown primitive letter, `&` / `!` operators) — each must raise IncorrectSmarts"""
    rng = ctx.rng
    letters = 'Dhrxz'
    rng_ok = {'D': (0, 14), 'h': (0, 14), 'x': (0, 14), 'z': (1, 4), 'r': (3, 12)}
    heads = ['C', 'N', 'A', 'C,N', 'O', '#6', 'Cl', 'M']
    out = []

    def lst(t, n):
        lo, hi = rng_ok[t]
        vals = rng.sample(range(lo, hi + 1), min(n, hi - lo + 1))
        return [f'{t}{v}' for v in vals]

    for _ in range(k):
        head = rng.choice(heads)
        t = rng.choice('Dz' if head == 'M' else letters)
        n = rng.randint(2, 5)
        items = lst(t, n)
        kind = rng.randrange(8)
        if kind == 0:      # mixed kinds: replace the letter of one item (any position) by another documented letter
            i = rng.randrange(len(items))
            u = rng.choice([c for c in letters if c != t])
            lo, hi = rng_ok[u]
            items[i] = f'{u}{rng.randint(lo, hi)}'
        elif kind == 1:    # word primitive inside a list
            items.insert(rng.randrange(len(items) + 1), rng.choice(['a', '!R', 'M', 'A']))
        elif kind == 2:    # empty item
            items.insert(rng.randrange(len(items) + 1), '')
        elif kind == 3:    # out of the documented range
            lo, hi = rng_ok[t]
            items[rng.randrange(len(items))] = f'{t}{rng.choice([hi + 1 if t != "r" else 2, 15 if t != "r" else 1, 99 if t != "r" else 0])}'
            if t == 'r' and items.count('r0') == len(items):
                continue
        elif kind == 4:    # duplicated value
            items.append(items[rng.randrange(len(items))])
        elif kind == 5:    # unknown primitive letter
            items[rng.randrange(len(items))] = rng.choice('RXvHqQ') + '2'
        elif kind == 6:    # & operator
            items = ['&'.join(items[:2])] + items[2:]
        else:              # negation of a numeric primitive
            i = rng.randrange(len(items))
            items[i] = '!' + items[i]
        prims = [','.join(items)]
        for u in rng.sample([c for c in letters if c != t], rng.randint(0, 2)):
            if head == 'M' and u not in 'Dz':
                continue
            prims.insert(rng.randrange(len(prims) + 1), ','.join(lst(u, rng.randint(1, 2))))
        out.append('[' + head + ';' + ';'.join(prims) + ']')
    return list(dict.fromkeys(out))

def bond_strings(ctx):
    out = ['']
    maxlen = 4 if ctx.quick else 5
    for n in range(1, maxlen + 1):
        out += [''.join(t) for t in itertools.product(BOND_ALPHABET, repeat=n)]
    if ctx.quick:
        short = [s for s in out if len(s) <= 3]
        long = [s for s in out if len(s) > 3]
        out = short + ctx.rng.sample(long, 5000)
    return out


def chain_strings(ctx):
    """chains of bracket atoms with bond tokens incl. / and \\ marks, maps, masks (with CX radical lists)"""
    rng = ctx.rng
    toks = ['', '-', '=', '#', ':', '~', '/', '\\', '.', '-,=', '=,#', '!-', '!=', '!#', '!:', '-;@', '=;!@', '-,=;@', '!-;!@', '~;@', ':;@']
    atoms = ['[C]', '[N]', '[O;D1]', '[C;M]', '[C:1]', '[N:2]', '[C;M:7]', '[A]', '[C,N]', '[C;h1]', '[M]', '[C:3]', '[C@]', '[C@@;D4]']
    out = []
    for _ in range(800 if ctx.quick else 8000):
        n = rng.randint(1, 6)
        s = rng.choice(atoms)
        for _ in range(n - 1):
            t = rng.choice(toks) if rng.random() < 0.6 else rng.choice(['/', '\\', '=', ''])
            s += t + rng.choice(atoms)
        rad = []
        if rng.random() < 0.25:
            rad = sorted(rng.sample(range(0, n + 1), rng.randint(1, min(2, n + 1))))
        out.append((s, rad))
    # every cis/trans skeleton of 4 atoms
    for a, b, c in itertools.product(['/', '\\', ''], ['=', '-,=', '!-', '=;@', '#', ''], ['/', '\\', '']):
        out.append((f'[C]{a}[C]{b}[C]{c}[C]', []))
    for a, b, c, d, e in itertools.product(['/', '\\'], ['='], ['/', '\\', ''], ['=', ''], ['/', '\\']):
        out.append((f'[F]{a}[C]{b}[C]{c}[C]{d}[C]{e}[F]', []))
    return out


def cx_text(s, rad):
    return s + (' |^1:' + ','.join(map(str, rad)) + '|' if rad else '')


# ------------------------------------------------------------------------------------------------
# correspondence
# ------------------------------------------------------------------------------------------------

def correspond(ctx):
    from ..gen import pyx2py
    pyx2py.install()
    if not ctx.build_ok:
        ctx.notes.append('Lean build failed: driver streams skipped')
        return
    programs = set()
    stream_eq(ctx, programs)
    stream_bonds(ctx, programs)
    stream_from_atom(ctx, programs)
    stream_api(ctx, programs)
    stream_labels(ctx, programs)
    stream_query_parse(ctx, programs)
    stream_smarts(ctx, programs)
    stream_skeleton(ctx, programs)
    stream_full_syntax(ctx, programs)
    stream_history(ctx, programs)
    stream_multi(ctx, programs)
    stream_mapping(ctx, programs)
    stream_embed(ctx, programs)
    stream_text(ctx, programs)
    ctx.cov['programs'] = len(programs)
    ctx.cov['program_names'] = sorted(programs)


def disagree(ctx, stream, detail, case):
    ctx.cov['disagreements_checked'] += 1
    _state.setdefault('disagreements', []).append((stream, case))
    if sum(1 for b in ctx.broken if b.name == stream) < 5:
        ctx.broke('correspondence', stream, detail[:1500])


def environments(ctx):
    """distinct labelled atoms (real Element objects) from molecules + synthetic grid"""
    if 'envs' in _state:
        return _state['envs']
    seen, envs = set(), []
    for name, m in molecules(ctx):
        for n, a in m._atoms.items():
            try:
                k = tuple(enc_matom(a))
            except AttributeError:
                continue
            if k not in seen:
                seen.add(k)
                envs.append((k, a, 'mol'))
    n_mol = len(envs)
    for a in synthetic_atoms(ctx):
        k = tuple(enc_matom(a))
        if k not in seen:
            seen.add(k)
            envs.append((k, a, 'grid'))
    ctx.dist('env:from-molecules', n_mol)
    ctx.dist('env:synthetic-grid', len(envs) - n_mol)
    _state['envs'] = envs
    return envs


def build_queries(ctx):
    """real query atom objects: SMARTS-derived and API-built"""
    from chython import smarts
    from chython.periodictable import AnyElement, AnyMetal, ListElement, QueryElement
    qs = []
    for text, rad in primitive_queries(ctx):
        try:
            q = smarts(cx_text(text, rad))
        except Exception as e:
            disagree(ctx, 'eq/query-construction', f'{text}: {type(e).__name__}: {e}', {'kind': 'accept', 'smarts': cx_text(text, rad)})
            continue
        qs.append((cx_text(text, rad), next(iter(q._atoms.values()))))
    # API built
    rng = ctx.rng
    qs.append(('AnyMetal()', AnyMetal()))
    for nb in (0, 2, 4, 6, (2, 4), (1, 2, 3)):
        qs.append((f'AnyMetal(neighbors={nb})', AnyMetal(neighbors=nb)))
    for hy in (1, 4, (1, 2)):
        qs.append((f'AnyMetal(hybridization={hy})', AnyMetal(hybridization=hy)))
    qs.append(('AnyElement(ring_sizes=0)', AnyElement(ring_sizes=0)))
    qs.append(('AnyElement(ring_sizes=(5,6))', AnyElement(ring_sizes=(6, 5))))
    qs.append(('AnyElement(charge=-4)', AnyElement(charge=-4)))
    qs.append(('AnyElement(is_radical=True)', AnyElement(is_radical=True)))
    qs.append(("ListElement(['C', 7, 'O'])", ListElement(['C', 7, 'O'])))
    qs.append(("ListElement([26, 'Cu'], neighbors=(0, 2))", ListElement([26, 'Cu'], neighbors=(0, 2))))
    for z in (1, 6, 7, 8, 17, 26, 118):
        cls = QueryElement.from_atomic_number(z)
        qs.append((f'{cls.__name__}()', cls()))
        qs.append((f'{cls.__name__}(implicit_hydrogens=(0, 1))', cls(implicit_hydrogens=(0, 1))))
    # QueryContainer API: add_atom(symbol | number | Element), add_bond(int | tuple | Bond)
    from chython import QueryContainer
    from chython.periodictable import Element
    from chython.containers.bonds import Bond
    classes = Element.__subclasses__()
    for cls in (classes if not ctx.quick else rng.sample(classes, 25)):
        qc = QueryContainer('api')
        n1 = qc.add_atom(cls.__name__)
        n2 = qc.add_atom(cls.atomic_number.fget(None))
        n3 = qc.add_atom(cls(charge=1, is_radical=True))
        qc.add_bond(n1, n2, 2)
        qc.add_bond(n2, n3, (1, 2))
        b = Bond(3)
        qc.add_bond(n1, n3, b)
        if [x.order for _, _, x in qc.bonds()] != [(2,), (3,), (1, 2)] and sorted(x.order for _, _, x in qc.bonds()) != [(1, 2), (2,), (3,)]:
            ctx.fail('C08/query-api-bond-orders', f'QueryContainer.add_bond stored {[x.order for _, _, x in qc.bonds()]}', {'kind': 'eq'})
        for n, tag in ((n1, 'symbol'), (n2, 'number'), (n3, 'Element+1 radical')):
            qs.append((f'QueryContainer.add_atom({cls.__name__} as {tag})', qc.atom(n)))
    QC = QueryElement.from_symbol('C')
    for iso in (None, 0, 12, 13, 14):
        qs.append((f'QueryC({iso})', QC(iso)))
    envs = environments(ctx)
    for _ in range(120 if ctx.quick else 1500):
        k, a, _src = rng.choice(envs)
        flags = [rng.random() < 0.5 for _ in range(5)]
        try:
            q = QueryElement.from_atom(a, neighbors=flags[0], hybridization=flags[1], heteroatoms=flags[2], hydrogens=flags[3],
                                       ring_sizes=flags[4])
        except Exception:
            continue
        qs.append((f'from_atom({list(k)}, {flags})', q))
    return qs


def stream_eq(ctx, programs):
    envs = environments(ctx)
    qs = build_queries(ctx)
    programs.update(['QueryElement.__eq__', 'AnyElement.__eq__', 'ListElement.__eq__', 'AnyMetal.__eq__'])
    all_envs = envs
    lines, reals = [], []
    cap = 1200          # environments per request line (the driver is stateless: every line carries its environments)
    for qn, (text, q) in enumerate(qs):
        try:
            qi = enc_qatom(q)
        except Exception as e:
            disagree(ctx, 'eq/encode', f'{text}: {type(e).__name__} {e}', {'kind': 'eq', 'query': text})
            continue
        # the symbol a query atom reports is the head it was written with: `A`, `M`, the element, the comma list
        if text.startswith('[') and text.split()[0].endswith(']'):
            d = doc_parse_atom(text.split()[0][1:-1])
            if d is not None:
                from chython.periodictable import Element
                names = {c.atomic_number.fget(None): c.__name__ for c in Element.__subclasses__()}
                h = d['head']
                want = {'A'} if h == 'any' else {'M'} if h == 'metal' else {names[h[1]]} if h[0] == 'element' else {names[z] for z in h[1]}
                if set(q.atomic_symbol.split(',')) != want:
                    ctx.fail('C08/query-atom-symbol', f'{text}: atomic_symbol {q.atomic_symbol!r}, written head {sorted(want)}', {'kind': 'accept', 'smarts': text})
        if len(all_envs) <= cap:
            envs = all_envs
        else:   # rotate through the environment table so that every environment meets queries of every family
            start = (qn * 997) % len(all_envs)
            envs = (all_envs + all_envs)[start:start + cap]
        env_ints = []
        for k, a, _ in envs:
            env_ints += list(k)
        bits = []
        for k, a, _ in envs:
            try:
                r = q == a
                bits.append('1' if r is True else '0' if r is False else '?')
            except Exception as e:
                bits.append('E')
        lines.append(line('eq', qi + [len(envs)] + env_ints))
        reals.append((text, qi, ''.join(bits), envs))
        # copies denote the same query: copy(full=True) keeps everything, copy() drops only the stereo / masked marks
        try:
            cf, cp = q.copy(full=True), q.copy()
            want = list(qi)
            want[-1] = 0
            if qi[0] != 3:
                want[-2] = -1
            bits_c = ''.join('1' if (cp == a) is True else '0' for k, a, _ in envs[:200])
            import copy as _copy
            if enc_qatom(_copy.copy(q)) != enc_qatom(cp):          # `copy.copy(q)` is documented as `q.copy()`
                ctx.fail('C08/query-copy-differs', f'copy.copy of {text} differs from .copy(): {enc_qatom(_copy.copy(q))} vs {enc_qatom(cp)}',
                         {'kind': 'copy', 'query': text})
            if enc_qatom(cf) != qi or enc_qatom(cp) != want or bits_c != ''.join(bits)[:200]:
                ctx.fail('C08/query-copy-differs', f'copy of {text} is a different query: full {enc_qatom(cf)} plain {enc_qatom(cp)} original {qi}',
                         {'kind': 'copy', 'query': text})
        except Exception as e:
            ctx.fail('C08/query-copy-raises/' + type(e).__name__, f'copy of {text}: {e}', {'kind': 'copy', 'query': text})
    resp = core.run_driver('C08', lines)
    for (text, qi, real, envs), model in zip(reals, resp):
        constrained = any(qi[i] for i in range(len(qi)))
        for j, (k, a, _) in enumerate(envs):
            ctx.count(('eq', tuple(qi), k), nontrivial=constrained)
        hits = real.count('1')
        ctx.dist('eq:query-with-matches' if hits else 'eq:query-without-match')
        if len(ctx.cov['samples']) < 2:
            ctx.sample({'stream': 'eq', 'query': text, 'environments': len(envs), 'matches': hits})
        if real != model:
            j = next((i for i in range(min(len(real), len(model))) if real[i] != model[i]), 0)
            k, a, _ = envs[j] if j < len(envs) else (None, None, None)
            disagree(ctx, 'eq', f'query {text} env {k}: real {real[j:j + 1]!r} model {model[j:j + 1]!r}',
                     {'kind': 'eq', 'query': text, 'qatom': qi, 'matom': list(k) if k else None})
    ctx.dist('eq:queries', len(reals))


def stream_bonds(ctx, programs):
    from chython.containers.bonds import Bond, QueryBond
    programs.update(['QueryBond.__eq__', 'QueryBond.__init__'])
    orders = [1, 2, 3, 4, 8]
    bonds = []
    for o in orders:
        for r in (False, True):
            b = Bond(o)
            b._in_ring = r
            bonds.append((o, r, b))
    lines, reals, keys = [], [], []
    qbs = []
    for k in range(1, 6):
        for sub in itertools.combinations(orders, k):
            for ir in (None, False, True):
                qbs.append(QueryBond(list(sub), ir))
    for q in qbs:
        qi = enc_qbond(q)
        real = ''.join('1' if (q == b) else '0' for _, _, b in bonds)
        lines.append(line('beq', qi + [len(bonds)] + [x for o, r, _ in bonds for x in (o, int(r))]))
        reals.append(real)
        keys.append(('beq', tuple(qi)))
        real = ''.join('1' if (q == o) else '0' for o in range(0, 10))
        lines.append(line('beqi', qi + [10] + list(range(0, 10))))
        reals.append(real)
        keys.append(('beqi', tuple(qi)))
    pairs = list(itertools.product(qbs, qbs))
    if ctx.quick:
        pairs = ctx.rng.sample(pairs, 1500)
    for q, r in pairs:
        lines.append(line('beqq', enc_qbond(q) + enc_qbond(r)))
        reals.append('1' if q == r else '0')
        keys.append(('beqq', tuple(enc_qbond(q)), tuple(enc_qbond(r))))
    # constructor
    cons = [(0, [o]) for o in range(0, 10)]
    for k in range(1, 4):
        cons += [(1, list(t)) for t in itertools.product([0, 1, 2, 3, 4, 5, 8, 9], repeat=k)]
    for mode, os in cons:
        for ir in (None, True, False):
            try:
                q = QueryBond(os[0] if mode == 0 else os, ir)
                real = 'ok ' + ' '.join(map(str, enc_qbond(q)))
            except Exception as e:
                real = 'err ' + type(e).__name__
            lines.append(line('qb', [mode, tri(ir), -1] + L(os)))
            reals.append(real)
            keys.append(('qb', mode, tuple(os), ir))
    # a set of orders is accepted like a list; copies keep the orders (and the marks when full)
    for q in qbs:
        qs_ = QueryBond(set(q.order), q.in_ring)
        cf, cp = q.copy(full=True), q.copy()
        if enc_qbond(qs_) != enc_qbond(q) or enc_qbond(cf) != enc_qbond(q) or cp.order != q.order or cp.in_ring is not None:
            ctx.fail('C08/query-bond-copy-differs', f'QueryBond({q.order}, {q.in_ring}): set/copy give {enc_qbond(qs_)} {enc_qbond(cf)} {enc_qbond(cp)}',
                     {'kind': 'bond', 'line': str(enc_qbond(q))})
        import copy as _copy
        cc = _copy.copy(q)
        if enc_qbond(cc) != enc_qbond(cp):
            ctx.fail('C08/query-bond-copy-differs', f'copy.copy(QueryBond({q.order}, {q.in_ring})) = {enc_qbond(cc)}, .copy() = {enc_qbond(cp)}',
                     {'kind': 'bond', 'line': str(enc_qbond(q))})
        if len(q.order) == 1 and int(q) != q.order[0]:
            ctx.fail('C08/query-bond-int', f'int(QueryBond({q.order}, {q.in_ring})) = {int(q)}', {'kind': 'bond', 'line': str(enc_qbond(q))})
    # equal query bonds hash equally (they are dict / set members in rule tables)
    for q in qbs:
        for r in qbs:
            if (q == r) is True and hash(q) != hash(r):
                ctx.fail('C08/query-bond-hash', f'QueryBond({q.order}, {q.in_ring}) == QueryBond({r.order}, {r.in_ring}) but the hashes differ',
                         {'kind': 'bond', 'line': str(enc_qbond(q))})
    # QueryBond.from_bond with every flag combination on every (order, ring, stereo) bond
    for o, r, b in bonds:
        for st in (None, False, True):
            b._stereo = st
            for fs in (False, True):
                for fr in (False, True):
                    q = QueryBond.from_bond(b, stereo=fs, in_ring=fr)
                    lines.append(line('fb', [o, int(r), tri(st), int(fs), int(fr)]))
                    reals.append('ok ' + ' '.join(map(str, enc_qbond(q))) + ' ' + ('1' if q == b else '0'))
                    keys.append(('fb', o, r, st, fs, fr))
        b._stereo = None
    programs.add('QueryBond.from_bond')
    resp = core.run_driver('C08', lines)
    for key, real, model, ln in zip(keys, reals, resp, lines):
        ctx.count(key, n=max(1, len(real)) if key[0] in ('beq', 'beqi') else 1)
        if real.startswith('err') and model.startswith('err'):
            continue
        if real != model:
            disagree(ctx, 'bond-' + key[0], f'{ln[:200]}: real {real} model {model}', {'kind': 'bond', 'line': ln})
    ctx.dist('bond:cases', len(lines))
    _state['bonds_exhaustive'] = True


def stream_from_atom(ctx, programs):
    from chython.periodictable import QueryElement
    programs.add('QueryElement.from_atom')
    envs = environments(ctx)
    pick = envs if not ctx.quick else ctx.rng.sample(envs, min(len(envs), 150))
    lines, reals, keys = [], [], []
    for k, a, _ in pick:
        for flags in itertools.product([0, 1], repeat=5):
            try:
                q = QueryElement.from_atom(a, neighbors=bool(flags[0]), hybridization=bool(flags[1]), heteroatoms=bool(flags[2]),
                                           hydrogens=bool(flags[3]), ring_sizes=bool(flags[4]))
                real = 'ok ' + ' '.join(map(str, enc_qatom(q)))
                # the query built from an atom must match that atom (reflexivity is part of the correspondence of eq)
                try:
                    if (q == a) is not True:
                        ctx.fail('C08/from-atom-not-reflexive', f'from_atom({list(k)}, {flags}) does not match its own atom',
                                 {'kind': 'from_atom_env', 'matom': list(k), 'flags': list(flags)})
                except Exception as e:
                    ctx.fail('C08/from-atom-eq-raises/' + type(e).__name__, f'from_atom({list(k)}, {flags}) == atom raises {type(e).__name__}: {e}',
                             {'kind': 'from_atom_env', 'matom': list(k), 'flags': list(flags)})
            except Exception as e:
                real = 'err ' + type(e).__name__
            lines.append(line('fa', list(flags) + list(k)))
            reals.append(real)
            keys.append(('fa', k, flags))
    # the `stereo` flag: the atom's mark is copied iff asked for; the mark never takes part in `==`
    for k, a, _ in pick[:60]:
        keep = a._stereo
        try:
            for mark in (None, True, False):
                a._stereo = mark
                for flag in (False, True):
                    q = QueryElement.from_atom(a, stereo=flag)
                    ctx.count(('fa-stereo', k, mark, flag))
                    if q.stereo is not (mark if flag else None) or (q == a) is not True:
                        ctx.fail('C08/from-atom-stereo-flag', f'from_atom({list(k)}, stereo={flag}) on an atom with mark {mark}: query mark {q.stereo}, '
                                 f'== atom is {q == a}', {'kind': 'from_atom_env', 'matom': list(k), 'flags': [0, 0, 0, 0, 0]})
        finally:
            a._stereo = keep
    resp = core.run_driver('C08', lines)
    for key, real, model in zip(keys, reals, resp):
        ctx.count(key)
        if real.startswith('err') and model.startswith('err'):
            continue
        if real != model:
            disagree(ctx, 'from_atom', f'{key}: real {real} model {model}', {'kind': 'from_atom_env', 'matom': list(key[1]), 'flags': list(key[2])})


def real_labels(mol):
    per = []
    for n, a in mol._atoms.items():
        nb = mol._bonds[n]
        rs = sorted(a.ring_sizes)
        if a.in_ring != bool(rs):
            return None, f'atom {n}: in_ring {a.in_ring} but ring_sizes {rs}'
        per.append(' '.join(map(str, [n, a.neighbors, a.heteroatoms, a.hybridization, a.explicit_hydrogens] + L(rs) + [len(nb)]))
                   + ' ' + ' '.join('1' if b.in_ring else '0' for b in nb.values()))
    return ' ; '.join(per), None


def stream_labels(ctx, programs):
    programs.add('MoleculeContainer.calc_labels')
    lines, reals, names = [], [], []
    for name, m in molecules(ctx):
        try:
            m.calc_labels()
            real, bad = real_labels(m)
        except Exception as e:
            ctx.dist('labels:calc_labels-raised-' + type(e).__name__)
            continue
        if bad:
            ctx.fail('C08/labels/in_ring-vs-ring_sizes', bad, {'kind': 'labels', 'mol': wire.mol_to_ints(m)})
            continue
        lines.append(line('lab', mol_rings_ints(m)))
        reals.append(real)
        names.append(name)
    resp = core.run_driver('C08', lines)
    for name, real, model, ln in zip(names, reals, resp, lines):
        natoms = real.count(';') + 1
        ctx.count(('lab', ln), nontrivial=natoms > 1, n=natoms)
        ctx.dist('labels:molecules')
        if ' '.join(real.split()) != ' '.join(model.split()):
            disagree(ctx, 'calc_labels', f'{name}: real {real[:300]} model {model[:300]}', {'kind': 'labels', 'mol': [int(x) for x in ln.split()[1:]]})


class PrivateApiChanged(Exception):
    pass


def real_query_parse(s):
    from chython.files.daylight.tokenize import _query_parse
    try:
        res = _query_parse(s)
    except Exception as e:
        return 'err ' + type(e).__name__
    if not (isinstance(res, tuple) and len(res) == 2 and isinstance(res[1], dict) and 'element' in res[1]):
        raise PrivateApiChanged(f'_query_parse returns {type(res).__name__}')
    t, out = res

    def iol(v):
        if v is None:
            return '-'
        if isinstance(v, int):
            return f'i{v}'
        return 'l' + ','.join(map(str, v))

    el = out.get('element')
    if isinstance(el, list):
        els = 'n:' + ','.join(f'#{x}' if isinstance(x, int) else x for x in el)
    else:
        els = '1:' + (f'#{el}' if isinstance(el, int) else el)
    opt = lambda k: -1 if out.get(k) is None else out[k]
    return (f"ok iso={opt('isotope')} ch={'-' if 'charge' not in out else out['charge']} map={opt('parsed_mapping')} "
            f"st={tri(out.get('stereo'))} el={els} hy={iol(out.get('hybridization'))} rs={iol(out.get('ring_sizes'))} "
            f"nb={iol(out.get('neighbors'))} ih={iol(out.get('implicit_hydrogens'))} he={iol(out.get('heteroatoms'))} "
            f"mk={1 if out.get('masked') else 0}")


def stream_query_parse(ctx, programs):
    """private, secondary stream: if the symbol is gone, fall back to the public stream (recorded, not an alarm)"""
    try:
        from chython.files.daylight.tokenize import _query_parse  # noqa
    except ImportError:
        ctx.notes.append('tokenize._query_parse is gone: private stream skipped, public smarts() stream still runs')
        return
    programs.add('tokenize._query_parse')
    strs = bracket_strings(ctx)
    _state['bracket'] = strs
    lines = [line('qp', cps(s)) for s in strs]
    resp = core.run_driver('C08', lines)
    for s, model in zip(strs, resp):
        try:
            real = real_query_parse(s)
        except PrivateApiChanged as e:
            ctx.notes.append(f'private stream _query_parse abandoned ({e}); the public smarts() streams decide')
            return
        ctx.count(('qp', s))
        ctx.dist('qp:' + (real.split()[1] if real.startswith('err') else 'ok'))
        if real != model:
            # an error-kind-only difference below the public API is recorded, the public stream decides
            if real.startswith('err') and model.startswith('err'):
                ctx.dist('qp:inner-kind-differs')
                _state.setdefault('qp_kind_diffs', []).append((s, real, model))
                continue
            disagree(ctx, '_query_parse', f'{s!r}: real {real} model {model}', {'kind': 'reader', 'smarts': f'[{s}]'})


def stream_smarts(ctx, programs):
    programs.add('chython.smarts')
    cases = [(f'[{s}]', []) for s in _state.get('bracket') or bracket_strings(ctx)]
    cases += [(f'[C]{b}[N]', []) for b in bond_strings(ctx)]
    cases += [(b + '[C]', []) for b in bond_strings(ctx) if 0 < len(b) <= 2]
    cases += [('[C]' + b, []) for b in bond_strings(ctx) if 0 < len(b) <= 3]
    cases += chain_strings(ctx)
    cases += [('[C]', [1]), ('[C][C]', [0, 1]), ('[C][C]', [2]), ('[M]', [0]), ('[A;D2]', [0]), ('[C:1][C:1]', []), ('[C:2][C]', [])]
    cases += [(t, []) for t in MUST_REJECT]
    corrupted = corrupted_atoms(ctx, 2500 if ctx.quick else 25000)
    cases += [(t, []) for t in corrupted]
    for t in MUST_REJECT + corrupted:   # property-level, needs no model: documented-unsupported constructs are rejected with IncorrectSmarts
        out = real_smarts_outcome(t)
        ctx.count(('must-reject', t))
        if out[0] == 'ok':
            ctx.fail('C08/unsupported-construct-accepted', f'smarts({t!r}) is accepted although the documentation excludes it',
                     {'kind': 'must_reject', 'smarts': t})
    lines = [line('sm', L(rad) + cps(s)) for s, rad in cases]
    resp = core.run_driver('C08', lines)
    kind_diff = 0
    for (s, rad), mresp in zip(cases, resp):
        text = cx_text(s, rad)
        real = real_smarts_outcome(text)
        model = model_smarts_outcome(mresp)
        ctx.count(('sm', text))
        ctx.dist('sm:' + (real[0] if real[0] == 'ok' else real[1] + ('<-' + real[2] if real[2] else '')))
        if len(ctx.cov['samples']) < 5 and real[0] == 'ok' and len(s) > 12:
            ctx.sample({'stream': 'smarts', 'text': text, 'atoms': len(real[1][0]), 'bonds': len(real[1][1])})
        if real[0] == 'err' and real[1] != 'IncorrectSmarts':
            ctx.fail(f'C08/reject-kind/{real[1]}', f'smarts({text!r}) raises {real[1]}, not IncorrectSmarts', {'kind': 'reject', 'smarts': text})
        if model[0] == 'other':
            disagree(ctx, 'smarts', f'{text!r}: model says {model[1]}', {'kind': 'reader', 'smarts': text})
        elif real[:2] != model[:2]:
            disagree(ctx, 'smarts', f'{text!r}: real {str(real)[:400]} model {str(model)[:400]}', {'kind': 'reader', 'smarts': text})
        elif real[0] == 'err' and real[2] != model[2] and not (real[2] is None and model[2] == 'IncorrectSmarts'):
            kind_diff += 1   # inner (wrapped) exception class differs: below the public API, informational
            if kind_diff <= 5:
                ctx.notes.append(f'inner error class differs for {text!r}: real {real[2]} model {model[2]}')
    if kind_diff:
        ctx.dist('sm:inner-kind-differs', kind_diff)




FULL_SYMBOLS = ['[C]', '[N]', '[O;D1]', '[C:1]', '[C;M]', '[C@]', 'C', 'N', 'O', 'Cl', 'Br', 'c', 'B', '(', ')', '1', '2', '%12', '%1', '0',
                '-', '=', '#', ':', '~', '-,=', '!-', '!=', ';@', ';!@', '/', '\\', '.', ',', '!', ';', '%', 'l', 'r', 'F', 'I', 'S', 'P', 'n', 's']


def full_syntax_strings(ctx):
    """symbol sequences over bracket atoms, plain atoms, branches, closure numbers and bond tokens (valid and malformed)"""
    rng = ctx.rng
    syms = FULL_SYMBOLS
    out = []
    for n in (1, 2):
        out += [''.join(t) for t in itertools.product(syms, repeat=n)]
    core_syms = ['[C]', '[N]', 'C', 'O', '(', ')', '1', '2', '-', '=', '-,=', '!-', ';@', '/', '\\', '.', '%12']
    if ctx.quick:
        out += [''.join(rng.choice(core_syms) for _ in range(rng.randint(3, 7))) for _ in range(6000)]
        out += [''.join(rng.choice(syms) for _ in range(rng.randint(3, 6))) for _ in range(3000)]
    else:
        out += [''.join(t) for t in itertools.product(core_syms, repeat=3)]
        out += [''.join(t) for t in itertools.product(core_syms[:12], repeat=4)]
        out += [''.join(rng.choice(core_syms) for _ in range(rng.randint(5, 9))) for _ in range(60000)]
        out += [''.join(rng.choice(syms) for _ in range(rng.randint(3, 7))) for _ in range(30000)]
    # structured valid ones: rings and branches with query bonds on the closures
    atoms = ['[C]', '[N]', 'C', 'N', '[C;D2]', '[A]', 'O', 'Cl']
    bonds = ['', '-', '=', '-,=', '!-', '-;@', '=;!@', '/', '\\', '~', ':']
    for _ in range(1500 if ctx.quick else 15000):
        k = rng.randint(3, 7)
        parts, open_ = [], []
        for i in range(k):
            t = (rng.choice(bonds) if i else '') + rng.choice(atoms)
            r = rng.random()
            if r < 0.2 and len(open_) < 2:
                num = rng.choice(['1', '2', '%10'])
                if num not in open_:
                    open_.append(num)
                    t += rng.choice(bonds[:6]) + num if rng.random() < 0.4 else num
            elif r < 0.4 and open_:
                num = open_.pop()
                t += (rng.choice(bonds[:6]) if rng.random() < 0.4 else '') + num
            elif r < 0.55 and i + 1 < k:
                t += '(' + rng.choice(bonds) + rng.choice(atoms) + ')'
            parts.append(t)
        out.append(''.join(parts))
    seen, res = set(), []
    for x in out:
        if x and x not in seen:
            seen.add(x)
            res.append(x)
    return res


def stream_full_syntax(ctx, programs):
    programs.add('chython.smarts (full syntax: plain atoms, branches, ring closures)')
    texts = full_syntax_strings(ctx) + [t for t in _state.get('skeleton_texts', [])]
    lines = [line('sf', [0] + cps(t)) for t in texts]
    resp = core.run_driver('C08', lines)
    kind_diff = 0
    for t, mresp in zip(texts, resp):
        real = real_smarts_outcome(t)
        model = model_smarts_outcome(mresp)
        ctx.count(('sf', t))
        ctx.dist('sf:' + (real[0] if real[0] == 'ok' else real[1] + ('<-' + real[2] if real[2] else '')))
        if real[0] == 'err' and real[1] != 'IncorrectSmarts':
            ctx.fail(f'C08/reject-kind/{real[1]}', f'smarts({t!r}) raises {real[1]}, not IncorrectSmarts', {'kind': 'reject', 'smarts': t})
        if model[0] == 'other' or real[:2] != model[:2]:
            disagree(ctx, 'smarts-full-syntax', f'{t!r}: real {str(real)[:300]} model {str(model)[:300]}', {'kind': 'reader', 'smarts': t})
        elif real[0] == 'err' and real[2] != model[2] and not (real[2] is None and model[2] == 'IncorrectSmarts'):
            kind_diff += 1
    if kind_diff:
        ctx.dist('sf:inner-kind-differs', kind_diff)

def skeleton_case(text):
    """SMARTS text that is also a (Kekule, bracket-free) SMILES: the query graph must have the molecule's atoms and bonds, and the
    query must match the molecule it was written from with the identity mapping. Returns None or a description."""
    from chython import smarts, smiles
    q = smarts(text)
    m = smiles(text)
    if list(q._atoms) != list(m._atoms):
        return f'atom numbers {list(q._atoms)[:8]} vs {list(m._atoms)[:8]}'
    for n, a in m._atoms.items():
        qa = q._atoms[n]
        if getattr(qa, 'atomic_number', None) != a.atomic_number or enc_qatom(qa)[4:] != [0, 0, 0, 0, 0, 0, 0, -1, 0]:
            return f'atom {n}: query {qa!r} for {a.atomic_symbol}'
    qb = {frozenset((n, k)): b.order for n, k, b in q.bonds()}
    mb = {frozenset((n, k)): (b.order,) for n, k, b in m.bonds()}
    if qb != mb:
        d = [(sorted(k), qb.get(k), mb.get(k)) for k in set(qb) | set(mb) if qb.get(k) != mb.get(k)]
        return f'bonds differ: {d[:3]}'
    if any(b.in_ring is not None or b.stereo is not None for _, _, b in q.bonds()):
        return 'unexpected ring / stereo mark on a query bond'
    if len(m) <= 18:
        ident = {n: n for n in m._atoms}
        cnt = 0
        for mp in q.get_mapping(m, automorphism_filter=False, _cython=False):
            cnt += 1
            if mp == ident:
                break
            if cnt > 20000:
                return None
        else:
            return 'the query does not match its own molecule with the identity mapping'
    return None


def stream_skeleton(ctx, programs):
    """full SMARTS syntax (organic-subset atoms, branches, ring closures, `%nn`) — outside the Lean model — validated relationally:
    the same text read as SMILES gives the atoms and bonds the query graph must have."""
    import random as _random
    programs.add('chython.smarts (branches / ring closures, vs chython.smiles)')
    _random.seed(ctx.rng.getrandbits(32))
    texts = []
    for name, m in molecules(ctx):
        if len(m) > 45 or len(m) < 2:
            continue
        try:
            k = m.copy()
            k.kekule()
            cand = [format(k, '!s')] + [format(k, 'r!s') for _ in range(1 if ctx.quick else 3)]
        except Exception:
            continue
        for t in cand:
            if '[' in t or ' ' in t or any(c.islower() and c not in 'lr' for c in t):
                continue
            texts.append(t)
    texts = list(dict.fromkeys(texts))
    if ctx.quick:
        texts = texts[:250]
    _state['skeleton_texts'] = texts
    for t in texts:
        try:
            bad = skeleton_case(t)
        except Exception as e:
            bad = f'{type(e).__name__}: {e}'
        ctx.count(('skeleton', t), nontrivial='(' in t or any(c.isdigit() for c in t))
        ctx.dist('skeleton:' + ('branch+ring' if '(' in t and any(c.isdigit() for c in t) else 'branch' if '(' in t
                                else 'ring' if any(c.isdigit() for c in t) else 'chain'))
        if bad:
            ctx.fail('C08/smarts-skeleton-differs-from-smiles', f'{t}: {bad}', {'kind': 'skeleton', 'smarts': t})

def mapping_patterns(ctx):
    rng = ctx.rng
    one = [t for t, rad in primitive_queries(ctx) if not rad]
    if ctx.quick:
        one = rng.sample(one, min(len(one), 260))
    one += random_element_lists(ctx, 60 if ctx.quick else 600) + [f'[{h}]' for h in HEADS]
    two = []
    btoks = ['', '-', '=', '#', ':', '~', '-,=', '=,#', '-,:', '!-', '!=', '!:', '-;@', '-;!@', '=;@', '=;!@', ':;@', '-,=;@', '!-;!@', '~;!@', '~;@']
    atoms = ['[C]', '[N]', '[O]', '[A]', '[C;D1]', '[C;a]', '[A;!R]', '[A;r6]', '[C,N;z2]', '[O;D1]', '[M]', '[A;x1]', '[C;h3]', '[S]', '[A;r5]', '[Cl,Br,F]',
             '[C;r5]', '[C;r6]', '[A;r5,r6]', '[A;r4]', '[A;r3,r7]', '[C;D3;r6]', '[C;r5;x0]', '[N,O;r5]', '[A;D2,D3]', '[A;x0,x2]', '[A;h0,h1]', '[A;z1,z4]',
             '[C,Pt]', '[Cl,Pt]', '[A+]', '[A-]']
    for b in btoks:
        for _ in range(6 if ctx.quick else 40):
            two.append(rng.choice(atoms) + b + rng.choice(atoms))
    # every constrained atom in both positions (the accelerated matcher tests the first and the following atoms in different places)
    for a in atoms:
        two.append('[A]' + a)
        two.append(a + '[A]')
    return one, sorted(set(two))


def real_mapping(q, mol):
    return list(q.get_mapping(mol, automorphism_filter=False, _cython=False))


def element_soup():
    """one molecule with every element 1..115 as an isolated neutral atom (for element / element-list / any-metal heads)"""
    if 'soup' not in _state:
        from chython import MoleculeContainer
        from chython.periodictable import Element
        m = MoleculeContainer()
        for z in range(1, 116):   # Lv, Ts, Og are outside the accelerated matcher's documented domain
            m.add_atom(Element.from_atomic_number(z)(implicit_hydrogens=0), z, _skip_calculation=True)
        m.calc_labels()
        _state['soup'] = m
    return _state['soup']


def random_element_lists(ctx, k):
    """element lists mixing symbols and #n over the whole table (light / heavy mixes in every order)"""
    from chython.periodictable import Element
    rng = ctx.rng
    syms = {c.atomic_number.fget(None): c.__name__ for c in Element.__subclasses__()}
    out = []
    for _ in range(k):
        zs = rng.sample(range(1, 119), rng.randint(2, 4))
        if rng.random() < 0.7:      # force a light / heavy mix
            zs[0] = rng.randint(1, 56)
            zs[-1] = rng.randint(57, 116)
            rng.shuffle(zs)
        out.append('[' + ','.join(syms[z] if rng.random() < 0.75 else f'#{z}' for z in dict.fromkeys(zs)) + ']')
    return out


def accel_gap(text, mol):
    """documented limits of the accelerated matcher (property C09's known findings): cases they touch are not compared"""
    import re
    if any(a.atomic_number > 116 for a in mol._atoms.values()) or re.search(r'Lv|Ts|Og|#11[6-8]', text):
        return True
    if re.search(r'[;\[,]h\d', text) and any(a.implicit_hydrogens is None for a in mol._atoms.values()):
        return True
    if re.search(r'h([5-9]|1\d)', text) or re.search(r'r(6[6-9]|[7-9]\d|\d{3,})', text):
        return True
    if any(a.neighbors > 14 or a.heteroatoms > 14 or (a.implicit_hydrogens or 0) > 4 for a in mol._atoms.values()):
        return True
    if re.search(r'\[(\d+)[A-Z]', text):     # isotope windows are C09's
        return True
    return False


def stream_mapping(ctx, programs):
    from chython import smarts
    programs.add('QueryContainer.get_mapping')
    one, two = mapping_patterns(ctx)
    mols = [(n, m) for n, m in molecules(ctx) if len(m) <= 60]
    rng = ctx.rng
    lines, reals, metas = [], [], []
    mol_ints = {}
    for text in one + two:
        try:
            q = smarts(text)
        except Exception as e:
            disagree(ctx, 'mapping/query-construction', f'{text}: {type(e).__name__}', {'kind': 'accept', 'smarts': text})
            continue
        qn = list(q._atoms)
        base = 6 if ctx.quick else 25
        cand = rng.sample(mols, min(len(mols), base * 3))
        if len(qn) == 1:
            cand = [('element-soup', element_soup())] + cand
        hits_seen = 0
        for ci, (name, m) in enumerate(cand):
            if ci >= base and hits_seen >= 2:     # after the base sample keep looking only until two molecules matched
                break
            if id(m) not in mol_ints:
                m.calc_labels()
                mol_ints[id(m)] = mol_rings_ints(m)
            try:
                maps = real_mapping(q, m)
            except Exception as e:
                disagree(ctx, 'mapping/raises', f'{text} on {name}: {type(e).__name__}: {e}', {'kind': 'match', 'smarts': text, 'mol': wire.mol_to_ints(m)})
                continue
            hits_seen += bool(maps)
            # the default path of the public observation point (accelerated matcher, here the pyx2py rendering): inside the
            # documented limits of that matcher it has to give the same mappings
            if len(m) <= 130 and _state.setdefault('default_cases', 0) < (20000 if ctx.quick else 60000):
                _state['default_cases'] += 1
                if accel_gap(text, m):
                    ctx.dist('map:default-path-outside-accelerated-domain')
                else:
                    try:
                        cm = list(q.get_mapping(m, automorphism_filter=False))
                        same = sorted(map(sorted, (x.items() for x in cm))) == sorted(map(sorted, (x.items() for x in maps)))
                        why = '' if same else f'{len(cm)} mappings vs {len(maps)} in the reference path'
                    except Exception as e:
                        same, why = False, f'{type(e).__name__}: {e}'
                    ctx.dist('map:default-path-agrees' if same else 'map:default-path-differs')
                    if not same:
                        disagree(ctx, 'get_mapping-default-path', f'{text} on {name}: {why}',
                                 {'kind': 'match', 'smarts': text, 'mol': wire.mol_to_ints(m), 'default': True})
            if len(qn) == 1:
                real = 'ok ' + ' '.join(map(str, sorted(mp[qn[0]] for mp in maps)))
                op = 'm1'
            else:
                real = 'ok ' + ' '.join(sorted(f'{mp[qn[0]]}-{mp[qn[1]]}' for mp in maps))
                op = 'm2'
            lines.append(line(op, L(cps(text)) + mol_ints[id(m)]))
            reals.append(real.strip())
            metas.append((text, name, m))
    resp = core.run_driver('C08', lines)
    for (text, name, m), real, model in zip(metas, reals, resp):
        mm = model.strip()
        if mm.startswith('ok') and ('-' in mm):
            mm = 'ok ' + ' '.join(sorted(mm[3:].split()))
        elif mm.startswith('ok'):
            mm = 'ok ' + ' '.join(map(str, sorted(int(x) for x in mm[3:].split())))
        ctx.count(('map', text, tuple(wire.mol_to_ints(m))), nontrivial=len(m) > 1, n=len(m))
        ctx.dist('map:with-hits' if len(real) > 2 else 'map:no-hit')
        if len(ctx.cov['samples']) < 6 and len(real) > 6:
            ctx.sample({'stream': 'get_mapping', 'smarts': text, 'molecule': name, 'hits': real[3:60]})
        if real.strip() != mm.strip():
            disagree(ctx, 'get_mapping', f'{text} on {name}: real {real[:200]} model {mm[:200]}',
                     {'kind': 'match', 'smarts': text, 'mol': wire.mol_to_ints(m)})



# ------------------------------------------------------------------------------------------------
# whole patterns (branches, ring closures, query bonds on closures) on polycyclic / cage targets
# ------------------------------------------------------------------------------------------------
# The 1- and 2-atom streams above never let the matcher take a ring-closure decision: which candidate atom may close a ring, onto
# which already matched partners, through which bond. Both encodings of the query semantics have their own code for that (the
# `query_closures` comparison of `_get_mapping`, the closure masks / scratch array of the bit-mask matcher), and it is only
# exercised when the target offers candidates with the wrong NUMBER of bonds to matched atoms and candidates with the right number
# but the wrong PARTNERS in one search: compact cages (quadricyclane, basketane, prismanes, propellanes, random chord-rich graphs).

CAGE_SMILES = ['C1C2C3C2C4C1C34', 'C1CC2C3C4C1C5C2C3C45', 'C12C3C1C4C2C34', 'C12C3C4C1C5C2C3C45', 'C12C3C1C23', 'C1C2CC12', 'C1CC2CC12',
               'C1C23CC12C3', 'C1C2CC1C2', 'C1CC12CC2', 'C1CC2CCC1C2', 'C1C2CC3CC1CC(C2)C3', 'C1CC2CC3CCC2CC13', 'C1CC2CCC1CC2',
               'O1C2C3C2C4C1C34', 'N1C2C3C2C4C1C34', 'C1=CC2C3C1C23', 'C1=CC2C=CC12', 'C1C2C=CC1C=C2', 'C1=CC2C=CC1C=C2', 'C1C2C3CC1C23',
               'C1C2C3C1C3C2', 'C1CC2CC3CC1C23', 'C1C2C3CC4C1C4C23', 'C1C2C3C4C1C5C2C5C34', 'C1CC23CC2C13', 'C1C2CC3C1C3C2',
               'C1CC2C3CC1C23', 'C1C2C3C2C13', 'CC1C2C3C2C4C1C34', 'C1C2C3C2C4C1C34.C1CC1', 'C1CC2C1C1CC21', 'O=C1C2C3C2C4C1C34',
               'C1OC2C3C4C1C5C2C3C45', 'C1CC2C3C4C1C5C2C3N45', 'C12C3C4C5C1C6C2C3C4C56', 'C1CCC2CCCCC2C1', 'C1CC2(C1)CC2', 'C1C2C1C2']

RING_PATTERNS = ['C1CC1', 'C1CCC1', 'C1CCCC1', 'C1CCCCC1', 'C1CCCCCC1', 'C1CC2CC12', 'C1CC2CC2C1', 'C1CC2CCC12', 'C1CCC2CC2C1', 'C1C2CC12', 'C-,=1CCC1',
                 'C1CCOC1', 'C1CCNC1', '[C]1[C][C][C][C]1', '[A]1[A][A][A]1', '[A]1[A][A][A][A]1', '[A]1[A][A][A][A][A]1', '[C;D3]1[C;D3][C;D3]1',
                 '[C;D2]1[C;D3][A][A][C;D3]1', 'C-;@1CCC-;@1', 'C1CC-;@1', 'C1CCC-,=;@1', 'C=,#1CCC1', 'C1CC(C)C1', 'CC1CCC1C', 'C1C(C)C1C',
                 'C(C1)CC1', 'C1(CC1)C', '[C;h1]1[C;h1][C;h1]1', '[C;h1,h2]1[C][C][C;h1]1', '[A;x0]1[A][A;D3,D4]1', '[C;z1]1[C;z1][C;z2]=[C]1',
                 'C1CC=C1', 'C=1CCC=1', 'C%10CCC%10', 'C12CC1C2', 'C1CC11CC1', 'C1C2C1C2', 'C1CC2C1C2', '[C,N]1[C][C][C,O]1', 'C1CC1C1CC1',
                 'C1C[C;D3]2[C;D3]C12', '[A]1[A][A]2[A][A]12', 'C!=1CC!=1', 'C1CC!-1', 'C-;!@1CCC1', 'C1CC-;!@1', 'C1CCCC-,=;!@1', 'C-;!@1CC-;!@1', 'C1-;!@CC1', 'C1-;@CCC1', 'C1CCC2C(C1)C2', '[C;r3]1[C;r3][C;r3]1', '[C;r3]1[C][C][C]1']


def prismane_edges(k):
    e = [(i + 1, (i + 1) % k + 1) for i in range(k)] + [(k + i + 1, k + (i + 1) % k + 1) for i in range(k)] + [(i + 1, k + i + 1) for i in range(k)]
    return [tuple(sorted(x)) for x in e]


def random_cage(rng):
    """compact polycyclic skeleton: a small ring, then chords and short bridges between atoms that still have a free valence
    (chord-rich: many atoms have several bonds to any connected set of already matched atoms). Some O / N / double bonds."""
    n_max = rng.randint(5, 11)
    r = rng.randint(3, 6)
    edges = [(i, i % r + 1) for i in range(1, r + 1)]
    deg = {i: 2 for i in range(1, r + 1)}
    have = {frozenset(e) for e in edges}
    nxt = r + 1
    for _ in range(rng.randint(2, 6)):
        free = [v for v in deg if deg[v] < 4]
        if len(free) < 2:
            break
        a, b = rng.sample(free, 2)
        k = rng.choice([0, 0, 1, 1, 2])
        if nxt + k - 1 > n_max:
            k = 0
        if k == 0 and frozenset((a, b)) in have:
            continue
        chain = [a] + list(range(nxt, nxt + k)) + [b]
        nxt += k
        for x, y in zip(chain, chain[1:]):
            edges.append((x, y))
            have.add(frozenset((x, y)))
            deg[x] = deg.get(x, 0) + 1
            deg[y] = deg.get(y, 0) + 1
    elements, orders = {}, {}
    for v, d in deg.items():
        u = rng.random()
        if d <= 2 and u < 0.08:
            elements[v] = 'O'
        elif d <= 3 and u < 0.18:
            elements[v] = 'N'
    used = set()
    for x, y in edges:
        if (rng.random() < 0.08 and deg[x] <= 3 and deg[y] <= 3 and x not in used and y not in used
                and elements.get(x, 'C') == 'C' and elements.get(y, 'C') == 'C'):
            orders[(x, y)] = 2
            used |= {x, y}
    return edges, elements, orders


def cage_molecules(ctx):
    if 'cage_mols' in _state:
        return _state['cage_mols']
    rng = ctx.rng
    out = []
    for s in CAGE_SMILES:
        m = molgen.parse(s)
        if m is not None:
            out.append((s, m))
    for k in (3, 4, 5, 6):
        out.append((f'[{k}]prismane', molgen.from_edges(prismane_edges(k))))
    for i in range(30 if ctx.quick else 200):
        try:
            e, els, ords = random_cage(rng)
            out.append((f'cage{i}', molgen.from_edges(e, els, ords)))
        except Exception:
            continue
    for i in range(6 if ctx.quick else 60):
        try:
            m = molgen.from_edges(molgen.ring_assembly(rng, max_rings=4))
            if len(m) <= 22:
                out.append((f'assembly{i}', m))
        except Exception:
            continue
    for name, m in rng.sample(out, min(len(out), 20 if ctx.quick else 80)):
        try:
            r, _ = molgen.renumber(rng, m)
            out.append((name + '/renum', r))
        except Exception:
            continue
    for _, m in out:
        m.calc_labels()
    _state['cage_mols'] = out
    return out


ORGANIC = ('Cl', 'Br', 'B', 'C', 'N', 'O', 'P', 'S', 'F', 'I')


def doc_parse_pattern(text):
    """Documented reading of a one-component pattern: bracket atoms (doc_parse_atom) or plain organic-subset symbols (= that element,
    neutral, no other constraint), documented bond tokens (none = single bond), branches, ring-closure digits / %nn with the bond
    token before either digit (one specification suffices, two must be identical). Returns (atoms, bonds) with
    bonds = {(i, j): (order set, ring mark)}, i < j positions in writing order; None = outside this subset."""
    import re
    toks = {t + r for t in BOND_DOC if t for r in ('', ';@', ';!@')}
    atoms, bonds, stack, opened = [], {}, [], {}
    prev, pend, i = None, None, 0

    def spec(t):
        if t is None:
            return (frozenset({1}), None)
        base, _, rm = t.partition(';')
        return (frozenset(BOND_DOC[base]), {'': None, '@': True, '!@': False}[rm])

    def join(a, b, sp):
        k = (min(a, b), max(a, b))
        if a == b or k in bonds:
            return False
        bonds[k] = sp
        return True

    while i < len(text):
        c = text[i]
        if c == '[':
            j = text.find(']', i)
            if j < 0:
                return None
            d = doc_parse_atom(text[i + 1:j])
            if d is None or d['stereo'] is not None or d['mapping'] is not None or d['masked']:
                return None
            i = j + 1
        elif c.isalpha():
            sym = next((s for s in ORGANIC if text.startswith(s, i)), None)
            if sym is None:
                return None
            d = doc_parse_atom(sym)
            i += len(sym)
        elif c == '(':
            if prev is None or pend is not None:
                return None
            stack.append(prev)
            i += 1
            continue
        elif c == ')':
            if not stack or pend is not None:
                return None
            prev = stack.pop()
            i += 1
            continue
        elif c.isdigit() or c == '%':
            if c == '%':
                mt = re.match(r'%(\d\d)', text[i:])
                if not mt:
                    return None
                num, i = int(mt.group(1)), i + 3
            else:
                num, i = int(c), i + 1
            if prev is None:
                return None
            if num in opened:
                a, t0 = opened.pop(num)
                if t0 is not None and pend is not None and t0 != pend:
                    return None
                if not join(a, prev, spec(pend if pend is not None else t0)):
                    return None
            else:
                opened[num] = (prev, pend)
            pend = None
            continue
        else:
            mt = max((t for t in toks if text.startswith(t, i)), key=len, default=None)
            if mt is None or pend is not None or prev is None:
                return None
            pend = mt
            i += len(mt)
            continue
        atoms.append(d)
        if prev is not None:
            if not join(prev, len(atoms) - 1, spec(pend)):
                return None
        elif pend is not None:
            return None
        pend = None
        prev = len(atoms) - 1
    if opened or stack or pend is not None or not atoms:
        return None
    return atoms, bonds


def _mol_view(mol):
    """attributes / bonds / which bonds lie on a cycle, computed independently of the library's labels (cached per molecule)"""
    key = ('view', id(mol))
    if key in _state:
        return _state[key][1]
    attrs = {n: oracle_attrs(mol, n) for n in mol._atoms}
    mb = {(n, m): b.order for n, ms in mol._bonds.items() for m, b in ms.items()}
    adj = {k: [m for m, bb in v.items() if bb.order != 8] for k, v in mol._bonds.items()}
    ring = {}
    for (n, m), o in mb.items():
        if o == 8 or (m, n) in ring:
            ring[(n, m)] = ring.get((m, n))
            continue
        seen, st, conn = {n}, [n], False
        while st and not conn:
            z = st.pop()
            for w in adj[z]:
                if (z, w) in ((n, m), (m, n)):
                    continue
                if w == m:
                    conn = True
                    break
                if w not in seen:
                    seen.add(w)
                    st.append(w)
        ring[(n, m)] = conn
    v = (attrs, mb, ring)
    _state[key] = (mol, v)       # keeps the molecule alive so that id() stays unique
    return v


def doc_embeddings(pat, mol):
    """all embeddings the documentation promises: injective; every pattern atom's documented meaning holds on its image; every pattern
    bond lies on a molecule bond of a listed order whose ring state (on a cycle or not) agrees with the ring mark; atoms the pattern
    does not join are not bonded in the molecule (the search is for induced subgraphs — property C07). Set of tuples (image of the
    i-th written atom), or None when some atom / bond test is undetermined (ring sizes that depend on the choice of the SSSR)."""
    atoms, bonds = pat
    attrs, mb, ring = _mol_view(mol)
    tn = list(mol._atoms)
    am = []
    for d in atoms:
        row = {n: oracle_match(d, attrs[n]) for n in tn}
        if any(v is None for v in row.values()):
            return None
        am.append(row)
    earlier = [[j for j in range(i) if (j, i) in bonds] for i in range(len(atoms))]
    found = set()
    undet = []

    def grow(i, img):
        if i == len(atoms):
            found.add(tuple(img))
            return
        cand = tn if not earlier[i] else [m for m in mol._bonds[img[earlier[i][0]]]]
        for n in cand:
            if n in img or not am[i][n]:
                continue
            ok = True
            for j in range(i):
                o = mb.get((img[j], n))
                sp = bonds.get((j, i))
                if sp is None:
                    if o is not None:
                        ok = False
                        break
                    continue
                if o is None or o not in sp[0]:
                    ok = False
                    break
                if sp[1] is not None:
                    if o == 8:
                        undet.append(1)
                        ok = False
                        break
                    if ring[(img[j], n)] != sp[1]:
                        ok = False
                        break
            if ok:
                img.append(n)
                grow(i + 1, img)
                img.pop()
    grow(0, [])
    return None if undet else found


def check_embed(text, mol, default=False):
    """property oracle for a whole one-component pattern of documented atoms / bond tokens / branches / ring closures.
    None = agrees (or outside the documented subset / undetermined), else a description."""
    from collections import Counter
    from chython import smarts
    body = text.split()[0]
    if ' ' in text.strip():
        return None
    pat = doc_parse_pattern(body)
    if pat is None or (default and accel_gap(body, mol)):
        return None
    atoms, bonds = pat
    path = 'default' if default else 'reference'
    try:
        q = smarts(body)
    except Exception as e:
        return f'{body}: documented pattern rejected: {type(e).__name__}: {e}'
    nums = list(q._atoms)
    if len(nums) != len(atoms):
        return f'{body}: {len(atoms)} atoms written, {len(nums)} read'
    read = {(min(nums.index(n), nums.index(m)), max(nums.index(n), nums.index(m))): (frozenset(b.order), b.in_ring) for n, m, b in q.bonds()}
    if read != bonds:
        k = next(iter(set(read.items()) ^ set(bonds.items())))
        return f'{body}: bond between written atoms {k[0][0] + 1} and {k[0][1] + 1} read as {read.get(k[0])}, documented {bonds.get(k[0])}'
    exp = doc_embeddings(pat, mol)
    if exp is None:
        return None
    got = Counter(tuple(mp[k] for k in nums) for mp in _mapping(q, mol, default))
    dup = [k for k, c in got.items() if c > 1]
    if dup:
        return f'{body} ({path} path): mapping {dup[0]} returned {got[dup[0]]} times'
    extra, missing = set(got) - exp, exp - set(got)
    if extra:
        x = sorted(extra)[0]
        attrs, mb, ring = _mol_view(mol)
        why = (next((f'written atom {i + 1} does not have its documented meaning on molecule atom {x[i]}'
                     for i, d in enumerate(atoms) if not oracle_match(d, attrs[x[i]])), None)
               or next((f'pattern bond between written atoms {i + 1} and {j + 1} lies on molecule atoms {x[i]}, {x[j]} which are not bonded'
                        for (i, j) in bonds if (x[i], x[j]) not in mb), None)
               or next((f'pattern bond between written atoms {i + 1} and {j + 1} (orders {sorted(sp[0])}, ring mark {sp[1]}) lies on the molecule '
                        f'bond {x[i]}-{x[j]} of order {mb[(x[i], x[j])]}, {"on" if ring[(x[i], x[j])] else "not on"} a cycle'
                        for (i, j), sp in bonds.items() if mb[(x[i], x[j])] not in sp[0] or (sp[1] is not None and ring[(x[i], x[j])] != sp[1])), None)
               or next((f'written atoms {i + 1} and {j + 1} are not joined in the pattern but their images {x[i]}, {x[j]} are bonded'
                        for i in range(len(x)) for j in range(i + 1, len(x)) if (i, j) not in bonds and (x[i], x[j]) in mb), None)
               or 'not an embedding by the documented meaning')
        return f'{body} ({path} path): returns {x} ({len(extra)} such): {why}'
    if missing:
        return f'{body} ({path} path): {len(missing)} documented embeddings are not returned, e.g. {sorted(missing)[0]}'
    return None


def cut_pattern_text(rng, mol, size, drop=False):
    """a connected piece of `mol` (grown towards atoms with several bonds into the piece, so it carries cycles) written as a SMARTS
    text in a random depth-first order: ring-closure digits, branches, atoms and bonds spelled with documented primitives that are
    mostly true for the source atoms (some deliberately off by one); drop=True omits one cycle bond (non-induced in its source)."""
    attrs, mb, ring = _mol_view(mol)
    start = rng.choice(list(mol._atoms))
    piece = [start]
    while len(piece) < size:
        front = {}
        for n in piece:
            for m in mol._bonds[n]:
                if m not in piece:
                    front[m] = front.get(m, 0) + 1
        if not front:
            break
        ws = list(front)
        piece.append(rng.choices(ws, [front[w] ** 2 for w in ws])[0])
    pb = {frozenset((n, m)) for n in piece for m in mol._bonds[n] if m in piece}
    if drop:
        cyc = [e for e in pb if ring[tuple(e)]]
        if cyc:
            e = rng.choice(sorted(cyc, key=sorted))
            rest = pb - {e}
            a = next(iter(e))
            seen, st = {a}, [a]
            while st:
                x = st.pop()
                for f in rest:
                    if x in f:
                        y = next(iter(f - {x}))
                        if y not in seen:
                            seen.add(y)
                            st.append(y)
            if len(seen) == len(piece):
                pb = rest
    adj = {n: [m for m in piece if frozenset((n, m)) in pb] for n in piece}

    def atom_text(n):
        a, at = mol._atoms[n], attrs[n]
        sym = a.atomic_symbol
        off = (lambda v, lo, hi: min(hi, max(lo, v + rng.choice([-1, 1])))) if rng.random() < 0.15 else (lambda v, lo, hi: v)
        chg = '' if not a.charge else ('+' if a.charge > 0 else '-') + (str(abs(a.charge)) if abs(a.charge) > 1 else '')
        u = rng.random()
        if u < 0.3 and sym in ORGANIC and not a.charge and not a.is_radical:
            return sym
        if a.is_radical:
            return '[A]'          # radical marks need the CX block: not spelled here, this atom cannot match its source
        if u < 0.45:
            return f'[{sym}{chg}]'
        if u < 0.55 and not a.charge:
            return '[A]'
        head = rng.choice([sym, sym, 'A', ','.join(dict.fromkeys(rng.sample(['C', 'N', 'O'], 2) + [sym]))]) + chg
        prims = []
        for p in rng.sample('DhxzrR', rng.choice([1, 1, 2])):
            if p == 'D':
                v = off(at['neighbors'], 0, 14)
                prims.append(f'D{v}' if rng.random() < 0.6 else f'D{v},D{min(14, v + 1)}' if v < 14 else f'D{v}')
            elif p == 'h' and at['hydrogens'] is not None and at['hydrogens'] <= 4:
                prims.append(f'h{off(at["hydrogens"], 0, 4)}')
            elif p == 'x':
                prims.append(f'x{off(at["hetero"], 0, 14)}')
            elif p == 'z':
                v = off(at['hyb'], 1, 4)
                prims.append(f'z{v}' if rng.random() < 0.6 else ','.join(f'z{w}' for w in sorted({v, rng.randint(1, 4)})))
            elif p == 'r' and at['on_cycle'] and at['cycle_sizes']:
                prims.append(f'r{min(at["cycle_sizes"])}' if rng.random() < 0.8 else f'r{max(at["cycle_sizes"]) + 1}')
            elif p == 'R' and not at['on_cycle']:
                prims.append('!R')
        return '[' + ';'.join([head] + prims) + ']'

    def bond_text(n, m, closure=False):
        o = mb[(n, m)]
        true = {1: ['', '', '-', '-,=', '-,:', '!=', '!#', '!:'], 2: ['=', '=', '-,=', '=,#', '!-', '!#'], 3: ['#', '=,#', '!-', '!='],
                4: [':', '-,:', '!-', '!='], 8: ['~']}[o]
        t = rng.choice(true) if rng.random() < 0.9 else rng.choice(['-', '=', '-,=', '!-', ':'])
        if closure and not t and rng.random() < 0.5:
            t = '-'
        if t and o != 8 and rng.random() < (0.5 if closure else 0.3):
            r = ring[(n, m)]
            if rng.random() < (0.3 if closure else 0.12):       # a closure bond always lies on a cycle: `;!@` there can never match
                r = not r
            t += ';@' if r else ';!@'
        return t

    seen, counter = [], [0]
    closing = {n: [] for n in piece}          # n -> [(digit text, bond text or '')] written after the atom
    children = {n: [] for n in piece}
    done = set()

    def visit(n, parent):
        seen.append(n)
        nb = list(adj[n])
        rng.shuffle(nb)
        for m in nb:
            e = frozenset((n, m))
            if m == parent or e in done:
                continue
            if m in seen:               # m is an ancestor, written earlier: it opens the digit, n closes it
                done.add(e)
                counter[0] += 1
                dg = str(counter[0]) if counter[0] < 10 else f'%{counter[0]}'
                bt = bond_text(n, m, closure=True)
                side = rng.choice(['open', 'close', 'both']) if bt else 'open'
                closing[m].append((dg, bt if side in ('open', 'both') else ''))
                closing[n].append((dg, bt if side in ('close', 'both') else ''))
            else:
                done.add(e)
                children[n].append(m)
                visit(m, n)

    visit(start, None)

    def write(n):
        s = atom_text(n) + ''.join(bt + dg for dg, bt in closing[n])
        ch = children[n]
        for c in ch[:-1]:
            s += '(' + bond_text(n, c) + write(c) + ')'
        if ch:
            s += bond_text(n, ch[-1]) + write(ch[-1])
        return s
    return write(start)


def embed_cases(ctx):
    """(pattern text, target name, target): the ring / closure patterns x every cage, and patterns cut from the cages"""
    if 'embed_cases' in _state:
        return _state['embed_cases']
    rng = ctx.rng
    cages = cage_molecules(ctx)
    out = []
    for t in RING_PATTERNS:
        for name, m in (cages if not ctx.quick else cages[:len(CAGE_SMILES) + 4] + rng.sample(cages, 12)):
            out.append((t, name, m))
    for name, m in cages:
        for k in range(4 if ctx.quick else 8):
            try:
                t = cut_pattern_text(rng, m, rng.randint(3, min(8, len(m))), drop=(k % 3 == 2))
            except Exception as e:           # a generator problem must be visible, not silently thin the stream
                ctx.notes.append(f'cut_pattern_text raised {type(e).__name__}: {e}')
                continue
            tname, tm = (name, m) if k % 4 else rng.choice(cages)
            out.append((t, tname, tm))
    # ordinary molecules (corpus, handmade, decorated graphs: aromatic bonds, charges, heteroatoms, multiple bonds, several
    # components): patterns cut from them, searched in their source and in another molecule
    pool = [(n, m) for n, m in molecules(ctx) if 4 <= len(m) <= 40 and not any(b.order == 8 for _, _, b in m.bonds())]
    for name, m in rng.sample(pool, min(len(pool), 90 if ctx.quick else 500)):
        for k in range(2):
            try:
                t = cut_pattern_text(rng, m, rng.randint(3, min(9, len(m))), drop=(k == 1 and rng.random() < 0.5))
            except Exception as e:
                ctx.notes.append(f'cut_pattern_text raised {type(e).__name__}: {e}')
                continue
            tname, tm = (name, m) if k == 0 else rng.choice(pool)
            out.append((t, tname, tm))
    _state['embed_cases'] = out
    return out


def stream_embed(ctx, programs):
    """whole patterns: real reference path vs the Lean model (`mn`: smarts() model -> C07's matcher model over C08's comparison
    models), and the public default path (accelerated matcher) vs the reference path"""
    from chython import smarts
    programs.add('QueryContainer.get_mapping (ring / branch patterns)')
    lines, reals, metas = [], [], []
    mol_ints = {}
    for text, name, m in embed_cases(ctx):
        try:
            q = smarts(text)
        except Exception as e:
            if doc_parse_pattern(text) is not None:
                disagree(ctx, 'pattern/query-construction', f'{text}: {type(e).__name__}: {e}', {'kind': 'embed', 'smarts': text, 'mol': wire.mol_to_ints(m)})
            else:
                ctx.dist('embed:text-rejected')
            continue
        nums = list(q._atoms)
        if id(m) not in mol_ints:
            mol_ints[id(m)] = (mol_rings_ints(m), L([len(c) for c in m.connected_components]) + [x for c in m.connected_components for x in c])
        case = {'kind': 'embed', 'smarts': text, 'mol': wire.mol_to_ints(m)}
        try:
            ref = sorted(tuple(mp[k] for k in nums) for mp in q.get_mapping(m, automorphism_filter=False, _cython=False))
        except Exception as e:
            disagree(ctx, 'pattern/raises', f'{text} on {name}: {type(e).__name__}: {e}', case)
            continue
        if accel_gap(text, m):
            ctx.dist('embed:default-path-outside-accelerated-domain')
        else:
            try:
                cm = sorted(tuple(mp[k] for k in nums) for mp in q.get_mapping(m, automorphism_filter=False))
                why = '' if cm == ref else (f'{len(cm)} mappings vs {len(ref)} in the reference path; only default: '
                                            f'{sorted(set(cm) - set(ref))[:2]} only reference: {sorted(set(ref) - set(cm))[:2]}')
            except Exception as e:
                cm, why = None, f'{type(e).__name__}: {e}'
            ctx.dist('embed:default-path-agrees' if cm == ref else 'embed:default-path-differs')
            if cm != ref:
                disagree(ctx, 'get_mapping-default-path', f'{text} on {name}: {why}', dict(case, default=True))
        ctx.dist('embed:with-hits' if ref else 'embed:no-hit')
        ctx.dist('embed:closures=%d' % min(3, len(list(q.bonds())) - len(nums) + 1))
        mi, comps = mol_ints[id(m)]
        lines.append(line('mn', L(cps(text)) + mi + comps))
        reals.append(ref)
        metas.append((text, name, m))
    resp = core.run_driver('C08', lines)
    for (text, name, m), ref, model in zip(metas, reals, resp):
        mm = model.strip()
        ctx.count(('embed', text, tuple(wire.mol_to_ints(m))), nontrivial=bool(ref), n=max(1, len(ref)))
        if mm == 'stereo':
            ctx.dist('embed:stereo-pattern-skipped')
            continue
        if mm.startswith('ok'):
            got = sorted(tuple(int(x) for x in part.split()) for part in mm[2:].split(';') if part.strip())
        else:
            got = mm
        if len(ctx.cov['samples']) < 8 and len(ref) > 1:
            ctx.sample({'stream': 'get_mapping-pattern', 'smarts': text, 'molecule': name, 'mappings': len(ref)})
        if got != ref:
            disagree(ctx, 'get_mapping-pattern', f'{text} on {name}: real {str(ref)[:200]} model {str(got)[:200]}',
                     {'kind': 'embed', 'smarts': text, 'mol': wire.mol_to_ints(m)})


def embed_search(ctx, t_end, seeds):
    """property oracle over whole patterns: first the disagreeing cases, then the cage cases, both paths"""
    import time
    todo = [(c['smarts'], 'case', wire.ints_to_mol(c['mol'], calc=True)[0], [True] if c.get('default') else [False, True])
            for c in seeds if c.get('kind') == 'embed']
    todo += [(t, n, m, [False, True]) for t, n, m in embed_cases(ctx)]
    for text, name, m, paths in todo:
        if time.time() > t_end or any(f.signature.startswith('C08/pattern-') for f in ctx.failures):
            return
        for default in paths:
            try:
                bad = check_embed(text, m, default)
            except Exception as e:
                bad = f'{text} on {name}: {type(e).__name__}: {e}'
            if bad:
                ctx.fail('C08/pattern-match-differs-from-documented-meaning' + ('/default-path' if default else ''), f'on {name}: {bad}',
                         {'kind': 'embed', 'smarts': text, 'mol': wire.mol_to_ints(m), 'default': default})
                break


# ------------------------------------------------------------------------------------------------
# the whole input string of smarts(): white-space split and the CXSMARTS radical block
# ------------------------------------------------------------------------------------------------

CX_BASES = ['[C]', '[C][O]', '[C;D2][N,O;h1]', '[C][N][O]', '[C][C][C][C;D1][O]', 'CC(C)C', 'C1CC1', '[A][M]', '[C:5][C:2]', '[O;D1;x0;z2]=[C]', 'C', '[C;M][C]', '[C+]-[O-]', '[13C]',
            '[C&D2]', '[C', '(', 'C1CC', '']
CX_BLOCKS = ['|^1:0|', '|^1:1|', '|^1:0,1|', '|^2:0|', '|^7:1|', '|^3:0,^1:1|', '|^1:0,^1:0|', '|^1:2|', '|^1:3|', '|^1:99|', '|^1:00|', '|^1:01|',
             '|^8:0|', '|^0:0|', '|^1:|', '|^1:0,|', '|^1:0,,1|', '|^1:,0|', '|^1:a|', '|^11:0|', '|^:0|', '|^1;0|', '|^1:0', '^1:0|', '^1:0', '|', '||',
             '|^1:0|x', 'x|^1:0|', '|f:0.1,^1:0|', '|^1:0,f:0.1|', '|$_AV:;$,^1:1|', '|^1:0^1:1|', '|^1:0 ^1:1|', '|^1:99999999999999999999|',
             '|^1:0,1,2,3|', '|^1:1,0|', '|^^1:0|', '|^1:^1:0|', '|^1:0|^1:1|', '|c:0,^1:1,r|', '|^1:-1|', '|^1:+1|', '|^1:1_0|', '|^1:1.0|']
CX_SEPS = [' ', '  ', '\t', '\n', ' \t ', '\x0b', '\x0c', '\r', '\x1c', '\x1f', '\xa0', '\u2003', '\u3000', '\x85']


def cx_strings(ctx):
    rng = ctx.rng
    out = ['', ' ', '\n', ' \t', '[C] ', ' [C]', '\n[C]\n', '[C] |^1:0| |^1:1|', '[C][C] |^1:0| |^1:1|', '[C] x |^1:0|', '[C] [C]', '[C]\x00|^1:0|',
           '[C]|^1:0|', '[C] | ^1:0|', '[C][C] |^1:0 |', '|^1:0| [C]']
    for b in CX_BASES:
        for c in CX_BLOCKS:
            out.append(b + ' ' + c)
    for _ in range(300 if ctx.quick else 3000):
        b = rng.choice(CX_BASES[:14])
        u = rng.random()
        if u < 0.6:      # documented blocks: one or more `^k:i,j,...` groups, maybe other CX fields around
            groups = ['^%d:%s' % (rng.randint(1, 7), ','.join(str(rng.randint(0, 4)) for _ in range(rng.randint(1, 3)))) for _ in range(rng.randint(1, 3))]
            if rng.random() < 0.3:
                groups.insert(rng.randrange(len(groups) + 1), rng.choice(['f:0.1', 'c:0', '$;$', 'r', 'm:1:0.1']))
            c = '|' + ','.join(groups) + '|'
        else:            # single-edit corruption of a documented block
            c = list(rng.choice(CX_BLOCKS[:12]))
            i = rng.randrange(len(c) + 1)
            r = rng.random()
            if r < 0.4 and c:
                del c[min(i, len(c) - 1)]
            elif r < 0.8:
                c.insert(i, rng.choice('^|:,0189 a'))
            else:
                c[min(i, len(c) - 1)] = rng.choice('^|:,0189')
            c = ''.join(c)
        out.append(rng.choice(['', '', ' ']) + b + rng.choice(CX_SEPS) + c + rng.choice(['', '', ' ', '\n', ' x']))
    return list(dict.fromkeys(out))


def check_cx(text):
    """documented: `pattern |^k:i,j,...|` marks exactly the atoms i, j, ... (0-based, in writing order) as radicals. Decided only for a
    chain of documented non-metal bracket atoms without maps followed by one space and a block of well-formed radical groups with indices
    in range. None = fine or undecided, else a description."""
    import re
    from chython import smarts
    mt = re.fullmatch(r'((?:\[[^\]\[]*\])+) \|(\^[1-7]:\d+(?:,\d+)*(?:,\^[1-7]:\d+(?:,\d+)*)*)\|', text)
    if not mt:
        return None
    atoms = re.findall(r'\[([^\]]*)\]', mt.group(1))
    docs = [doc_parse_atom(a) for a in atoms]
    if any(d is None or d['head'] == 'metal' or d['mapping'] is not None or d['masked'] for d in docs):
        return None
    want = {int(x) for g in mt.group(2).split('^')[1:] for x in g.split(':')[1].strip(',').split(',')}
    if any(i >= len(atoms) for i in want):
        out = real_smarts_outcome(text)
        return None if out[0] == 'err' and out[1] == 'IncorrectSmarts' else f'{text!r}: radical index outside the pattern, outcome {out[:2]}'
    try:
        q = smarts(text)
    except Exception as e:
        return f'{text!r}: documented CX radical block rejected: {type(e).__name__}: {e}'
    got = {i for i, a in enumerate(q._atoms.values()) if a.is_radical}
    if len(q._atoms) != len(atoms) or got != want:
        return f'{text!r}: radical atoms {sorted(got)}, the block names {sorted(want)}'
    return None


def stream_text(ctx, programs):
    programs.add('chython.smarts (input string: split, CX radical block)')
    texts = cx_strings(ctx)
    resp = core.run_driver('C08', [line('st', cps(t)) for t in texts])
    for t, mresp in zip(texts, resp):
        real = real_smarts_outcome(t)
        model = model_smarts_outcome(mresp)
        ctx.count(('st', t), nontrivial=bool(t.strip()))
        ctx.dist('st:' + (real[0] if real[0] == 'ok' else real[1]))
        if real[0] == 'err' and real[1] != 'IncorrectSmarts':
            ctx.fail(f'C08/reject-kind/{real[1]}', f'smarts({t!r}) raises {real[1]}, not IncorrectSmarts', {'kind': 'reject', 'smarts': t})
        if model[0] == 'other' or real[:2] != model[:2]:
            disagree(ctx, 'smarts-input-string', f'{t!r}: real {str(real)[:300]} model {str(model)[:300]}', {'kind': 'cx', 'smarts': t})


# ------------------------------------------------------------------------------------------------
# query atoms built through the API (constructors and setters) from raw scalar / list / tuple arguments
# ------------------------------------------------------------------------------------------------

API_ATTRS = ['neighbors', 'hybridization', 'ring_sizes', 'implicit_hydrogens', 'heteroatoms']
API_WHICH = {'neighbors': 0, 'heteroatoms': 0, 'implicit_hydrogens': 0, 'hybridization': 1, 'ring_sizes': 2}
API_CLASSES = ['QueryC', 'AnyElement', 'ListElement', 'AnyMetal']


def raw_ints(v):
    if v is None:
        return [0]
    if isinstance(v, int):
        return [1, v]
    return [2, len(v)] + list(v)


def api_make(spec):
    """build the real query atom described by spec = {cls, via, args{name: value}, charge?, radical?, isotope?}"""
    from chython.periodictable import AnyElement, AnyMetal, ListElement, QueryElement
    cls = spec['cls']
    args = {k: (tuple(v) if spec.get('tuple') and isinstance(v, list) else v) for k, v in spec['args'].items()}
    extra = {}
    if cls != 'AnyMetal':
        if 'charge' in spec:
            extra['charge'] = spec['charge']
        if spec.get('radical'):
            extra['is_radical'] = True
    if spec['via'] == 'ctor':
        kw = dict(args, **extra)
        if cls == 'QueryC':
            return QueryElement.from_symbol('C')(spec.get('isotope'), **kw)
        if cls == 'AnyElement':
            return AnyElement(**kw)
        if cls == 'ListElement':
            return ListElement(['C', 'N'], **kw)
        return AnyMetal(**kw)
    q = (QueryElement.from_symbol('C')(spec.get('isotope')) if cls == 'QueryC' else AnyElement() if cls == 'AnyElement'
         else ListElement(['C', 'N']) if cls == 'ListElement' else AnyMetal())
    for k, v in dict(args, **extra).items():
        setattr(q, k, v)
    return q


def api_line(spec, env_ints, k):
    cls = spec['cls']
    head = {'QueryC': [0, 6, -1 if spec.get('isotope') is None else spec['isotope'], 0], 'AnyElement': [1, 0, -1, 0],
            'ListElement': [2, 0, -1, 2, 6, 7], 'AnyMetal': [3, 0, -1, 0]}[cls]
    a = spec['args']
    return line('eqa', head + [spec.get('charge', 0), int(bool(spec.get('radical'))), -1, 0]
                + raw_ints(a.get('neighbors')) + raw_ints(a.get('hybridization')) + raw_ints(a.get('ring_sizes'))
                + raw_ints(a.get('implicit_hydrogens')) + raw_ints(a.get('heteroatoms')) + [k] + env_ints)


def api_specs(ctx):
    rng = ctx.rng
    vals = {
        'neighbors': [None] + list(range(-1, 16)) + [[0], [14], [0, 14], [2, 1], [1, 1], [1, 2, 3], [15], [0, 1], [3]],
        'heteroatoms': [None] + list(range(-1, 16)) + [[0], [14], [0, 2], [2, 0], [3, 3], [15]],
        'implicit_hydrogens': [None] + list(range(-1, 16)) + [[0], [0, 1], [4], [1, 0], [2, 2], [15]],
        'hybridization': [None] + list(range(-1, 6)) + [[1], [4], [1, 4], [4, 1], [2, 2], [0], [5], [1, 2, 3, 4]],
        'ring_sizes': [None] + list(range(-1, 9)) + [40, [3], [5, 6], [6, 5], [0], [0, 5], [2], [5, 5], [3, 4, 5, 6, 7], [12]],
    }
    specs = []
    for cls in API_CLASSES:
        names = ['neighbors', 'hybridization'] if cls == 'AnyMetal' else API_ATTRS
        for name in names:
            for v in vals[name]:
                for via in ('ctor', 'setter'):
                    specs.append({'cls': cls, 'via': via, 'args': {name: v}})
                    if isinstance(v, list):
                        specs.append({'cls': cls, 'via': via, 'args': {name: v}, 'tuple': True})
        if cls != 'AnyMetal':
            for c in range(-6, 7):
                for via in ('ctor', 'setter'):
                    specs.append({'cls': cls, 'via': via, 'args': {}, 'charge': c})
            specs.append({'cls': cls, 'via': 'ctor', 'args': {}, 'radical': True})
            specs.append({'cls': cls, 'via': 'setter', 'args': {'neighbors': 0}, 'radical': True, 'charge': -1})
    for iso in (None, 0, 12, 13):
        specs.append({'cls': 'QueryC', 'via': 'ctor', 'args': {'neighbors': 0}, 'isotope': iso})
    # pairs / triples of attributes with boundary values
    ok_vals = {'neighbors': [0, 1, 2, 3, 4, 14, [0, 1], [2, 3]], 'heteroatoms': [0, 1, 2, [0, 1]], 'implicit_hydrogens': [0, 1, 2, 3, 4, [0, 1]],
               'hybridization': [1, 2, 3, 4, [1, 2]], 'ring_sizes': [0, 3, 5, 6, [5, 6]]}
    for _ in range(250 if ctx.quick else 2500):
        cls = rng.choice(API_CLASSES[:3])
        names = rng.sample(API_ATTRS, rng.randint(2, 4))
        specs.append({'cls': cls, 'via': rng.choice(['ctor', 'setter']), 'args': {n: rng.choice(ok_vals[n]) for n in names},
                      'charge': rng.choice([0, 0, 0, 1, -1])})
    return specs


def stream_api(ctx, programs):
    programs.update(['_validate / Query property setters', 'ExtendedQuery.__init__'])
    envs = environments(ctx)
    lines, reals, metas = [], [], []
    cap = 300
    for qn, spec in enumerate(api_specs(ctx)):
        start = (qn * 131) % len(envs)
        sub = (envs + envs)[start:start + cap]
        env_ints = [x for k, a, _ in sub for x in k]
        try:
            q = api_make(spec)
        except Exception as e:
            real = 'err ' + type(e).__name__
        else:
            bits = []
            for k, a, _ in sub:
                try:
                    r = q == a
                    bits.append('1' if r is True else '0' if r is False else '?')
                except Exception:
                    bits.append('E')
            real = 'ok ' + ' '.join(map(str, enc_qatom(q))) + ' | ' + ''.join(bits)
        lines.append(api_line(spec, env_ints, len(sub)))
        reals.append(real)
        metas.append((spec, sub))
    # the bare setters: stored tuple vs the model of _validate / hybridization / ring_sizes / charge
    from chython.periodictable import AnyElement
    vs_cases = []
    for name, which in API_WHICH.items():
        for v in [None] + list(range(-3, 18)) + [40, [0], [1, 0], [0, 0], [14, 0], [15], [3, 5], [5, 3], [2], [0, 3], [], [4, 4]]:
            vs_cases.append((name, which, v))
    for c in range(-7, 8):
        vs_cases.append(('charge', 3, c))
    for name, which, v in vs_cases:
        for via in ('ctor', 'setter'):
            try:
                if via == 'ctor':
                    q = AnyElement(**{name: v})
                else:
                    q = AnyElement()
                    setattr(q, name, v)
                got = getattr(q, name)
                real = 'ok ' + ' '.join(map(str, L([got if got >= 0 else 0, -got if got < 0 else 0] if name == 'charge' else got)))
            except Exception as e:
                real = 'err ' + type(e).__name__
            if v == [] and name != 'charge':
                continue   # empty list: `tuple(sorted([]))` = () — same as None in the model; not a raw form the model distinguishes
            lines.append(line('vs', [which] + raw_ints(v)))
            reals.append(real)
            metas.append(({'cls': 'AnyElement', 'via': via, 'args': {name: v}} if name != 'charge' else
                          {'cls': 'AnyElement', 'via': via, 'args': {}, 'charge': v}, None))
    resp = core.run_driver('C08', lines)
    for (spec, sub), real, model in zip(metas, reals, resp):
        ctx.count(('api', json_key(spec)), n=len(sub) if sub else 1)
        ctx.dist('api:' + ('rejected' if real.startswith('err') else 'built'))
        if real.startswith('err') and model.startswith('err'):
            continue      # rejected by both; the exception class of the query API is not part of the property
        if ' '.join(real.split()) != ' '.join(model.split()):
            disagree(ctx, 'query-api', f'{spec}: real {real[:160]} model {model[:160]}', {'kind': 'api', 'spec': spec})


def json_key(spec):
    import json
    return json.dumps(spec, sort_keys=True)


def api_doc(spec):
    """documented meaning of an API-built query: an int is the one-element list, ring size 0 = not in a ring, None = unconstrained.
    Returns None when the documentation says the value is invalid (then the constructor must raise)."""
    lim = {'neighbors': (0, 14), 'heteroatoms': (0, 14), 'implicit_hydrogens': (0, 14), 'hybridization': (1, 4)}
    cls = spec['cls']
    d = dict(isotope=spec.get('isotope'), charge=spec.get('charge', 0), stereo=None, masked=False, mapping=None, neighbors=None,
             hydrogens=None, rings=None, hetero=None, hyb=None, radical=bool(spec.get('radical')))
    d['head'] = {'QueryC': ('element', 6), 'AnyElement': 'any', 'ListElement': ('list', [6, 7]), 'AnyMetal': 'metal'}[cls]
    if not -4 <= d['charge'] <= 4:
        return None
    key = {'neighbors': 'neighbors', 'heteroatoms': 'hetero', 'implicit_hydrogens': 'hydrogens', 'hybridization': 'hyb', 'ring_sizes': 'rings'}
    for name, v in spec['args'].items():
        if v is None:
            continue
        if name == 'ring_sizes':
            if isinstance(v, int):
                if v == 0:
                    d['rings'] = 'none'
                elif v >= 3:
                    d['rings'] = [v]
                else:
                    return None
            else:
                if any(x < 3 for x in v) or len(set(v)) != len(v):
                    return None
                d['rings'] = sorted(v) or None
            continue
        lo, hi = lim[name]
        vs = [v] if isinstance(v, int) else list(v)
        if any(x < lo or x > hi for x in vs) or len(set(vs)) != len(vs):
            return None
        d[key[name]] = sorted(vs) or None
    return d


def check_api(spec, mol):
    """property oracle for an API-built query on every atom of mol: list of (atom, expected, got); raises if construction
    contradicts the documentation (accepted although invalid / rejected although valid)"""
    d = api_doc(spec)
    try:
        q = api_make(spec)
    except (ValueError, TypeError) as e:
        if d is None:
            return []
        raise AssertionError(f'rejected although documented as valid: {type(e).__name__}: {e}')
    if d is None:
        raise AssertionError('accepted although the documented range excludes it')
    bad = []
    for n, a in mol._atoms.items():
        exp = oracle_match(d, oracle_attrs(mol, n))
        if exp is None:
            continue
        got = (q == a) is True
        if exp != got:
            bad.append((n, exp, got))
    return bad



# ------------------------------------------------------------------------------------------------
# multi-component (dot-separated) patterns: every component in its own fragment, in every fragment order
# ------------------------------------------------------------------------------------------------

def check_multi(text, mol, default=False):
    """property oracle for `comp.comp(.comp)` where each component is a documented bracket atom or two documented atoms joined by a
    documented bond token (no ring mark): expected = all assignments of the components to pairwise different fragments of the
    molecule in which every atom / bond has its documented meaning. Returns None (fine or undetermined) or a description."""
    import re
    from chython import smarts
    body = text.split()[0]
    comps = body.split('.')
    if len(comps) < 2 or ' ' in text.strip() or any(b.order == 8 for _, _, b in mol.bonds()):
        return None
    if default and accel_gap(text, mol):
        return None
    attrs = {n: oracle_attrs(mol, n) for n in mol._atoms}
    # fragments: own traversal over every bond
    frag, k = {}, 0
    for n in mol._atoms:
        if n in frag:
            continue
        k += 1
        st = [n]
        frag[n] = k
        while st:
            x = st.pop()
            for y in mol._bonds[x]:
                if y not in frag:
                    frag[y] = k
                    st.append(y)
    cands = []
    for c in comps:
        mt = re.fullmatch(r'\[([^\]]*)\](?:([^\[\]]*)\[([^\]]*)\])?', c)
        if not mt:
            return None
        a1, tok, a2 = mt.groups()
        d1 = doc_parse_atom(a1)
        if d1 is None or d1['stereo'] is not None or d1['mapping']:
            return None
        if a2 is None:
            row = []
            for n in mol._atoms:
                e = oracle_match(d1, attrs[n])
                if e is None:
                    return None
                if e:
                    row.append((n,))
        else:
            d2 = doc_parse_atom(a2)
            if d2 is None or d2['stereo'] is not None or d2['mapping'] or tok not in BOND_DOC:
                return None
            orders = BOND_DOC[tok] or {1}
            row = []
            for n, ms in mol._bonds.items():
                for m, bb in ms.items():
                    e1, e2 = oracle_match(d1, attrs[n]), oracle_match(d2, attrs[m])
                    if e1 is None or e2 is None:
                        return None
                    if e1 and e2 and bb.order in orders:
                        row.append((n, m))
        cands.append(row)
    exp = set()
    for combo in itertools.product(*cands):
        fs = [frag[t[0]] for t in combo]
        if len(set(fs)) == len(fs):
            exp.add(tuple(x for t in combo for x in t))
    q = smarts(body)
    qn = list(q._atoms)
    got = {tuple(mp[n] for n in qn) for mp in _mapping(q, mol, default)}
    if got != exp:
        return (f'{body} ({"default" if default else "reference"} path): expected-only {sorted(exp - got)[:3]} '
                f'got-only {sorted(got - exp)[:3]} ({len(exp)} expected, {len(got)} returned)')
    return None


MULTI_FRAGMENTS = ['CO', 'CN', 'CCO', '[Cl-]', 'C[NH3+]', 'CC(=O)[O-]', 'C[N+](C)(C)C', 'c1ccccc1', 'O', '[Na+]', 'CC=O', 'C1CC1', 'CS', 'C#N']
MULTI_COMPONENTS = ['[O;D1]', '[N;D1]', '[Cl;D0;-]', '[N;D1;+]', '[C;D2]', '[A;a]', '[O;D1;-]', '[N;D4;+]', '[C]', '[O]', '[Na+]', '[A;r3]', '[S,N]',
                    '[C][O]', '[C]=[O]', '[C]-,=[O]', '[C][N]', '[C]#[N]', '[A]!-[A]', '[C;h3][A]', '[A;D0]', '[O;h2]', '[A+]', '[A-]']


def multi_cases(ctx):
    """(pattern, molecule SMILES): 2-3 components on molecules of 2-4 fragments written in every order"""
    rng = ctx.rng
    out = []
    for _ in range(40 if ctx.quick else 300):
        frs = rng.sample(MULTI_FRAGMENTS, rng.randint(2, 4))
        pats = ['.'.join(rng.sample(MULTI_COMPONENTS, rng.randint(2, 3))) for _ in range(3)]
        # patterns written from the fragments' own atoms so that they do match
        own = {'CO': '[O;D1]', 'CN': '[N;D1]', 'CCO': '[C;D2]', '[Cl-]': '[Cl;D0;-]', 'C[NH3+]': '[N;D1;+]', 'CC(=O)[O-]': '[O;D1;-]',
               'C[N+](C)(C)C': '[N;D4;+]', 'c1ccccc1': '[A;a]', 'O': '[O;h2]', '[Na+]': '[Na+]', 'CC=O': '[C]=[O]', 'C1CC1': '[A;r3]',
               'CS': '[S,N]', 'C#N': '[C]#[N]'}
        pick = rng.sample(frs, min(len(frs), rng.randint(2, 3)))
        pats.append('.'.join(own[f] for f in pick))
        perms = list(itertools.permutations(frs))
        if len(perms) > 6:
            perms = rng.sample(perms, 6)
        for perm in perms:
            for p_ in pats:
                out.append((p_, '.'.join(perm)))
    return list(dict.fromkeys(out))


def stream_multi(ctx, programs):
    from chython import smiles
    programs.add('QueryContainer.get_mapping (multi-component patterns, every fragment order)')
    cache = {}
    for pat, smi in multi_cases(ctx):
        if smi not in cache:
            cache[smi] = smiles(smi)
        m = cache[smi]
        for default in (False, True):
            try:
                bad = check_multi(pat, m, default)
            except Exception as e:
                bad = f'{pat} on {smi}: {type(e).__name__}: {e}'
            ctx.count(('multi', pat, smi, default), n=len(m))
            ctx.dist('multi:' + ('differs' if bad else 'ok'))
            if bad:
                ctx.fail('C08/multi-component-match-differs-from-documented-meaning' + ('/default-path' if default else ''),
                         f'on {smi}: {bad}', {'kind': 'multi', 'smarts': pat, 'smiles': smi, 'default': default})
                break

# ------------------------------------------------------------------------------------------------
# histories: a query that was already used and is then changed through the public API must match like a fresh query
# ------------------------------------------------------------------------------------------------

def _maps(q, m, cy):
    return sorted(tuple(sorted(x.items())) for x in q.get_mapping(m, automorphism_filter=False, _cython=cy))


HISTORY_MOLS = ['F/C=C/F', 'F/C=C\\F', 'FC=CF', 'F[C@](Cl)(Br)I', 'F[C@@](Cl)(Br)I', 'FC(Cl)(Br)I', 'CCO.CO.C1CC1O.C=O.[CH2-]O', 'C[N+](C)(C)C.CN.c1ccncc1',
                'Cl/C=C/Br.Cl/C=C\\Br', 'C1CCC/C=C\\CC1.C/C=C/C']


def history_cases():
    """(name, base SMARTS, edit, SMARTS whose fresh reading is the expected final state or None, accelerated-path relevant)
    `edit(q)` changes the used query through public setters only"""
    def setb(n, m, v):
        return lambda q: setattr(q.bond(n, m), 'stereo', v)

    def seta(n, name, v):
        return lambda q: setattr(q.atom(n), name, v)

    cases = [
        ('bond-stereo-set-trans', '[F][C]=[C][F]', setb(2, 3, False), '[F]/[C]=[C]/[F]', True),
        ('bond-stereo-set-cis', '[F][C]=[C][F]', setb(2, 3, True), '[F]/[C]=[C]\\[F]', True),
        ('bond-stereo-removed', '[F]/[C]=[C]/[F]', setb(2, 3, None), '[F][C]=[C][F]', True),
        ('bond-stereo-flipped', '[F]/[C]=[C]/[F]', setb(2, 3, True), '[F]/[C]=[C]\\[F]', True),
        ('bond-stereo-set-on-list', '[Cl][C]=,#[C][Br]', setb(2, 3, False), '[Cl]/[C]=,#[C]/[Br]', True),
        ('atom-stereo-set', '[C]([F])([Cl])([Br])[I]', seta(1, 'stereo', True), '[C@]([F])([Cl])([Br])[I]', True),
        ('atom-stereo-set-other', '[C]([F])([Cl])([Br])[I]', seta(1, 'stereo', False), '[C@@]([F])([Cl])([Br])[I]', True),
        ('atom-stereo-removed', '[C@]([F])([Cl])([Br])[I]', seta(1, 'stereo', None), '[C]([F])([Cl])([Br])[I]', True),
        ('atom-stereo-flipped', '[C@]([F])([Cl])([Br])[I]', seta(1, 'stereo', False), '[C@@]([F])([Cl])([Br])[I]', True),
        ('neighbors-set', '[C][O]', seta(1, 'neighbors', 2), '[C;D2][O]', False),
        ('neighbors-set-zero-list', '[C][O]', seta(2, 'neighbors', [1, 2]), '[C][O;D1,D2]', False),
        ('neighbors-removed', '[C;D2][O]', seta(1, 'neighbors', None), '[C][O]', False),
        ('charge-set', '[C][N]', seta(2, 'charge', 1), '[C][N+]', False),
        ('charge-removed', '[C-][O]', seta(1, 'charge', 0), '[C][O]', False),
        ('hydrogens-set', '[C][O]', seta(2, 'implicit_hydrogens', 1), '[C][O;h1]', False),
        ('heteroatoms-set', '[C][O]', seta(1, 'heteroatoms', 1), '[C;x1][O]', False),
        ('hybridization-set', '[C][N]', seta(2, 'hybridization', 4), '[C][N;a]', False),
        ('ring-sizes-set', '[C][O]', seta(1, 'ring_sizes', 3), '[C;r3][O]', False),
        ('not-in-ring-set', '[C][O]', seta(1, 'ring_sizes', 0), '[C;!R][O]', False),
        ('ring-sizes-removed', '[C;r3][O]', seta(1, 'ring_sizes', None), '[C][O]', False),
        ('radical-set', '[C][O]', seta(1, 'is_radical', True), '[C][O] |^1:0|', False),
        ('isotope-set', '[C][O]', seta(1, 'isotope', 13), '[13C][O]', False),
    ]
    return cases


def history_case(name, cy):
    """run one history on the real code; returns None or a description of the first molecule on which the used-then-edited query
    differs from a fresh query with the same final attributes"""
    from chython import smarts, smiles
    c = next(x for x in history_cases() if x[0] == name)
    _, base, edit, final, _ = c
    for smi in HISTORY_MOLS:
        m = smiles(smi)
        q = smarts(base)
        _maps(q, m, cy)                 # first use
        _maps(q, smiles('CC'), cy)      # and on another molecule
        edit(q)
        got = _maps(q, m, cy)
        fresh = smarts(final)
        want = _maps(fresh, m, cy)
        # also: a query edited BEFORE its first use (control)
        q2 = smarts(base)
        edit(q2)
        ctrl = _maps(q2, m, cy)
        if ctrl != want:
            return f'{base} edited before first use ({name}) vs fresh {final} on {smi}: {len(ctrl)} vs {len(want)} mappings'
        if got != want:
            return (f'{base} used, then edited through the API ({name}), on {smi}: {len(got)} mappings, the fresh query {final} '
                    f'gives {len(want)}')
    return None


def stream_history(ctx, programs):
    programs.add('QueryContainer.get_mapping after API edits of a used query')
    for name, base, edit, final, accel in history_cases():
        for cy in (False, True):
            sig = 'C08/history/used-query-ignores-api-edit' + ('/accelerated-path' if cy else '')
            if cy and not accel:
                sig = 'C08/history/compiled-query-stale-after-setter'
            try:
                bad = history_case(name, cy)
            except Exception as e:
                bad = f'{name}: {type(e).__name__}: {e}'
            ctx.count(('history', name, cy), n=len(HISTORY_MOLS))
            ctx.dist('history:' + ('accelerated' if cy else 'python') + (':differs' if bad else ':ok'))
            if bad and not (cy and not accel):
                # (non-stereo edits on the accelerated path are the known finding compiled-query-stale-after-setter: reported by its
                #  standing probe, only counted here — a failure recorded here would keep the search from running)
                ctx.fail(sig, bad, {'kind': 'history', 'case': name, 'cython': cy})

# ------------------------------------------------------------------------------------------------
# property-level oracle (written from the documentation; never consults the Lean model)
# ------------------------------------------------------------------------------------------------

def doc_parse_atom(body):
    """Denotation of a *documented* bracket atom `[iso]head[@|@@][charge](;prim)*[:map]`; None if not in that subset.
    head: symbol | A | M | comma list of symbols or #n. prims: D h r x z (comma lists of one letter), a, !R, A, M."""
    import re
    m = re.fullmatch(r'(\d+)?([A-Za-z#0-9,]+?)(@@|@)?([+-](?:[1-4]|\+{0,3}|-{0,3}))?((?:;[A-Za-z!0-9,]+)*)(:[1-9]\d*)?', body)
    if not m:
        return None
    iso, head, st, chg, prims, mp = m.groups()
    from chython.periodictable import Element
    syms = {c.__name__: c.atomic_number.fget(None) for c in Element.__subclasses__()}
    d = dict(isotope=int(iso) if iso else None, charge=0, stereo=None, masked=False, mapping=int(mp[1:]) if mp else None,
             neighbors=None, hydrogens=None, rings=None, hetero=None, hyb=None)
    items = head.split(',')
    zs = []
    for it in items:
        if it.startswith('#'):
            if not it[1:].isdigit() or not (1 <= int(it[1:]) <= 118):
                return None
            zs.append(int(it[1:]))
        elif len(items) == 1 and it in ('A', 'M'):
            zs.append(it)
        elif it in syms:
            zs.append(syms[it])
        else:
            return None
    if zs == ['A']:
        d['head'] = 'any'
    elif zs == ['M']:
        d['head'] = 'metal'
    elif len(zs) == 1:
        d['head'] = ('element', zs[0])
    else:
        d['head'] = ('list', sorted(set(zs)))
    if iso and not (isinstance(d['head'], tuple) and d['head'][0] == 'element'):
        return None
    if st:
        d['stereo'] = st == '@'
    if chg:
        sign = 1 if chg[0] == '+' else -1
        rest = chg[1:]
        if rest and rest[0] in '1234':
            d['charge'] = sign * int(rest)
        elif rest and (set(rest) != {chg[0]}):
            return None
        else:
            d['charge'] = sign * (1 + len(rest))
    seen = set()
    for p in prims.split(';')[1:]:
        if p == 'a':
            key, val = 'hyb', [4]
        elif p == '!R':
            key, val = 'rings', 'none'
        elif p == 'A':
            continue
        elif p == 'M':
            d['masked'] = True
            continue
        else:
            parts = p.split(',')
            if not all(re.fullmatch(r'[Dhrxz]\d+', x) for x in parts) or len({x[0] for x in parts}) != 1:
                return None
            key = {'D': 'neighbors', 'h': 'hydrogens', 'r': 'rings', 'x': 'hetero', 'z': 'hyb'}[parts[0][0]]
            val = sorted(int(x[1:]) for x in parts)
            if len(set(val)) != len(val):
                return None
            lo, hi = {'neighbors': (0, 14), 'hydrogens': (0, 14), 'hetero': (0, 14), 'hyb': (1, 4), 'rings': (3, 10 ** 6)}[key]
            if any(v < lo or v > hi for v in val):
                return None
        if key in seen:
            return None       # the same attribute twice: meaning not documented
        seen.add(key)
        d[key] = val
    if d['head'] == 'metal' and (d['charge'] or chg or st or d['hydrogens'] or d['rings'] or d['hetero']):
        return None
    return d


def oracle_attrs(mol, n):
    """independent attribute computation straight from `_atoms` / `_bonds` (no labels of the library are read)"""
    atoms, bonds = mol._atoms, mol._bonds
    a = atoms[n]
    real = [(m, b.order) for m, b in bonds[n].items() if b.order != 8]
    orders = [o for _, o in real]
    if 4 in orders:
        hyb = 4
    elif 3 in orders or orders.count(2) >= 2:
        hyb = 3
    elif orders.count(2) == 1:
        hyb = 2
    else:
        hyb = 1
    adj = {k: [m for m, b in v.items() if b.order != 8] for k, v in bonds.items()}
    cyc = cycle_sizes(adj, n, 9)
    return dict(z=a.atomic_number, isotope=a.isotope, charge=a.charge, radical=a.is_radical, neighbors=len(real),
                hetero=sum(1 for m, _ in real if atoms[m].atomic_number not in (1, 6)), hyb=hyb,
                hydrogens=a.implicit_hydrogens, on_cycle=on_cycle(adj, n), cycle_sizes=cyc)


def on_cycle(adj, n):
    for m in adj[n]:
        seen, st = {n}, [m]
        # can m reach n without using edge (n, m)?
        seen2 = {m}
        while st:
            x = st.pop()
            for y in adj[x]:
                if x == m and y == n:
                    continue
                if y == n:
                    return True
                if y not in seen2:
                    seen2.add(y)
                    st.append(y)
    return False


def cycle_sizes(adj, n, limit):
    """sizes (<= limit) of simple cycles through n"""
    sizes = set()

    def dfs(x, path, seen):
        if len(path) > limit:
            return
        for y in adj[x]:
            if y == n and len(path) >= 3:
                sizes.add(len(path))
            elif y not in seen and len(path) < limit:
                seen.add(y)
                path.append(y)
                dfs(y, path, seen)
                path.pop()
                seen.discard(y)

    if sum(len(v) for v in adj.values()) // 2 - len(adj) < 12:   # keep the search cheap
        dfs(n, [n], {n})
    else:
        return None
    return sizes


NOT_METAL = {1, 2, 5, 6, 7, 8, 9, 10, 14, 15, 16, 17, 18, 32, 33, 34, 35, 36, 51, 52, 53, 54, 85, 86, 118}
# written from the periodic table: non-metals + metalloids that form stable covalent single bonds in organic molecules
# (H, B, C, N, O, F, Si, P, S, Cl, Ge, As, Se, Br, Sb, Te, I, At) and the noble gases (He ... Og).


def oracle_match(d, at):
    """documented meaning of the parsed atom `d` on attributes `at`: True / False / None (undetermined)"""
    h = d['head']
    if h == 'any':
        pass
    elif h == 'metal':
        if at['z'] in NOT_METAL:
            return False
    elif h[0] == 'element':
        if at['z'] != h[1]:
            return False
    elif at['z'] not in h[1]:
        return False
    if h != 'metal':
        if d['charge'] != at['charge']:
            return False
        if d.get('radical', False) != at['radical']:
            return False
        if d['isotope'] and d['isotope'] != at['isotope']:
            return False
        if d['hydrogens'] is not None and at['hydrogens'] not in d['hydrogens']:
            return False
        if d['hetero'] is not None and at['hetero'] not in d['hetero']:
            return False
    if d['neighbors'] is not None and at['neighbors'] not in d['neighbors']:
        return False
    if d['hyb'] is not None and at['hyb'] not in d['hyb']:
        return False
    if h != 'metal' and d['rings'] is not None:
        if d['rings'] == 'none':
            if at['on_cycle']:
                return False
        else:
            if not at['on_cycle']:
                return False
            cs = at['cycle_sizes']
            if cs is None:
                return None
            if not (set(d['rings']) & cs) and max(d['rings']) <= 9:
                return False
            if cs and min(cs) in d['rings']:
                return True
            if set(d['rings']) & cs:
                return None       # depends on which minimum cycle basis was chosen (C06)
            return None
    return True


def _mapping(q, mol, default):
    """default=True: the public default (accelerated path when available); False: the reference Python path"""
    if default:
        return list(q.get_mapping(mol, automorphism_filter=False))
    return list(q.get_mapping(mol, automorphism_filter=False, _cython=False))


def check_pair(text, mol, default=False):
    """property oracle for a two-atom pattern `[a1]<bond token>[a2]` of documented atoms: expected ordered pairs from the documented
    meaning of both atoms and of the bond token (ring bond = bond on a cycle). Returns list of ((n, m), expected, got)."""
    import re
    from chython import smarts
    body = text.split()[0]
    mt = re.fullmatch(r'\[([^\]]*)\]([^\[\]]*)\[([^\]]*)\]', body)
    if not mt or ' ' in text.strip():
        return []
    a1, tok, a2 = mt.groups()
    d1, d2 = doc_parse_atom(a1), doc_parse_atom(a2)
    base, _, rm = tok.partition(';')
    if d1 is None or d2 is None or base not in BOND_DOC or rm not in ('', '@', '!@') or (rm and not base):
        return []
    if d1['stereo'] is not None or d2['stereo'] is not None or d1['mapping'] or d2['mapping']:
        return []
    if default and accel_gap(text, mol):
        return []
    orders = BOND_DOC[base] or {1}
    ring = {'': None, '@': True, '!@': False}[rm]
    q = smarts(body)
    x, y = list(q._atoms)
    got = {(mp[x], mp[y]) for mp in _mapping(q, mol, default)}
    adj = {k: [m for m, bb in v.items() if bb.order != 8] for k, v in mol._bonds.items()}
    attrs = {n: oracle_attrs(mol, n) for n in mol._atoms}
    bad = []
    for n, ms in mol._bonds.items():
        for m, bb in ms.items():
            e1, e2 = oracle_match(d1, attrs[n]), oracle_match(d2, attrs[m])
            if e1 is None or e2 is None:
                continue
            exp = e1 and e2 and bb.order in orders
            if exp and ring is not None:
                if bb.order == 8:
                    continue          # ring state of a coordination bond: undetermined (see design notes)
                seen, st, conn = {n}, [n], False
                while st and not conn:
                    z = st.pop()
                    for w in adj[z]:
                        if (z, w) in ((n, m), (m, n)):
                            continue
                        if w == m:
                            conn = True
                            break
                        if w not in seen:
                            seen.add(w)
                            st.append(w)
                exp = conn == ring
            if exp != ((n, m) in got):
                bad.append(((n, m), exp, (n, m) in got))
    return bad


def check_match(text, mol, default=False):
    """property oracle for a single-atom documented SMARTS on every atom of mol. Returns list of (atom, expected, got)."""
    from chython import smarts
    body = text.split()[0]
    if not (body.startswith('[') and body.endswith(']') and body.count('[') == 1):
        return []
    d = doc_parse_atom(body[1:-1])
    if d is None or d['stereo'] is not None:
        return []
    if '|^1:0|' in text:
        d['radical'] = True
    if default and accel_gap(text, mol):
        return []
    q = smarts(text)
    qn = next(iter(q._atoms))
    got = {mp[qn] for mp in _mapping(q, mol, default)}
    bad = []
    for n in mol._atoms:
        exp = oracle_match(d, oracle_attrs(mol, n))
        if exp is None:
            continue
        if exp != (n in got):
            bad.append((n, exp, n in got))
    return bad


def check_accept(body, rad=False):
    """documented bracket atom must be accepted with exactly the documented attributes. Returns None or a description."""
    from chython import smarts
    from chython.periodictable import AnyElement, AnyMetal, ListElement
    d = doc_parse_atom(body)
    if d is None:
        return None
    try:
        q = smarts(f'[{body}]' + (' |^1:0|' if rad else ''))
    except Exception as e:
        return f'documented atom [{body}] rejected: {type(e).__name__}: {e}'
    n, a = next(iter(q._atoms.items()))
    h = d['head']
    want_cls = AnyElement if h == 'any' else AnyMetal if h == 'metal' else ListElement if h[0] == 'list' else None
    if want_cls is not None and type(a) is not want_cls:
        return f'[{body}]: class {type(a).__name__}'
    if want_cls is None and getattr(a, 'atomic_number', None) != h[1]:
        return f'[{body}]: atomic number {getattr(a, "atomic_number", None)}'
    if want_cls is ListElement and sorted(set(a.atomic_numbers)) != h[1]:
        return f'[{body}]: list {a.atomic_numbers}'
    tup = lambda v: () if v is None else tuple(v)
    checks = [('neighbors', tup(d['neighbors'])), ('hybridization', tup(d['hyb']))]
    if h != 'metal':
        checks += [('charge', d['charge']), ('implicit_hydrogens', tup(d['hydrogens'])), ('heteroatoms', tup(d['hetero'])),
                   ('ring_sizes', (0,) if d['rings'] == 'none' else tup(d['rings'])), ('stereo', d['stereo']), ('is_radical', rad)]
    if want_cls is None:
        checks.append(('isotope', d['isotope']))
    checks.append(('masked', d['masked']))
    for k, v in checks:
        if getattr(a, k) != v:
            return f'[{body}]: {k} is {getattr(a, k)!r}, documented meaning {v!r}'
    if d['mapping'] is not None and n != d['mapping']:
        return f'[{body}]: atom number {n}, map {d["mapping"]}'
    return None


# ------------------------------------------------------------------------------------------------
# failing-input search
# ------------------------------------------------------------------------------------------------

def search(ctx):
    """Runs only when an obligation / stream broke: property oracle on the real code around the disagreeing cases."""
    import time
    from ..gen import pyx2py
    pyx2py.install()
    t_end = time.time() + (60 if ctx.quick else (600 if ctx.broken else 150))
    rng = ctx.rng
    seeds = [c for _, c in _state.get('disagreements', [])]
    texts = []
    for c in seeds:
        if c.get('smarts'):
            texts.append(c['smarts'])
        if c.get('query', '').startswith('['):
            texts.append(c['query'])
    # 0. constructs the documentation excludes must be rejected (with IncorrectSmarts)
    for t in MUST_REJECT + corrupted_atoms(ctx, 3000):
        out = real_smarts_outcome(t)
        if out[0] == 'ok':
            ctx.fail('C08/unsupported-construct-accepted', f'smarts({t!r}) is accepted although the documentation excludes it',
                     {'kind': 'must_reject', 'smarts': t})
        elif out[1] != 'IncorrectSmarts':
            ctx.fail(f'C08/reject-kind/{out[1]}', f'smarts({t!r}) raises {out[1]}, not IncorrectSmarts', {'kind': 'reject', 'smarts': t})
    # 1. reader: rejection kind + documented atoms accepted with the documented meaning
    pool = list(dict.fromkeys(texts + [f'[{s}]' for s in grammar_atoms(ctx, 1500)] + [t for t, _ in primitive_queries(ctx)]))
    for t in pool:
        if time.time() > t_end:
            break
        out = real_smarts_outcome(t)
        if out[0] == 'err' and out[1] != 'IncorrectSmarts':
            ctx.fail(f'C08/reject-kind/{out[1]}', f'smarts({t!r}) raises {out[1]}, not IncorrectSmarts', {'kind': 'reject', 'smarts': t})
        body = t.split()[0]
        if body.startswith('[') and body.endswith(']') and body.count('[') == 1:
            bad = check_accept(body[1:-1], rad='|^1:0|' in t)
            if bad:
                ctx.fail('C08/documented-atom-misread', bad, {'kind': 'accept', 'smarts': t})
    # 2a. the disagreeing (pattern, molecule) cases themselves, on the path that disagreed
    for c in seeds:
        if c.get('kind') != 'match' or time.time() > t_end:
            continue
        try:
            mol, _ = wire.ints_to_mol(c['mol'], calc=True)
            for default in ([True] if c.get('default') else [False, True]):
                bad1 = check_match(c['smarts'], mol, default)
                bad2 = check_pair(c['smarts'], mol, default)
                if bad1 or bad2:
                    what = (f'atom {bad1[0][0]}: documented meaning {"match" if bad1[0][1] else "no match"}' if bad1 else
                            f'pair {bad2[0][0]}: documented meaning {"match" if bad2[0][1] else "no match"}')
                    ctx.fail('C08/match-differs-from-documented-meaning' + ('/default-path' if default else ''),
                             f'{c["smarts"]} ({"default" if default else "reference"} path): {what}, get_mapping says the opposite',
                             {'kind': 'match', 'smarts': c['smarts'], 'mol': c['mol'], 'default': default})
                    break
        except Exception as e:
            ctx.notes.append(f'search on a disagreeing case raised {type(e).__name__}: {e}')
    # 1b. the CX radical block: the atoms it names, and only they, are radicals
    for t in [c['smarts'] for c in seeds if c.get('kind') == 'cx'] + cx_strings(ctx):
        bad = check_cx(t)
        if bad:
            ctx.fail('C08/cx-radical-block-misread', bad, {'kind': 'cx', 'smarts': t})
            break
    # 2a'. whole patterns (ring closures, branches) on cage targets, both paths — own share of the budget
    embed_search(ctx, min(t_end, time.time() + (25 if ctx.quick else 60)), seeds)
    # 2. matching: documented single-atom patterns on small molecules vs the independent attribute computation
    mols = [(n, m) for n, m in molecules(ctx) if len(m) <= 30]
    pats = list(dict.fromkeys([t for t in texts if t.count('[') == 1] + [t for t, r in primitive_queries(ctx) if not r]))
    rng.shuffle(pats)
    pats = [t for t in texts if t.count('[') == 1] + pats
    for t in pats:
        if time.time() > t_end or len(ctx.failures) > 20:
            break
        for name, m in [('element-soup', element_soup())] + rng.sample(mols, min(len(mols), 12)):
            try:
                bad = check_match(t, m) or check_match(t, m, default=True)
            except Exception as e:
                if isinstance(e, (ValueError,)):
                    continue
                ctx.fail(f'C08/match-raises/{type(e).__name__}', f'{t} on {name}: {type(e).__name__}: {e}',
                         {'kind': 'match', 'smarts': t, 'mol': wire.mol_to_ints(m)})
                continue
            if bad:
                n, exp, got = bad[0]
                ctx.fail('C08/match-differs-from-documented-meaning',
                         f'{t} on {name} atom {n}: documented meaning says {"match" if exp else "no match"}, get_mapping says {"match" if got else "no match"}',
                         {'kind': 'match', 'smarts': t, 'mol': wire.mol_to_ints(m), 'atom': n})
                break
    # 2b. queries built through the API from scalar / list arguments (0 is a constraint, not "unspecified")
    api_seeds = [c['spec'] for c in seeds if c.get('kind') == 'api']
    pool = api_seeds + api_specs(ctx)
    done = 0
    for spec in pool:
        if time.time() > t_end or done > 1500:
            break
        done += 1
        for name, m in rng.sample(mols, min(len(mols), 4)):
            try:
                bad = check_api(spec, m)
            except AssertionError as e:
                ctx.fail('C08/query-api-domain', f'{spec}: {e}', {'kind': 'api', 'spec': spec, 'mol': wire.mol_to_ints(m)})
                break
            except Exception as e:
                ctx.fail(f'C08/query-api-raises/{type(e).__name__}', f'{spec} on {name}: {e}', {'kind': 'api', 'spec': spec, 'mol': wire.mol_to_ints(m)})
                break
            if bad:
                n, exp, got = bad[0]
                ctx.fail('C08/query-api-match-differs-from-documented-meaning',
                         f'{spec} on {name} atom {n}: documented meaning says {"match" if exp else "no match"}, == says {"match" if got else "no match"}',
                         {'kind': 'api', 'spec': spec, 'mol': wire.mol_to_ints(m)})
                break
        if any(f.signature.startswith('C08/query-api') for f in ctx.failures):
            break
    # 2c. two-atom patterns of documented atoms and bond tokens, both paths, both atom orders
    one_, two_ = mapping_patterns(ctx)
    rng.shuffle(two_)
    fused = [(n, m) for n, m in mols if any(len(a.ring_sizes) > 1 for a in m._atoms.values())]
    for t in two_:
        if time.time() > t_end or any(f.signature.startswith('C08/pair-match') for f in ctx.failures):
            break
        for name, m in rng.sample(fused, min(len(fused), 4)) + rng.sample(mols, min(len(mols), 4)):
            hit = None
            for default in (False, True):
                try:
                    bad = check_pair(t, m, default)
                except ValueError:
                    bad = []
                if bad:
                    hit = (default, bad[0])
                    break
            if hit:
                default, (pair, exp, got) = hit
                ctx.fail('C08/pair-match-differs-from-documented-meaning' + ('/default-path' if default else ''),
                         f'{t} on {name} ({"default" if default else "reference"} path) pair {pair}: documented meaning says '
                         f'{"match" if exp else "no match"}, get_mapping says {"match" if got else "no match"}',
                         {'kind': 'match', 'smarts': t, 'mol': wire.mol_to_ints(m), 'default': default})
                break
    # 3. bonds: two-atom patterns, documented meaning of the bond token
    bond_search(ctx, t_end, texts)
    # 3c. ring-closure bonds with query bond tokens
    closure_search(ctx, t_end)
    # 3a. chains of documented atoms and bond tokens: accepted, maps kept, numbers distinct
    for t, rad in ([(x, []) for x in texts] + chain_strings(ctx)):
        if time.time() > t_end:
            break
        bad = check_chain(t)
        if bad:
            ctx.fail('C08/documented-chain-misread', bad, {'kind': 'chain', 'smarts': t})
            break
    # 3b. cis/trans marks: a query with direction marks matches exactly the molecules of the same configuration
    for bad in check_cistrans():
        ctx.fail('C08/cis-trans-mark-misread', bad[1], {'kind': 'cistrans', 'smarts': bad[0][0], 'smiles': bad[0][1]})
        break
    # 3d. tetrahedral marks: the pattern matches exactly the molecules of the same handedness
    for bad in check_tetra():
        ctx.fail('C08/tetrahedral-mark-misread', bad[1], {'kind': 'tetra', 'q': bad[0][0], 'm': bad[0][1], 'perm': bad[0][2]})
        break
    # 4. from_atom reflexivity on real molecule atoms
    from chython.periodictable import QueryElement
    for name, m in mols[:200]:
        if time.time() > t_end:
            break
        for n, a in m._atoms.items():
            for flags in ((1, 1, 1, 1, 1), (0, 0, 0, 0, 1), (1, 0, 0, 1, 0)):
                try:
                    q = QueryElement.from_atom(a, neighbors=bool(flags[0]), hybridization=bool(flags[1]), heteroatoms=bool(flags[2]),
                                               hydrogens=bool(flags[3]), ring_sizes=bool(flags[4]))
                    ok = (q == a) is True
                    what = 'does not match its own atom'
                except Exception as e:
                    ok, what = False, f'raises {type(e).__name__}: {e}'
                if not ok:
                    ctx.fail('C08/from-atom-not-reflexive', f'from_atom(atom {n} of {name}, {flags}) {what}',
                             {'kind': 'from_atom', 'mol': wire.mol_to_ints(m), 'atom': n, 'flags': list(flags)})
                    return


BOND_DOC = {'': None, '-': {1}, '=': {2}, '#': {3}, ':': {4}, '~': {8}, '-,=': {1, 2}, '=,#': {2, 3}, '-,:': {1, 4}, '!-': {2, 3, 4},
            '!=': {1, 3, 4}, '!#': {1, 2, 4}, '!:': {1, 2, 3}}


def check_bond(btok, ring, mol):
    """`[A]<btok>[;@|;!@][A]` on mol: expected ordered pairs from the documented meaning. '' = implicit single bond."""
    from chython import smarts
    orders = BOND_DOC[btok] or {1}
    text = '[A]' + btok + {None: '', True: ';@', False: ';!@'}[ring] + '[A]'
    q = smarts(text)
    a, b = list(q._atoms)
    got = {(mp[a], mp[b]) for mp in q.get_mapping(mol, automorphism_filter=False, _cython=False)}
    adj = {k: [m for m, bb in v.items() if bb.order != 8] for k, v in mol._bonds.items()}
    exp, undet = set(), set()
    for n, ms in mol._bonds.items():
        for m, bb in ms.items():
            if mol._atoms[n].charge or mol._atoms[m].charge or mol._atoms[n].is_radical or mol._atoms[m].is_radical:
                continue
            if bb.order not in orders:
                continue
            if ring is not None and bb.order == 8:
                # ring perception ignores coordination bonds; the library marks such a bond `in_ring` when its two atoms share a
                # covalent ring (a transannular coordinate bond). Whether that is a "ring bond" is not documented: undetermined.
                undet.add((n, m))
                continue
            if ring is not None:
                # a bond is a ring bond iff it lies on a cycle: removing it leaves its ends connected
                seen, st = {n}, [n]
                conn = False
                while st and not conn:
                    x = st.pop()
                    for y in adj[x]:
                        if (x, y) in ((n, m), (m, n)):
                            continue
                        if y == m:
                            conn = True
                            break
                        if y not in seen:
                            seen.add(y)
                            st.append(y)
                if conn != ring:
                    continue
            exp.add((n, m))
    got = {(x, y) for x, y in got} - undet
    return text, exp - undet, got


def cistrans_case(q_text, m_text):
    """(expected, got) for one pattern / molecule pair written with the same direction-mark convention; the pattern's double bond
    may carry an order list / negation and a ring mark; the molecule's double bond is in a ring iff its SMILES has a closure digit"""
    from chython import smarts, smiles
    marks = lambda t: [c for c in t if c in '/\\']
    qa, qc = marks(q_text)
    mm = marks(m_text)
    q = smarts(q_text)
    m = smiles(m_text)
    got = bool(list(q.get_mapping(m, automorphism_filter=False, _cython=False)))
    exp = len(mm) == 2 and ((qa == qc) == (mm[0] == mm[1]))
    if ';!@' in q_text:
        exp = exp and '1' not in m_text
    elif ';@' in q_text:
        exp = exp and '1' in m_text
    return exp, got


def check_cistrans():
    bad = []
    cases = []
    for x, y in (('F', 'F'), ('Cl', 'Br'), ('N', 'O')):
        for btok in ('=', '=,#', '!-', '=;!@', '=;@', '=,#;@', '!-;!@', '-,=;!@'):
            for a in '/\\':
                for c in '/\\':
                    qt = f'[{x}]{a}[C]{btok}[C]{c}[{y}]'
                    mols = [f'{x}{a2}C=C{c2}{y}' for a2 in '/\\' for c2 in '/\\'] + [f'{x}C=C{y}']
                    cases += [(qt, mt) for mt in mols]
    # ring alkenes (one substituent per sp2 carbon: the ring itself), 8- and 10-membered, both configurations
    for btok in ('=', '=;@', '=;!@', '=,#;@', '!-;!@', '!-;@'):
        for a in '/\\':
            for c in '/\\':
                qt = f'[C]{a}[C]{btok}[C]{c}[C]'
                for ring in ('C1CCC{}C=C{}CC1', 'C1CCCC{}C=C{}CCC1'):
                    cases += [(qt, ring.format(a2, c2)) for a2 in '/\\' for c2 in '/\\']
                cases += [(qt, f'CC{a2}C=C{c2}CC') for a2 in '/\\' for c2 in '/\\']
    for qt, mt in cases:
        try:
            exp, got = cistrans_case(qt, mt)
        except Exception as e:
            bad.append(((qt, mt), f'{qt} on {mt}: {type(e).__name__}: {e}'))
            continue
        if exp != got:
            bad.append(((qt, mt), f'{qt} on {mt}: same configuration / ring state expected {"match" if exp else "no match"}, '
                                  f'get_mapping says {"match" if got else "no match"}'))
    return bad


def check_chain(text):
    """a chain of documented bracket atoms joined by documented bond tokens must be accepted; mapped atoms keep their map as atom
    number, all numbers are distinct, one bond per non-dot junction. Returns None (fine / not in the documented subset) or text."""
    import re
    from chython import smarts
    body = text.split()[0]
    atoms = re.findall(r'\[([^\]]*)\]', body)
    toks = re.split(r'\[[^\]]*\]', body)
    if not atoms or toks[0] or toks[-1] or len(toks) != len(atoms) + 1:
        return None
    docs = [doc_parse_atom(a) for a in atoms]
    if any(d is None for d in docs):
        return None
    ok_tok = set(BOND_DOC) | {'.', '/', '\\'} | {b + r for b in BOND_DOC if b for r in (';@', ';!@')}
    if any(t not in ok_tok for t in toks[1:-1]):
        return None
    maps = [d['mapping'] for d in docs if d['mapping'] is not None]
    if len(set(maps)) != len(maps) or ' ' in text.strip():
        return None
    if any(d['head'] == 'metal' and (d['stereo'] is not None) for d in docs):
        return None
    # a cis/trans mark next to a bond list is fine; two direction marks on one junction cannot happen (one token per junction)
    try:
        q = smarts(body)
    except Exception as e:
        return f'{body}: documented chain rejected: {type(e).__name__}: {e}'
    nums = list(q._atoms)
    if len(nums) != len(atoms) or len(set(nums)) != len(nums):
        return f'{body}: {len(atoms)} atoms written, numbers {nums}'
    for d in docs:
        if d['mapping'] is not None and d['mapping'] not in q._atoms:
            return f'{body}: map {d["mapping"]} is not an atom number ({nums})'
    nb = sum(1 for t in toks[1:-1] if t != '.')
    if len(list(q.bonds())) != nb:
        return f'{body}: {nb} bonds written, {len(list(q.bonds()))} built'
    # every junction: the documented order set and ring mark of its token, whatever other marks surround it
    for i, t in enumerate(toks[1:-1]):
        if t == '.':
            continue
        base, _, rm = t.partition(';')
        want_orders = frozenset({1} if base in ('', '/', '\\') else BOND_DOC[base])
        want_ring = {'': None, '@': True, '!@': False}[rm]
        try:
            b = q.bond(nums[i], nums[i + 1])
        except Exception:
            return f'{body}: no bond between atoms {nums[i]} and {nums[i + 1]}'
        if frozenset(b.order) != want_orders or b.in_ring is not want_ring:
            return (f'{body}: bond {i + 1} written {t!r} is read as orders {sorted(b.order)} ring mark {b.in_ring}, '
                    f'documented {sorted(want_orders)} / {want_ring}')
    return None


def closure_case(x, y):
    """ring-closure bond written as token x at the opening and y at the closing digit: `[C]x1[C][C]y1`.
    Documented reading: one specification suffices; two must agree. Returns None or a description of the failure."""
    from chython import smarts
    spec = lambda t: None if t == '' else (frozenset(BOND_DOC[t.split(';')[0]]), {'': None, '@': True, '!@': False}[t.partition(';')[2]])
    text = f'[C]{x}1[C][C]{y}1'
    sx, sy = spec(x), spec(y)
    try:
        q = smarts(text)
        got = next(b for n, m, b in q.bonds() if {n, m} == {1, 3})
        got = (frozenset(got.order), got.in_ring)
    except Exception as e:
        got = type(e).__name__
    if sx is None or sy is None:
        want = sx or sy or (frozenset({1}), None)
        return None if got == want else f'{text}: closure bond read as {got}, written {want}'
    if x == y:
        return None if got == sx else f'{text}: the same specification on both sides read as {got}'
    if not (sx[0] & sy[0]):
        return None if got == 'IncorrectSmarts' else f'{text}: contradictory closure bonds {sorted(sx[0])} / {sorted(sy[0])} read as {got}'
    return None       # overlapping but different specifications: not documented


def closure_search(ctx, t_end):
    import time
    toks = [''] + [t for t in BOND_DOC if t] + [t + r for t in ('-', '=', '-,=', '!-') for r in (';@', ';!@')]
    for x in toks:
        for y in toks:
            if time.time() > t_end:
                return
            bad = closure_case(x, y)
            if bad:
                ctx.fail('C08/ring-closure-bond-misread', bad, {'kind': 'closure', 'x': x, 'y': y})
                return


def tetra_case(qmark, mmark, perm):
    """pattern `[C<qmark>]([F])([Cl])([Br])[I]` on the molecule whose substituents are written in the order `perm`: the
    tetrahedral marks agree iff (same mark) == (even permutation) — the SMILES chirality convention. Returns (expected, got)."""
    from chython import smarts, smiles
    subs = ['F', 'Cl', 'Br', 'I']
    inv = sum(1 for i in range(4) for j in range(i + 1, 4) if perm[i] > perm[j])
    q = smarts(f'[C{qmark}]([F])([Cl])([Br])[I]')
    m = smiles(f'[C{mmark}](' + ')('.join(subs[i] for i in perm[:3]) + ')' + subs[perm[3]]) if mmark else smiles('C(F)(Cl)(Br)I')
    got = bool(list(q.get_mapping(m, automorphism_filter=False, _cython=False)))
    exp = bool(mmark) and ((qmark == mmark) == (inv % 2 == 0))
    return exp, got


def check_tetra():
    bad = []
    for qm in ('@', '@@'):
        for mm in ('@', '@@', ''):
            for perm in (itertools.permutations(range(4)) if mm else [(0, 1, 2, 3)]):
                try:
                    exp, got = tetra_case(qm, mm, perm)
                except Exception as e:
                    bad.append(((qm, mm, list(perm)), f'{type(e).__name__}: {e}'))
                    continue
                if exp != got:
                    bad.append(((qm, mm, list(perm)), f'[C{qm}]([F])([Cl])([Br])[I] on [C{mm}] with substituent order {list(perm)}: '
                                                        f'expected {"match" if exp else "no match"}, get_mapping {"match" if got else "no match"}'))
    return bad

def bond_search(ctx, t_end, texts):
    import time
    mols = [(n, m) for n, m in molecules(ctx) if len(m) <= 30]
    for btok in BOND_DOC:
        for ring in (None, True, False):
            if ring is not None and btok == '':
                continue
            for name, m in ctx.rng.sample(mols, min(len(mols), 8)):
                if time.time() > t_end:
                    return
                try:
                    text, exp, got = check_bond(btok, ring, m)
                except Exception as e:
                    ctx.fail(f'C08/bond-pattern-raises/{type(e).__name__}', f'{btok!r} ring={ring} on {name}: {e}',
                             {'kind': 'bondmatch', 'btok': btok, 'ring': ring, 'mol': wire.mol_to_ints(m)})
                    continue
                if exp != got:
                    # ring-bond marks follow the SSSR (a bond on a cycle always shares an SSSR ring: cycle space is spanned) — exact
                    ctx.fail('C08/bond-match-differs-from-documented-meaning',
                             f'{text} on {name}: expected-only {sorted(exp - got)[:4]} got-only {sorted(got - exp)[:4]}',
                             {'kind': 'bondmatch', 'btok': btok, 'ring': ring, 'mol': wire.mol_to_ints(m)})
                    break


# ------------------------------------------------------------------------------------------------
# probe: re-execute ONE input on the real code — does the property fail on it?
# ------------------------------------------------------------------------------------------------

def probe(inp):
    from ..gen import pyx2py
    pyx2py.install()
    kind = inp.get('kind')
    if kind == 'reject':
        out = real_smarts_outcome(inp['smarts'])
        if out[0] == 'err':
            return out[1] != 'IncorrectSmarts', f'smarts({inp["smarts"]!r}) raises {out[1]}' + (f' (from {out[2]})' if out[2] else '')
        return False, f'smarts({inp["smarts"]!r}) is accepted'
    if kind == 'api':
        if 'mol' in inp:
            mol, _ = wire.ints_to_mol(inp['mol'], calc=True)
        else:
            from chython import smiles
            mol = smiles(inp.get('smiles', 'C.CC.CCC.CC(C)C.CC(C)(C)C.C=O.C1CC1'))
        try:
            bad = check_api(inp['spec'], mol)
        except AssertionError as e:
            return True, f'{inp["spec"]}: {e}'
        except Exception as e:
            return True, f'{inp["spec"]}: raises {type(e).__name__}: {e}'
        if bad:
            n, exp, got = bad[0]
            return True, f'{inp["spec"]} atom {n}: documented meaning {"match" if exp else "no match"}, == says {"match" if got else "no match"}'
        return False, f'{inp["spec"]}: agrees with the documented meaning on every atom'
    if kind == 'cistrans':
        try:
            exp, got = cistrans_case(inp['smarts'], inp['smiles'])
        except Exception as e:
            return True, f'{inp["smarts"]} on {inp["smiles"]}: {type(e).__name__}: {e}'
        return exp != got, f'{inp["smarts"]} on {inp["smiles"]}: expected {"match" if exp else "no match"}, got {"match" if got else "no match"}'
    if kind == 'must_reject':
        out = real_smarts_outcome(inp['smarts'])
        if out[0] == 'ok':
            return True, f'smarts({inp["smarts"]!r}) is accepted although the documentation excludes it'
        return out[1] != 'IncorrectSmarts', f'smarts({inp["smarts"]!r}) raises {out[1]}'
    if kind == 'accept':
        t = inp['smarts']
        body = t.split()[0]
        out = real_smarts_outcome(t)
        if out[0] == 'err' and out[1] != 'IncorrectSmarts':
            return True, f'smarts({t!r}) raises {out[1]}'
        if body.startswith('[') and body.endswith(']') and body.count('[') == 1:
            bad = check_accept(body[1:-1], rad='|^1:0|' in t)
            return bool(bad), bad or f'{t!r} read with the documented meaning (or outside the documented subset)'
        return False, f'{t!r}: outcome {out[:2]}'
    if kind == 'reader':
        t = inp['smarts']
        out = real_smarts_outcome(t)
        if out[0] == 'err' and out[1] != 'IncorrectSmarts':
            return True, f'smarts({t!r}) raises {out[1]}'
        body = t.split()[0]
        if body.startswith('[') and body.endswith(']') and body.count('[') == 1:
            bad = check_accept(body[1:-1], rad='|^1:0|' in t)
            if bad:
                return True, bad
        return False, f'smarts({t!r}) -> {str(out)[:300]}'
    if kind == 'match':
        mol, _ = wire.ints_to_mol(inp['mol'], calc=True)
        dflt = bool(inp.get('default'))
        try:
            bad = check_match(inp['smarts'], mol, dflt)
            if not bad:
                bp = check_pair(inp['smarts'], mol, dflt)
                if bp:
                    pair, exp, got = bp[0]
                    return True, (f'{inp["smarts"]} pair {pair}: documented meaning {"match" if exp else "no match"}, get_mapping '
                                  f'{"match" if got else "no match"} ({"default" if dflt else "reference"} path)')
        except Exception as e:
            return True, f'{inp["smarts"]} raises {type(e).__name__}: {e}'
        if bad:
            n, exp, got = bad[0]
            return True, f'{inp["smarts"]} atom {n}: documented meaning {"match" if exp else "no match"}, get_mapping {"match" if got else "no match"}'
        return False, f'{inp["smarts"]}: get_mapping agrees with the documented meaning on every atom'
    if kind == 'cx':
        t = inp['smarts']
        out = real_smarts_outcome(t)
        if out[0] == 'err' and out[1] != 'IncorrectSmarts':
            return True, f'smarts({t!r}) raises {out[1]}'
        bad = check_cx(t)
        return bool(bad), bad or f'smarts({t!r}): the radical block is read as documented (or the text is outside the documented form)'
    if kind == 'embed':
        mol, _ = wire.ints_to_mol(inp['mol'], calc=True)
        bad = None
        for dflt in ([bool(inp['default'])] if 'default' in inp else [False, True]):
            try:
                bad = check_embed(inp['smarts'], mol, dflt)
            except Exception as e:
                bad = f'{inp["smarts"]} raises {type(e).__name__}: {e}'
            if bad:
                break
        return bool(bad), bad or f'{inp["smarts"]}: get_mapping returns exactly the documented embeddings (or the case is undetermined)'
    if kind == 'bondmatch':
        mol, _ = wire.ints_to_mol(inp['mol'], calc=True)
        try:
            text, exp, got = check_bond(inp['btok'], inp['ring'], mol)
        except Exception as e:
            return True, f'bond pattern raises {type(e).__name__}: {e}'
        return exp != got, f'{text}: expected-only {sorted(exp - got)[:4]} got-only {sorted(got - exp)[:4]}'
    if kind == 'from_atom':
        from chython.periodictable import QueryElement
        if 'smiles' in inp:
            from chython import smiles
            mol = smiles(inp['smiles'])
        else:
            mol, _ = wire.ints_to_mol(inp['mol'], calc=True)
        a = mol._atoms[inp['atom']]
        f = inp['flags']
        try:
            q = QueryElement.from_atom(a, neighbors=bool(f[0]), hybridization=bool(f[1]), heteroatoms=bool(f[2]), hydrogens=bool(f[3]),
                                       ring_sizes=bool(f[4]))
            r = q == a
        except Exception as e:
            return True, f'from_atom(...) == atom raises {type(e).__name__}: {e}'
        return r is not True, f'from_atom(...) == atom is {r}'
    if kind == 'from_atom_env':
        from chython.periodictable import Element, QueryElement
        k = inp['matom']
        z, iso, ch, rad, nb, hy = k[:6]
        nr = k[6]
        rs = k[7:7 + nr]
        ih, he = k[7 + nr], k[8 + nr]
        a = Element.from_atomic_number(z)(None if iso < 0 else iso, charge=ch, is_radical=bool(rad), implicit_hydrogens=None if ih < 0 else ih)
        a._neighbors, a._hybridization, a._heteroatoms, a._ring_sizes, a._in_ring, a._explicit_hydrogens = nb, hy, he, set(rs), bool(rs), 0
        f = inp['flags']
        try:
            q = QueryElement.from_atom(a, neighbors=bool(f[0]), hybridization=bool(f[1]), heteroatoms=bool(f[2]), hydrogens=bool(f[3]),
                                       ring_sizes=bool(f[4]))
            r = q == a
        except Exception as e:
            return True, f'from_atom(...) == atom raises {type(e).__name__}: {e}'
        return r is not True, f'from_atom(...) == atom is {r}'
    if kind == 'labels':
        mol, _ = wire.ints_to_mol(inp['mol'], calc=True)
        for n in mol._atoms:
            at = oracle_attrs(mol, n)
            a = mol._atoms[n]
            got = (a.neighbors, a.heteroatoms, a.hybridization, a.in_ring)
            exp = (at['neighbors'], at['hetero'], at['hyb'], at['on_cycle'])
            if got != exp:
                return True, f'atom {n}: labels (neighbors, heteroatoms, hybridization, in_ring) {got}, independent computation {exp}'
        return False, 'labels agree with the independent computation'
    if kind == 'multi':
        from chython import smiles
        try:
            bad = check_multi(inp['smarts'], smiles(inp['smiles']), bool(inp.get('default')))
        except Exception as e:
            bad = f'{type(e).__name__}: {e}'
        return bool(bad), bad or f'{inp["smarts"]} on {inp["smiles"]}: every assignment of the components to different fragments is returned'
    if kind == 'history':
        try:
            bad = history_case(inp['case'], bool(inp.get('cython')))
        except Exception as e:
            bad = f'{type(e).__name__}: {e}'
        return bool(bad), bad or f'history {inp["case"]}: the edited query matches like a fresh one'
    if kind == 'tetra':
        try:
            exp, got = tetra_case(inp['q'], inp['m'], tuple(inp['perm']))
        except Exception as e:
            return True, f'{type(e).__name__}: {e}'
        return exp != got, f'expected {"match" if exp else "no match"}, get_mapping {"match" if got else "no match"}'
    if kind == 'closure':
        bad = closure_case(inp['x'], inp['y'])
        return bool(bad), bad or f'closure bond {inp["x"]!r} / {inp["y"]!r} read as documented'
    if kind == 'chain':
        bad = check_chain(inp['smarts'])
        return bool(bad), bad or f'{inp["smarts"]}: accepted with its maps and one bond per junction (or outside the documented subset)'
    if kind == 'skeleton':
        try:
            bad = skeleton_case(inp['smarts'])
        except Exception as e:
            bad = f'{type(e).__name__}: {e}'
        return bool(bad), bad or f'{inp["smarts"]}: query graph = molecule graph, identity mapping found'
    if kind == 'copy':
        from chython import smarts
        t = inp['query']
        if not t.startswith('['):
            return False, 'API-built query: re-run the check'
        q = next(iter(smarts(t)._atoms.values()))
        cf = q.copy(full=True)
        ok = enc_qatom(cf) == enc_qatom(q)
        return not ok, f'copy(full=True) of {t}: {enc_qatom(cf)} vs {enc_qatom(q)}'
    if kind == 'eq':
        return False, 'model-vs-code disagreement on a synthetic environment; re-run the check (search decides)'
    if kind == 'bond':
        return False, 'model-vs-code disagreement in the exhaustive bond grid; re-run the check (search decides)'
    return False, f'unknown probe kind {kind}'
