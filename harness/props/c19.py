"""C19 — results identical across processes, hash seeds, repeated calls, copies (translation_validation).

Theorems: every hash() call site of the anchored files is seed free (regenerated table), order-sensitive set uses match
the reviewed list, CPython's int-hash contract for the seed-free hash model.  Decisive runtime step: fresh worker
processes under different PYTHONHASHSEED values compute every output the property lists; all must be identical, and
cached == uncached, copy == original inside each worker.
"""
import json
import os
import subprocess
import sys
import tempfile
from pathlib import Path

from ..core import LEAN, REPO, VERIF
from ..gen import gen_hashsites

LEVEL = 'translation_validation'
LEVEL_TEXT = ('Seed independence is a property of the running interpreter, so the decisive step is differential: the same '
              'inputs are evaluated in fresh processes under different PYTHONHASHSEED values (and cached/uncached, '
              'original/copy) and every listed output must be identical. What a theorem can carry is proved: the table of '
              'all hash() call sites regenerated from the source contains only int / int-tuple / delegating arguments '
              '(the only seeded primitive, hash(str), occurs solely in Molecule/Reaction.__hash__, which C19 does not list), '
              'the order-sensitive set uses equal the reviewed list, and the seed-free hash model obeys CPython\'s contract.')
LEVEL_NOTE = ('Lean kernel; gen_hashsites AST translator with its reviewed typing environment (names assumed int / int '
              'sequence per site); CPython 3.12 (int/tuple hash seed-free, set iteration a function of hashes and insertion '
              'history); worker processes; pyx2py rendering for pack bytes. OS process state is not modelled.')
TECHNIQUE = 'Lean theorems over regenerated hash/set-site tables + cross-process PYTHONHASHSEED differential runs'
RULE = ('corpus + handmade SMILES sampled with the run seed; each evaluated in k fresh interpreters with different '
        'PYTHONHASHSEED; a case = (molecule, output field); non-trivial when the molecule has >= 4 atoms; distinct by (smiles, field)')
HAS_DRIVER = False
TRUSTED = ['gen_hashsites translator and its typing environment', 'Spec/SetSites.lean reviewed list']
ASSUMPTIONS = ['hash(int), hash(tuple of int), hash(None), hash(bool) are seed independent in CPython 3.12',
               'set iteration order is a deterministic function of element hashes and insertion history']

QUERIES = ['[C;D1]', 'C=O', 'c:c', '[N,O;D1]', 'C-C-C', '[C;r6]']


def generate(ctx):
    path, hs, ss = gen_hashsites.generate()
    return [path]


def run_worker(seed, spec_path, timeout=1500):
    env = dict(os.environ)
    env['PYTHONHASHSEED'] = str(seed)
    p = subprocess.run([sys.executable, '-m', 'harness.props.c19_worker', spec_path], capture_output=True, text=True,
                       env=env, cwd=str(VERIF), timeout=timeout)
    if p.returncode != 0:
        raise RuntimeError('worker failed: ' + p.stderr[-1500:])
    return [json.loads(l) for l in p.stdout.splitlines() if l.startswith('{')]


def compare(ctx, smis, seeds):
    from concurrent.futures import ThreadPoolExecutor
    with tempfile.NamedTemporaryFile('w', suffix='.json', delete=False, dir=str(VERIF / 'harness')) as f:
        json.dump({'smiles': smis, 'queries': QUERIES}, f)
        spec = f.name
    try:
        with ThreadPoolExecutor(len(seeds)) as ex:
            results = list(ex.map(lambda s: run_worker(s, spec), seeds))
    finally:
        os.unlink(spec)
    base = results[0]
    for i, rec in enumerate(base):
        s = rec['smiles']
        if 'error' in rec:
            ctx.dist('worker-error:' + rec['error'].split(':')[0])
            continue
        nontrivial = len(rec['out']['order']) >= 4
        for field, val in rec['out'].items():
            ctx.count((s, field), nontrivial)
            for seed, other in zip(seeds[1:], results[1:]):
                o = other[i]
                if 'error' in o or o['out'].get(field) != val:
                    ctx.cov['disagreements_checked'] += 1
                    ctx.fail(f'C19/seed-dependent/{field}', f'{field} of {s} differs between PYTHONHASHSEED={seeds[0]} and {seed}',
                             {'kind': 'seed', 'smiles': s, 'field': field, 'seeds': [seeds[0], seed]})
                    break
        for res, seed in zip(results, seeds):
            r = res[i]
            for k in r.get('cached_differs', []):
                ctx.fail(f'C19/cached-differs/{k}', f'{k} of {s}: first (uncached) and second (cached) evaluation differ',
                         {'kind': 'cached', 'smiles': s, 'field': k, 'seeds': [seed]})
            for k in r.get('copy_differs', []):
                ctx.fail(f'C19/copy-differs/{k}', f'{k} of {s}: molecule and its copy differ',
                         {'kind': 'copy', 'smiles': s, 'field': k, 'seeds': [seed]})
        ctx.dist('atoms:%d' % (len(rec['out']['order']) // 10 * 10))
        if i < 3:
            ctx.sample({'smiles': s, 'seeds': seeds, 'canon': rec['out']['canon'], 'sssr': rec['out']['sssr'][:3],
                        'lin_hash_size': len(rec['out']['lin_hash'])})


def pick(ctx):
    from .. import molgen
    n = 60 if ctx.quick else 500
    smis = list(molgen.HANDMADE)
    allc = molgen.corpus_smiles()
    smis += [allc[i] for i in ctx.rng.sample(range(len(allc)), n)]
    return smis


def correspond(ctx):
    ctx.cov['programs'] = 13  # str, atoms_order, smiles_atoms_order, sssr, connected_components, 4 fingerprint sets, get_mapping, pack, canonicalize, copy
    seeds = [0, 1, 2, ctx.rng.randrange(3, 2 ** 32)] if ctx.quick else \
        [0, 1, 2] + [ctx.rng.randrange(3, 2 ** 32) for _ in range(5)]
    ctx.cov['hash_seeds'] = seeds
    compare(ctx, pick(ctx), seeds)


def search(ctx):
    # a theorem over the hash/set-site tables broke: look harder for a concrete seed dependence
    if ctx.failures:
        return
    from .. import molgen
    allc = molgen.corpus_smiles()
    smis = [allc[i] for i in ctx.rng.sample(range(len(allc)), 300 if ctx.quick else 1500)]
    compare(ctx, smis, [0, 1, 2, 3, ctx.rng.randrange(4, 2 ** 32), ctx.rng.randrange(4, 2 ** 32)])


def probe(inp):
    class C:  # minimal ctx
        def __init__(self):
            self.failures, self.cov = [], {'disagreements_checked': 0, 'samples': []}
        def count(self, *a, **k): pass
        def dist(self, *a, **k): pass
        def sample(self, *a, **k): pass
        def fail(self, sig, what, i): self.failures.append((sig, what))
    c = C()
    seeds = inp['seeds'] if len(inp['seeds']) > 1 else [inp['seeds'][0], inp['seeds'][0] + 1]
    compare(c, [inp['smiles']], seeds)
    hits = [w for s, w in c.failures if inp['field'] in s]
    return bool(hits), '; '.join(hits) if hits else 'identical across seeds / cached / copy'
