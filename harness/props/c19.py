"""C19 — results identical across processes, hash seeds, repeated calls, copies (translation_validation).

Theorems: every hash() call site of the anchored files is seed free (regenerated table), order-sensitive set uses match
the reviewed list, CPython's int-hash contract for the seed-free hash model.  Decisive runtime step: fresh worker
processes under different PYTHONHASHSEED values compute every output the property lists; all must be identical, and
cached == uncached, copy == original inside each worker.
"""
import json
import os
import subprocess
import sys
import tempfile
from pathlib import Path

from .. import core
from ..core import LEAN, REPO, VERIF
from ..gen import gen_hashsites
from . import c19_sets

LEVEL = 'translation_validation'
LEVEL_TEXT = ('Seed/history independence is a property of the running interpreter, so the decisive step is differential: the same '
              'inputs are evaluated in fresh processes under different PYTHONHASHSEED values, and inside a process over histories '
              '(first/later call, evaluation orders, read - perturb - read through every public setter and edit, original/copy, '
              'primed/unprimed object) and every listed output must be identical. What a theorem can carry is proved: the table of '
              'all hash() call sites regenerated from the source contains only int / int-tuple / delegating arguments '
              '(the only seeded primitive, hash(str), occurs solely in Molecule/Reaction.__hash__, which C19 does not list), '
              'the order-sensitive set uses equal the reviewed list and are int-keyed (one int-tuple site), and CPython\'s set for int '
              'keys is an executable Lean model (probing, dummies, resizing, pop finger, merge/copy/difference/intersection) that is '
              'proved to refine the documented finite-set semantics, to be a function of hashes and history only, and is compared '
              'with real sets on every run, including the recorded container histories of the reviewed sites.')
LEVEL_NOTE = ('Lean kernel; gen_hashsites AST translator with its reviewed typing environment (names assumed int / int '
              'sequence per site); Py/IntSet.lean is a hand transcription of CPython 3.12 setobject.c validated by exact '
              'correspondence on every run (termination of its scans is by fuel, not proved); the site replay recompiles the '
              'site functions over a logging wrapper of real sets (the traced run must reproduce the unpatched results); '
              'worker processes; pyx2py rendering for pack bytes. OS process state is not modelled.')
TECHNIQUE = ('Lean theorems over regenerated hash/set-site tables + verified executable model of CPython int sets (refinement, determinism) '
             '+ cross-process PYTHONHASHSEED and read-perturb-read differential runs')
RULE = ('corpus + handmade SMILES sampled with the run seed; each evaluated in k fresh interpreters with different '
        'PYTHONHASHSEED; a case = (molecule, output field) — non-trivial when the molecule has >= 4 atoms; distinct by (smiles, field); '
        'set-operation histories (random / growth across every resize boundary / from-dict / dict-order) — a case = one program, '
        'non-trivial with >= 3 observations, distinct by its observation digest; site replays — a case = one molecule, non-trivial '
        'when a set.pop() was observed')
HAS_DRIVER = True
TRUSTED = ['gen_hashsites translator and its typing environment', 'Spec/SetSites.lean reviewed list and key kinds',
           'Spec/PySetSemantics.lean (documented finite-set semantics)', 'c19_sets.TSet logging wrapper (checked: traced run == unpatched run)']
ASSUMPTIONS = ['hash(int), hash(tuple of int), hash(None), hash(bool) are seed independent in CPython 3.12',
               'sets of int tuples (one reviewed site) iterate as a function of hashes and history like int sets do (int sets: modelled, proved, compared)',
               'the scans of the set model never run out of fuel (checked on every compared history, not proved)']

# categories the corpus lacks: radicals, organometallics drawn with covalent metal-donor bonds, sandwich complexes,
# molecules whose equivalent atoms differ only by stereo labels (meso / pseudo-asymmetric / E,Z pairs), isotopes
EDGE = ['C[CH]C |^1:1|', '[CH3] |^1:0|', 'C[N](C)[O] |^1:3|', '[O]N=O |^1:0|', 'c1ccccc1[CH2] |^1:6|', '[Li] |^1:0|',
        'CC(C)(C)[O] |^1:4|', 'C1CN[Cu]N1', 'C1=CC=C2C=CC=N2[Fe]N1', 'O=C1O[Cu]OC1=O', 'C1C[Pd]1', '[Fe]123(C4=C1C2=C3C4)',
        'CC(=O)O[Zn]OC(C)=O', 'N[Pt](N)(Cl)Cl', 'C[Mg]Br', 'B1(C)[H]B(C)[H]1', 'C[C@@H](O)[C@@H](C)O', 'C[C@@H](O)[C@H](C)O',
        'O[C@H]([C@@H](O)C(O)=O)C(O)=O', 'O[C@@H]([C@@H](O)C(O)=O)C(O)=O', 'C[C@H]1CC[C@@H](C)CC1', 'C[C@H]1CC[C@H](C)CC1',
        'C/C=C/C=C\\C', 'C/C=C/C=C/C', 'F/C=C/C=C\\F', 'C/C=C/CC/C=C\\C', 'CC=[C@]=CC', '[13CH3]C', '[2H]C([2H])O',
        'C[C@H](N)C(=O)O.C[C@@H](N)C(=O)O', 'OC1C(O)C(O)C(O)C(O)C1O', 'C1CC1.C1CCC1',
        'N1C=CN2C=CC=C12', 'C1=CC2=CC=CC2=C1', 'O=C1C=CNC=C1', 'C1=CN=C2N1C=CS2', 'c1ccc2c(c1)[nH]c1ccccc12', 'CC(=O)C.O.[Na+].[Cl-]',
        # carbanion rings, ionic metallocene drawings, azolium cations (charge placement decided by the Morgan order)
        'C[c-]1cccc1', 'CC1=CC=C[CH-]1', '[cH-]1ccc2ccccc12', 'C[c-]1cccc1.[Fe+2].C[c-]1cccc1', 'CC1=C[CH-]C=C1.[Li+]',
        'CCn1cc[n+](C)c1', 'CCCCn1cc[n+](C)c1', 'C[n+]1cc[nH]c1', 'N[C@@H](Cc1c[nH]c[nH+]1)C(O)=O', 'C[n+]1ccn(C)n1',
        'CN1C=C[N+](C)=C1', 'C1=C[NH+]=CN1',
        # chelates drawn with covalent aromatic-N - metal bonds inside a ring: kekule()'s ring repair turns those bonds into
        # coordinate bonds, which changes the ring set while the ring caches may already be filled
        '[Cu]1n2ccccc2-c2ccccn12', 'Cl[Pt]1(Cl)n2ccccc2-c2ccccn12', '[Zn]1n2ccccc2-c2ccccn12', 'c1ccn2[Pd]n3ccccc3-c2c1',
        '[Cu]1n2cccc3ccc4cccn1c4c32', 'c1ccn(cc1)[Cu]', 'C1=CC=N2[Cu]N3=CC=CC=C3C2=C1', '[Fe]1n2ccccc2C=N1', 'O=C1O[Cu]n2ccccc12',
        # cages: the only molecules on which `_is_condensed_ring` reaches its `common = keys & keys` set (reviewed site), so the
        # site replay covers all six reviewed sites on every run
        'C12C3C4C1C5C2C3C45', 'C12C3C1C23', 'C12C3C1C4C2C34', 'CC12C3C4C1C5C2C3C45C']
QUERIES = ['[C;D1]', 'C=O', 'c:c', '[N,O;D1]', 'C-C-C', '[C;r6]']


def generate(ctx):
    path, hs, ss = gen_hashsites.generate()
    return [path]


def run_worker(seed, spec_path, timeout=1500):
    env = dict(os.environ)
    env['PYTHONHASHSEED'] = str(seed)
    p = subprocess.run([sys.executable, '-m', 'harness.props.c19_worker', spec_path], capture_output=True, text=True,
                       env=env, cwd=str(VERIF), timeout=timeout)
    if p.returncode != 0:
        raise RuntimeError('worker failed: ' + p.stderr[-1500:])
    return [json.loads(l) for l in p.stdout.splitlines() if l.startswith('{')]


def ctx_seed(ctx):
    return getattr(ctx, 'seed', 0)


def compare(ctx, smis, seeds, set_programs=None):
    from concurrent.futures import ThreadPoolExecutor
    progfile = None
    if set_programs is not None:
        with tempfile.NamedTemporaryFile('w', suffix='.json', delete=False, dir=str(VERIF / 'harness')) as f:
            json.dump([p for _, p in set_programs], f)
            progfile = f.name
    # read - perturb - read histories (c19_worker.PERTURB) on a rotating fifth of the molecules (all of them for small sets)
    pmod = [5, ctx_seed(ctx) % 5] if len(smis) > 8 else [1, 0]
    specs = []
    for idx in range(len(seeds)):
        # history / copy variations are seed independent: the workers share them (molecule index mod number of workers)
        with tempfile.NamedTemporaryFile('w', suffix='.json', delete=False, dir=str(VERIF / 'harness')) as f:
            json.dump({'smiles': smis, 'queries': QUERIES, 'variations': True, 'variation_mod': [len(seeds), idx],
                       'rng': ctx_seed(ctx), 'set_programs_file': progfile, 'perturb_mod': pmod}, f)
            specs.append(f.name)
    try:
        with ThreadPoolExecutor(len(seeds)) as ex:
            results = list(ex.map(lambda a: run_worker(a[1], specs[a[0]]), enumerate(seeds)))
    finally:
        for sp in specs:
            os.unlink(sp)
        if progfile:
            os.unlink(progfile)
    digests = [next((r['set_digests'] for r in res if 'set_digests' in r), None) for res in results]
    results = [[r for r in res if 'smiles' in r] for res in results]
    if set_programs is not None:
        set_model_stream(ctx, set_programs, seeds, digests)
    base = results[0]
    for i, rec in enumerate(base):
        s = rec['smiles']
        if 'error' in rec:
            ctx.dist('worker-error:' + rec['error'].split(':')[0])
            continue
        nontrivial = len(rec['out']['order']) >= 4
        for field, val in rec['out'].items():
            ctx.count((s, field), nontrivial)
            for seed, other in zip(seeds[1:], results[1:]):
                o = other[i]
                if 'error' in o or o['out'].get(field) != val:
                    ctx.cov['disagreements_checked'] += 1
                    ctx.fail(f'C19/seed-dependent/{field}', f'{field} of {s} differs between PYTHONHASHSEED={seeds[0]} and {seed}',
                             {'kind': 'seed', 'smiles': s, 'field': field, 'seeds': [seeds[0], seed]})
                    break
        for res, seed in zip(results, seeds):
            r = res[i]
            for k in r.get('cached_differs', []):
                ctx.count((s, 'history', k))
                ctx.fail(f'C19/cached-differs/{k}', f'{k.split(":")[0]} of {s} depends on what was evaluated before ({k.split(":")[1]}): uncached and cached evaluation differ',
                         {'kind': 'cached', 'smiles': s, 'field': k, 'seeds': [seed]})
            for k in r.get('copy_differs', []):
                ctx.fail(f'C19/copy-differs/{k}', f'{k.split(":")[1]} of {s} differs between the molecule and its copy (after {k.split(":")[0]})',
                         {'kind': 'copy', 'smiles': s, 'field': k, 'seeds': [seed]})
        ctx.dist('atoms:%d' % (len(rec['out']['order']) // 10 * 10))
        if i < 3:
            ctx.sample({'smiles': s, 'seeds': seeds, 'canon': rec['out']['canon'], 'sssr': rec['out']['sssr'][:3],
                        'lin_hash_size': len(rec['out']['lin_hash'])})


def pick(ctx):
    from .. import molgen
    n = 40 if ctx.quick else 400
    smis = list(molgen.HANDMADE) + EDGE
    allc = molgen.corpus_smiles()
    smis += [allc[i] for i in ctx.rng.sample(range(len(allc)), n)]
    return smis


def set_model_stream(ctx, progs, seeds, digests):
    """histories of set/dict operations: real containers in every worker (one per PYTHONHASHSEED) and in this process vs the
    Lean model `Py/IntSet.lean` — every pop result, iteration order, membership answer and table size must agree exactly"""
    import hashlib
    expected = [' | '.join(c19_sets.execute(p)) for _, p in progs]
    mine = [hashlib.sha256(e.encode()).hexdigest()[:20] for e in expected]
    for seed, d in zip(seeds, digests):
        if d is None:
            ctx.broke('correspondence', 'set-histories/worker', f'worker PYTHONHASHSEED={seed} returned no digests')
            continue
        for (label, p), a, b in zip(progs, mine, d):
            if a != b:
                ctx.cov['disagreements_checked'] += 1
                ctx.broke('correspondence', 'set-histories/seed',
                          f'observations of a {label} history of int set operations differ between this process and PYTHONHASHSEED={seed}')
                break
    if not getattr(ctx, 'build_ok', True):
        return
    model = core.run_driver('C19', [c19_sets.render(p) for _, p in progs])
    nobs = 0
    for (label, p), e, m in zip(progs, expected, model):
        kind = label.split('/')[0]
        k = sum(1 for op in p if op[0] in c19_sets.OBSERVING)
        nobs += k
        ctx.count(('set-history', label, hashlib.sha256(e.encode()).hexdigest()[:12]), k >= 3)
        ctx.dist('set-history:' + kind)
        if e != m:
            ctx.cov['disagreements_checked'] += 1
            eo, mo = e.split(' | '), m.split(' | ')
            i = next((i for i, (x, y) in enumerate(zip(eo, mo)) if x != y), min(len(eo), len(mo)))
            ctx.broke('correspondence', 'set-model/' + kind,
                      f'{label}: observation {i} of {len(eo)}: CPython {eo[i][:120] if i < len(eo) else None!r} '
                      f'model {mo[i][:120] if i < len(mo) else m[:120]!r}')
    ctx.cov['set_history_programs'] = len(progs)
    ctx.cov['set_history_ops'] = sum(len(p) for _, p in progs)
    ctx.cov['set_history_observations'] = nobs
    ctx.cov['set_history_max_table'] = max((int(x.split('=')[1].split()[0]) + 1 for e in expected for x in e.split(' | ') if x.startswith('mask=')), default=0)


def site_replay_stream(ctx, smis):
    """the reviewed order-sensitive sites, real source recompiled over a logging wrapper of REAL sets: (1) the traced run
    returns what the unpatched run returns, (2) the logged container history replayed through the Lean model gives every
    observed pop result / iteration order"""
    if not getattr(ctx, 'build_ok', True):
        return
    jobs, sites, skipped, lost = [], {}, 0, {}
    for s in smis:
        try:
            t, funcs, real, traced = c19_sets.replay_sites(s)
        except Exception as e:   # parse errors of edge inputs, or a set API the wrapper does not log
            skipped += 1
            ctx.dist('site-replay-skipped:' + type(e).__name__)
            continue
        if real != traced:
            ctx.cov['disagreements_checked'] += 1
            k = next(k for k in real if real[k] != traced[k])
            ctx.broke('correspondence', 'site-trace', f'{s}: {k} differs between the unpatched run and the run over logged sets')
            continue
        for k, v in t.sites.items():
            sites[k] = sites.get(k, 0) + v
        for k, v in t.lost.items():
            lost[k] = lost.get(k, 0) + v
        jobs.append((s, t))
    out = core.run_driver('C19', [c19_sets.render(t.prog) for _, t in jobs]) if jobs else []
    for (s, t), m in zip(jobs, out):
        want = ' | '.join(t.obs)
        npop = sum(1 for op in t.prog if op[0] == 'pop')
        ctx.count((s, 'site-replay'), npop >= 1 and t.n >= 8)
        if want != m:
            ctx.cov['disagreements_checked'] += 1
            eo, mo = want.split(' | '), m.split(' | ')
            i = next((i for i, (x, y) in enumerate(zip(eo, mo)) if x != y), min(len(eo), len(mo)))
            obs_ops = [op for op in t.prog if op[0] in c19_sets.OBSERVING]
            ctx.broke('correspondence', 'set-model/site-replay',
                      f'{s}: observation {i} ({obs_ops[i][0] if i < len(obs_ops) else "?"}): CPython {eo[i][:100] if i < len(eo) else None!r} model {mo[i][:100] if i < len(mo) else m[:100]!r}')
    if smis and not jobs:
        ctx.broke('correspondence', 'site-replay', f'none of {len(smis)} molecules could be replayed ({skipped} skipped)')
    # key kinds of the reviewed sites (Spec/SetSites.lean `reviewedSetSiteKeys`): a set listed as int-keyed never left the int model
    kinds = c19_sets.reviewed_key_kinds()
    for key, n in lost.items():
        func, var, why = key.split(':', 2)
        if kinds.get((func, var)) == 'int':
            ctx.cov['disagreements_checked'] += 1
            ctx.broke('correspondence', 'site-key-kind', f'{func}: set `{var}` is reviewed as int-keyed but {why} ({n} times)')
    for (func, var), kind in kinds.items():
        if kind == 'int' and jobs and not any(f == func for f, _ in sites):
            ctx.notes.append(f'site replay: reviewed int-keyed site {func}:{var} issued no order-sensitive operation in this run')
    ctx.cov['site_replay'] = {'molecules': len(jobs), 'skipped': skipped, 'ops': sum(len(t.prog) for _, t in jobs),
                              'observations': sum(len(t.obs) for _, t in jobs),
                              'site_ops': {f'{f}:{o}': n for (f, o), n in sorted(sites.items())},
                              'histories_lost_to_non_int_or_unknown_operands': sum(len(t.unsupported) for _, t in jobs),
                              'lost_by_site_variable': dict(sorted(lost.items())),
                              'discards_of_non_int_non_members': sum(t.foreign_discards for _, t in jobs),
                              'reviewed_key_kinds': {f'{f}:{v}': k for (f, v), k in sorted(kinds.items())}}


def correspond(ctx):
    ctx.cov['programs'] = 13 + 3  # str, atoms_order, smiles_atoms_order, sssr, connected_components, 4 fingerprint sets, get_mapping, pack, canonicalize, copy; + builtin set, dict key order, site replay
    seeds = [0, 1, 2, ctx.rng.randrange(3, 2 ** 32)] if ctx.quick else \
        [0, 1, 2] + [ctx.rng.randrange(3, 2 ** 32) for _ in range(5)]
    ctx.cov['hash_seeds'] = seeds
    smis = pick(ctx)
    progs = c19_sets.programs(ctx.rng, ctx.quick)
    compare(ctx, smis, seeds, progs)
    site_replay_stream(ctx, smis if ctx.quick else smis[:len(EDGE) + 300])


def search(ctx):
    # a theorem over the hash/set-site tables broke: look harder for a concrete seed dependence
    if ctx.failures:
        return
    from .. import molgen
    allc = molgen.corpus_smiles()
    smis = [allc[i] for i in ctx.rng.sample(range(len(allc)), 300 if ctx.quick else 1500)]
    compare(ctx, smis, [0, 1, 2, 3, ctx.rng.randrange(4, 2 ** 32), ctx.rng.randrange(4, 2 ** 32)])


def probe(inp):
    class C:  # minimal ctx
        def __init__(self):
            self.failures, self.cov = [], {'disagreements_checked': 0, 'samples': []}
        def count(self, *a, **k): pass
        def dist(self, *a, **k): pass
        def sample(self, *a, **k): pass
        def fail(self, sig, what, i): self.failures.append((sig, what))
    c = C()
    seeds = inp['seeds'] if len(inp['seeds']) > 1 else [inp['seeds'][0], inp['seeds'][0] + 1]
    compare(c, [inp['smiles']], seeds)
    hits = [w for s, w in c.failures if inp['field'] in s]
    return bool(hits), '; '.join(hits) if hits else 'identical across seeds / cached / copy'
