"""C04 — implicit hydrogen counts and valence errors follow the element valence rules (proof).

G  the per-element tables (`_common_valences`, `_valences_exceptions`, isotope tables) are regenerated into
   Gen/PeriodicTable.lean on every run; the theorems of Props/C04.lean are re-proved over them.
K  the executable Lean model (Model/Valence.lean, driver Drivers/C04.lean) is run against the real chython:
     * `Element._compiled_valence_rules` of all 118 elements, whole table, rule by rule;
     * `calc_implicit` + `check_implicit(h), h = 0..4` on the property's finite domain, enumerated completely:
       organic subset x charge -2..2 x radical x every multiset of <= 4 bonds (orders 1-3) to common neighbours,
       plus aromatic / special-bond / all-118-element contexts (random, seeded);
     * whole molecules atom by atom (corpus, repo test files, hand made, decorated random skeletons that are
       frequently valence-invalid): per-atom `calc_implicit`, `check_valence` before/after `fix_structure`,
       `brutto`, `int(mol)`, `is_radical`, `float(mol)` (exact 10^-12 units vs the float, tolerance only for rounding).
search (only when something broke): property-level oracles on the real code, none of which consults the Lean model:
   first-matching-rule re-derivation from the raw tables, OpenSMILES normal valences, RDKit's valence model,
   invariance under the order of the bond dict, independent recount of the totals.
"""
import itertools
import json
import multiprocessing as mp
import os
import time
from collections import Counter
from fractions import Fraction

from .. import core, molgen, wire
from ..gen import gen_periodic

LEVEL = 'proof'
LEVEL_TEXT = ('The clauses of the property are universally quantified Lean theorems about the executable model of '
              '_compiled_valence_rules / calc_implicit / check_implicit / check_valence / the molecule totals (all bond lists, '
              'all molecules, all 118 regenerated element tables) and of the operations that write hydrogen counts: fix_structure over a '
              'change set, implicify_hydrogens, explicify_hydrogens (new numbers max+1.., no atom or neighbour dict overwritten on any '
              'numbering) and the loop body of Standardize.__standardize (for any rule data and any yielded mappings the recount set covers '
              'every rewritten atom, so "all counts are the rules\' counts" is preserved by a rule and by the whole rule part of '
              'standardize(); no KeyError on a well-formed molecule). The model is tied to today\'s source by regenerating the tables on '
              'every run, by an exhaustive model-vs-code comparison over the whole finite domain the property names, and by replaying '
              'every recorded rule application of standardize(). Proof is the right level because the functions are pure table look-ups '
              'with a first-match rule and dictionary rewrites.')
LEVEL_NOTE = ('Lean kernel; gen_periodic translator; the hand transcriptions Model/Valence.lean and Model/C04Standardize.lean are validated '
              '(not proved) against the Python text by the exhaustive / recorded-call correspondence; the substructure matcher is not '
              'modelled (its yielded mappings are recorded); Spec/OrganicValence.lean is hand-written from the OpenSMILES standard; '
              'the molecule as left by any other public operation (cutting, transactions, readers, salts, generators, pack round trips) is '
              'judged relationally with the model\'s calc_implicit / check_implicit; RDKit only inside the failing-input search.')
TECHNIQUE = ('Lean 4 theorems (induction + decide +kernel over regenerated tables) + exhaustive model-vs-code correspondence + recorded-call '
             'replay of standardize rule applications + relational judgement of operation histories')
RULE = ('exhaustive grid: element in {B,C,N,O,F,P,S,Cl,Br,I} x charge -2..2 x radical x every multiset of <= 4 bonds of orders 1-3 to '
        '{H,C,N,O,F,S,Cl,P} (quick tier: the monovalent neighbours H, F, Cl single-bonded only; thorough: all 24 bond kinds), '
        'each evaluated for calc_implicit and check_implicit(0..4); '
        'a context is non-trivial when it has at least one bond; distinct by (element, charge, radical, bond multiset). Plus every key of '
        'every compiled table of all 118 elements (distinct by (element, key)), seeded random contexts with aromatic/special bonds and any '
        'element, one context family per compiled rule of every element (exact environment, one neighbour more/less/exchanged), whole molecules '
        'atom by atom (distinct by canonical wire line; non-trivial when the molecule has a bond), implicify/explicify_hydrogens on molecules '
        'whose hydrogens were made partly explicit through the public API, also under shifted / gapped / permuted numberings (non-trivial when '
        'hydrogens are removed/added), operation histories (source molecule + list of public operations incl. options; non-trivial when an atom '
        'context changes), one molecule per standardize rule drawn from the rule\'s own pattern, and every rule application of standardize() '
        '(distinct by rule, molecule before, mappings; non-trivial when the rule rewrites something).')
TRUSTED = ['gen_periodic translator (evaluates the property bodies of the Element subclasses)',
           'Model/Valence.lean and Model/C04Standardize.lean are hand transcriptions of the Python functions, validated by the correspondence streams',
           'the mappings given to the model of the standardize loop body are those the real matcher yielded (recorded through a wrapper of QueryContainer.get_mapping)',
           'C14\'s pattern instantiation (harness/props/c14.py: instantiate, build) is reused as a generator of rule instances',
           'Spec/OrganicValence.lean (normal valences B3 C4 N3,5 O2 P3,5 S2,4,6 halogens 1, OpenSMILES)']
ASSUMPTIONS = ['molecules are well formed (adjacency closed and symmetric) as the Graph API guarantees; every history result is checked for bonds known to one atom only',
               'tabulated float literals have at most 6 decimals (masses handled as exact 10^-12 units)',
               'explicit_dict defaultdict insertion side effect never fires (proved: compiled_set_eq_dict_keys)',
               'recorded gap: split_metal_salts() on a coordinate bond to a group I/II metal (known finding) is outside the judged domain']
HAS_DRIVER = True
FINDINGS_MODULE = None
SEARCH_ALWAYS_IN_THOROUGH = True

ORGANIC = [5, 6, 7, 8, 9, 15, 16, 17, 35, 53]
NEIGHBOURS = [1, 6, 7, 8, 9, 16, 17, 15]
CHARGES = [-2, -1, 0, 1, 2]
HMAX = 4
# OpenSMILES "normal valences" of the organic subset (independent reference for the search oracle)
NORMAL_VALENCE = {5: (3,), 6: (4,), 7: (3, 5), 8: (2,), 9: (1,), 15: (3, 5), 16: (2, 4, 6), 17: (1,), 35: (1,), 53: (1,)}

# valence electrons of the main-group elements (groups 1, 2, 13-18; H and Bi left out), for the Lewis electron-count oracle
VALENCE_ELECTRONS = {3: 1, 11: 1, 19: 1, 37: 1, 55: 1, 87: 1, 4: 2, 12: 2, 20: 2, 38: 2, 56: 2, 88: 2,
                     5: 3, 13: 3, 31: 3, 49: 3, 81: 3, 113: 3, 6: 4, 14: 4, 32: 4, 50: 4, 82: 4, 114: 4,
                     7: 5, 15: 5, 33: 5, 51: 5, 115: 5, 8: 6, 16: 6, 34: 6, 52: 6, 84: 6, 116: 6,
                     9: 7, 17: 7, 35: 7, 53: 7, 85: 7, 117: 7, 2: 2, 10: 8, 18: 8, 36: 8, 54: 8, 86: 8, 118: 8}
# lowest normal valence of the common charged states (isoelectronic rule)
CHARGED_VALENCE = {(5, -1): 4, (6, 1): 3, (6, -1): 3, (7, 1): 4, (7, -1): 2, (8, 1): 3, (8, -1): 1, (8, -2): 0, (9, -1): 0,
                   (15, 1): 4, (15, -1): 2, (16, -1): 1, (16, -2): 0, (17, -1): 0, (35, -1): 0, (53, -1): 0}

_state = {}


def generate(ctx):
    path, rows, *_ = gen_periodic.generate()
    _state['rows'] = rows
    return [path]


# ------------------------------------------------------------------------------------------------
# real code access
# ------------------------------------------------------------------------------------------------

def _cls(z):
    from chython.periodictable import Element
    return Element.from_atomic_number(z)


def make_ctx_mol(z, charge, radical, bonds):
    """central atom 1 with the given neighbours, built through the public API (no recalculation)."""
    from chython import MoleculeContainer
    m = MoleculeContainer()
    m.add_atom(_cls(z)(charge=charge, is_radical=bool(radical)), 1, _skip_calculation=True)
    for i, (o, nz) in enumerate(bonds, 2):
        m.add_atom(_cls(nz)(), i, _skip_calculation=True)
        m.add_bond(1, i, o, _skip_calculation=True)
    return m


def real_calc(z, charge, radical, bonds, hmax=HMAX):
    """(`_implicit_hydrogens` after calc_implicit | -1 for None, bitmask of check_implicit(h) for h <= hmax)"""
    m = make_ctx_mol(z, charge, radical, bonds)
    m.calc_implicit(1)
    h = m._atoms[1]._implicit_hydrogens
    mask = 0
    for i in range(hmax + 1):
        if m.check_implicit(1, i):
            mask |= 1 << i
    return (-1 if h is None else h), mask


def quick_tier(ctx):
    return ctx.quick


def bond_types(quick):
    return [(o, z) for z in NEIGHBOURS for o in (1, 2, 3) if not (quick and z in (1, 9, 17) and o > 1)]


def multisets(types):
    return [ms for k in range(5) for ms in itertools.combinations_with_replacement(types, k)]


_MS = {}


def _grid_task(args):
    z, c, r, quick = args
    if quick not in _MS:
        _MS[quick] = multisets(bond_types(quick))
    out = []
    for b in _MS[quick]:
        h, mask = real_calc(z, c, r, b)
        out.append(f'{h}:{mask}')
    return (z, c, r), out


def real_rules(z):
    """canonical form of `_compiled_valence_rules`: {key: [(sorted set, sorted dict items, h), ...]}"""
    try:
        t = _cls(z)()._compiled_valence_rules
    except Exception as e:
        return 'err ' + type(e).__name__
    return {(c, int(r), v): [(sorted(s), sorted(d.items()), h) for s, d, h in rs] for (c, r, v), rs in t.items()}


def parse_rules(line):
    ws = line.split()
    if ws[0] != 'ok':
        return line
    it = iter(int(x) for x in ws[1:])
    out = {}
    for _ in range(next(it)):
        c, r, v, n = next(it), next(it), next(it), next(it)
        rs = []
        for _ in range(n):
            s = [(next(it), next(it)) for _ in range(next(it))]
            d = [((next(it), next(it)), next(it)) for _ in range(next(it))]
            rs.append((sorted(s), sorted(d), next(it)))
        if (c, r, v) in out:
            return 'duplicate key in model output'
        out[(c, r, v)] = rs
    return out


# ------------------------------------------------------------------------------------------------
# molecule level: real side
# ------------------------------------------------------------------------------------------------

def exc_name(e):
    from chython.exceptions import ValenceError
    return 'lib:' + type(e).__name__ if isinstance(e, ValenceError) else 'E:' + type(e).__name__


def real_mol_line(mol, pico_check):
    """the same fields the driver's `mol` op prints, computed by the real code on copies"""
    c = mol.copy()
    calc = []
    for n in list(c._atoms):
        try:
            c.calc_implicit(n)
            h = c._atoms[n]._implicit_hydrogens
            calc.append('-1' if h is None else str(h))
        except KeyError:
            calc.append('E')
    cv = ' '.join(map(str, mol.copy().check_valence()))
    k = mol.copy()
    chk = []
    for n, a in k._atoms.items():
        h = a._implicit_hydrogens
        if h is None:
            chk.append('-1')
        else:
            try:
                chk.append(str(int(bool(k.check_implicit(n, h)))))
            except KeyError:
                chk.append('E')
    f = mol.copy()
    f._changed = None
    try:
        f.fix_structure()
        fixcv = ' '.join(map(str, f.check_valence())) + ' ; ' + ' '.join('-1' if a._implicit_hydrogens is None else str(a._implicit_hydrogens) for a in f._atoms.values())
        fixcv = fixcv.strip()
    except KeyError:
        fixcv = 'E'
    g = mol.copy()
    q = int(g)
    rad = int(bool(g.is_radical))
    try:
        br = g.brutto
    except TypeError:
        br = 'E:TypeError'
    try:
        mass = float(g)
    except TypeError:
        mass = 'E:TypeError'
    return {'calc': ' '.join(calc), 'chk': ' '.join(chk), 'cv': cv, 'fixcv': fixcv, 'q': str(q), 'rad': str(rad), 'brutto': br, 'mass': mass}


def parse_mol_line(line):
    d = {}
    for part in line.split('|'):
        k, _, v = part.partition(' ')
        d[k] = v.strip()
    if 'brutto' in d and not d['brutto'].startswith('E:'):
        ws = d['brutto'].split()
        d['brutto'] = {ws[i]: int(ws[i + 1]) for i in range(0, len(ws), 2)}
    return d


def mass_agrees(real, model):
    if isinstance(real, str) or model.startswith('E:'):
        return real == model
    exact = Fraction(int(model), 10 ** 12)
    return abs(Fraction(real) - exact) <= Fraction(1, 10 ** 9) * max(1, exact)


def brutto_agrees(real, model):
    if isinstance(real, str) or isinstance(model, str):
        return real == model
    # Counter-derived dict: zero counts are kept by `dict(c)` (c['H'] += 0 creates the key) — compare exactly
    return dict(real) == dict(model)


def molecule_stream(ctx):
    """(name, molecule) pairs; mostly valid plus deliberately valence-invalid decorated skeletons."""
    rng = ctx.rng
    out = []
    out += molgen.handmade()
    n_corpus = 250 if ctx.quick else 4200
    cor = molgen.corpus(rng, n_corpus)
    out += cor
    for name, m in cor[: (60 if ctx.quick else 1200)]:
        try:
            k = m.copy()
            k.kekule()
            out.append((name + '/kekule', k))
        except Exception:
            pass
    if not ctx.quick:
        out += molgen.test_files()
    skeletons = []
    for n in (2, 3, 4):
        skeletons += list(molgen.small_graphs(n))
    for i in range(150 if ctx.quick else 1500):
        e = rng.choice(skeletons) if rng.random() < 0.5 else molgen.ring_assembly(rng, 3)
        try:
            out.append((f'decor[{i}]', molgen.decorate(rng, e, hetero=0.45, multiple=0.35, charge=0.2)))
        except Exception:
            continue
    # radicals / isotopes / special bonds / unknown-H atoms on top of some molecules
    extra = []
    for name, m in out[: (80 if ctx.quick else 600)]:
        c = m.copy()
        ids = list(c._atoms)
        for _ in range(rng.randint(1, 3)):
            n = rng.choice(ids)
            a = c._atoms[n]
            what = rng.randrange(4)
            if what == 0:
                a._is_radical = not a._is_radical
            elif what == 1:
                a._charge = rng.choice([-2, -1, 1, 2])
            elif what == 2:
                iso = list(type(a).isotopes_distribution.fget(None))
                a._isotope = rng.choice(iso)
            else:
                a._implicit_hydrogens = rng.choice([None, 0, 1, 5])
        for n, mb in c._bonds.items():
            for k, b in mb.items():
                if rng.random() < 0.03:
                    b._order = 8
        c.flush_cache()
        extra.append((name + '/perturbed', c))
    return out + extra



# ------------------------------------------------------------------------------------------------
# operations that write hydrogen counts: implicify / explicify (modelled), canonicalize / standardize / kekule / thiele
# ------------------------------------------------------------------------------------------------

def structure_key(ints):
    """wire ints without the stereo fields: [(id, z, iso, charge, radical, implH, ((nbr, order), ...)), ...]"""
    it = iter(ints)
    out = []
    for _ in range(next(it)):
        n, z, iso, ch, rad, h, _st, deg = (next(it) for _ in range(8))
        nb = []
        for _ in range(deg):
            k, o, _s = next(it), next(it), next(it)
            nb.append((k, o))
        out.append((n, z, iso, ch, rad, h, tuple(nb)))
    return out


def total_h(mol):
    """explicit H atoms + sum of implicit marks; None when a mark is missing"""
    t = 0
    for _, a in mol._atoms.items():
        if a._implicit_hydrogens is None:
            return None
        t += a._implicit_hydrogens + (a.atomic_number == 1)
    return t


def make_mixed(rng, mol, p=0.45):
    """make a random subset of each atom's implicit hydrogens explicit through the public API (add_atom + add_bond);
    the hydrogen marks of the touched atoms are recalculated by the library itself."""
    m = mol.copy()
    m._changed = None
    m._backup = None
    todo = []
    for n, a in list(m._atoms.items()):
        h = a._implicit_hydrogens
        if h and rng.random() < p:
            todo.append((n, rng.randint(1, h)))
    touched = set()
    for n, k in todo:
        for _ in range(k):
            x = m.add_atom('H')
            m.add_bond(n, x, 1)
            touched.update((n, x))
    _TOUCHED[id(m)] = touched
    return m


_TOUCHED = {}


HOP_HANDMADE = ['[H]NC', 'C([H])C(=O)O', '[H]C([H])([H])[H]', '[2H]C([H])O', '[H][H]', '[H]O[H]', '[H]P([H])(=O)O', '[H][N+]([H])([H])C',
                '[H]C#N', '[H]c1ccccc1', '[H]n1cccc1', '[H][S](=O)(=O)C', '[H]OP(=O)(O[H])O[H]', '[H]B([H])[H]', 'C[Si]([H])([H])[H]',
                '[H][Al]([H])[H]', '[H][P]([H])[H] |^1:1|', '[H]N=C=O', '[H]OCl(=O)(=O)=O', '[H]C(=O)[O-]', '[H][C-]([H])[H]', '[H][O+]([H])[H]']


def renumbered(rng, mol, how=None):
    """the same molecule (marks carried over) under another numbering: `shift` = every number + k (so the numbers right after
    len(atoms) are taken), `drop` = the lowest number moved beyond the highest (what delete_atom / substructure leave behind),
    `gap` = random numbers from a range three times the size, in random dict order (atom-mapped input)."""
    how = how or rng.choice(['shift', 'drop', 'gap', 'gap'])
    if how == 'gap':
        return molgen.renumber(rng, mol)[0], how
    c = mol.copy()
    ids = list(c._atoms)
    if how == 'shift':
        k = rng.choice([1, 1, 2, 3])
        c.remap({n: n + k for n in ids})
    else:
        lo, hi = min(ids), max(ids)
        c.remap({lo: hi + rng.choice([1, 1, 2])})
    c._changed = None
    c._backup = None
    c.calc_labels()
    return c, how


def hop_molecules(ctx):
    rng = ctx.rng
    base = []
    for smi in HOP_HANDMADE:
        m = molgen.parse(smi)
        if m is not None:
            base.append((smi, m))
    src = molgen.handmade() + molgen.corpus(rng, 60 if ctx.quick else 500)
    for name, m in src:
        base.append((name, m))
        try:
            k = m.copy()
            if k.kekule():
                base.append((name + '/kekule', k))
        except Exception:
            pass
    out = list(base[:len(HOP_HANDMADE)])
    for name, m in base:
        for j in range(1 if ctx.quick else 2):
            try:
                out.append((f'{name}/mixed{j}', make_mixed(rng, m)))
            except Exception as e:
                ctx.dist('hops/make_mixed-raised:' + type(e).__name__)
    # the same molecules under numberings with gaps / shifted / permuted (atom-mapped input, what is left after delete_atom or
    # substructure): operations that allocate new atom numbers or walk the atom dict must not depend on numbers being 1..N
    variants = []
    for i, (name, m) in enumerate(out):
        hows = ['shift', 'drop', 'gap'] if i < len(HOP_HANDMADE) else [None] if i % 2 == 0 or not ctx.quick else []
        for how in hows:
            try:
                v, how = renumbered(rng, m, how)
            except Exception as e:
                ctx.dist('hops/renumbered-raised:' + type(e).__name__)
                continue
            variants.append((f'{name}/renum-{how}', v))
            ctx.dist(f'hops/numbering/{how}')
    return out + variants


def apply_real(op, mol):
    """run an H-writing operation of the real code on a copy; returns ('ok', result) | (error class, None)"""
    from chython.exceptions import ValenceError
    c = mol.copy()
    c._changed = None
    c._backup = None
    try:
        getattr(c, op)()
    except ValenceError:
        return 'lib:ValenceError', None
    except KeyError:
        return 'E:KeyError', None
    return 'ok', c


def parse_op_line(line):
    if not line.startswith('ok '):
        return line.strip(), None, None
    body, _, h = line[3:].partition(' H ')
    return 'ok', structure_key([int(x) for x in body.split()]), int(h)


def hop_stream(ctx):
    mols = hop_molecules(ctx)
    lines = [wire.mol_to_line(m) for _, m in mols]
    after = []   # molecules produced by the real operations, fed to the `mol` stream afterwards
    # atoms touched by add_atom/add_bond: the mark the library recalculated itself (fix_structure over `_changed`) = model calc_implicit
    built = [(name, m, _TOUCHED[id(m)]) for name, m in mols if id(m) in _TOUCHED and _TOUCHED[id(m)]]
    resp = core.run_driver('C04', ['mol ' + wire.mol_to_line(m) for _, m, _ in built])
    for (name, m, touched), line in zip(built, resp):
        model = parse_mol_line(line).get('calc', '').split()
        ids = list(m._atoms)
        ctx.count(('api-build', wire.mol_to_line(m)))
        ctx.dist('hops/api-build')
        bad = [(n, m._atoms[n]._implicit_hydrogens, model[i] if i < len(model) else '?') for i, n in enumerate(ids) if n in touched
               and (i >= len(model) or ('-1' if m._atoms[n]._implicit_hydrogens is None else str(m._atoms[n]._implicit_hydrogens)) != model[i])]
        if bad:
            ctx.cov['disagreements_checked'] += 1
            ctx.c04_bad_mols.append({'kind': 'marks', 'name': name, 'wire': wire.mol_to_ints(m)})
            if sum(1 for x in ctx.broken if x.name.startswith('hops/api-build')) < 4:
                ctx.broke('correspondence', 'hops/api-build/add_atom+add_bond', f'{name}: (atom, stored mark, model calc_implicit) {bad[:4]}')
    for op in ('implicify', 'explicify'):
        resp = core.run_driver('C04', [f'{op} {l}' for l in lines])
        for (name, m), wl, line in zip(mols, lines, resp):
            status, res = apply_real(op + '_hydrogens', m)
            mstatus, mkey, mh = parse_op_line(line)
            nontriv = any(a.atomic_number == 1 for a in m._atoms.values()) if op == 'implicify' else bool(total_h(m))
            ctx.count((op, wl), nontrivial=nontriv)
            ctx.dist(f'hops/{op}/{status}')
            ok = status == mstatus
            if ok and res is not None:
                rkey = structure_key(wire.mol_to_ints(res))
                ok = rkey == mkey and total_h(res) == (None if mh < 0 else mh)
                if len(res) != len(m):
                    ctx.dist(f'hops/{op}/changed')
                after.append((f'{name}/{op}', res))
            if not ok:
                ctx.cov['disagreements_checked'] += 1
                ctx.c04_bad_mols.append({'kind': 'hop', 'op': op + '_hydrogens', 'name': name, 'wire': wire.mol_to_ints(m)})
                if sum(1 for x in ctx.broken if x.name.startswith('hops/')) < 8:
                    detail = f'{name}: real {status}, model {mstatus}'
                    if res is not None and mkey is not None:
                        diff = [(a, b) for a, b in zip(rkey, mkey) if a != b][:3]
                        detail += f'; first differing atoms (real, model): {diff}; atoms {len(rkey)} vs {len(mkey)}'
                    ctx.broke('correspondence', f'hops/{op}_hydrogens', detail)
    # operations without a Lean model of their own: their *results* go through the observer stream (calc/check/cv/totals)
    for op in ('canonicalize', 'standardize', 'kekule', 'thiele'):
        for name, m in mols[:: (3 if ctx.quick else 2)]:
            try:
                status, res = apply_real(op, m)
            except Exception as e:
                ctx.dist(f'hops/{op}/raised:{type(e).__name__}')
                continue
            ctx.dist(f'hops/{op}/{status}')
            if status.startswith('E:') and len(ctx.notes) < 40:
                ctx.notes.append(f'{op} raised {status} on {name}: wire {wire.mol_to_line(m)}'[:1500])
            if res is not None:
                after.append((f'{name}/{op}', res))
    return after

# ------------------------------------------------------------------------------------------------
# operation histories: whatever sequence of public operations produced a molecule, every atom with localised bonds must
# afterwards carry the count the rules give for its (element, charge, radical, bonds) — unless nothing about the atom changed
# ------------------------------------------------------------------------------------------------

CALL_VARIANTS = [
    ('canonicalize', {}), ('canonicalize', {'keep_kekule': True}), ('canonicalize', {'fix_tautomers': False}),
    ('canonicalize', {'keep_kekule': True, 'fix_tautomers': False}), ('canonicalize', {'logging': True, 'keep_kekule': True}),
    ('standardize', {}), ('standardize', {'fix_tautomers': False}), ('standardize', {'logging': True}),
    ('standardize_charges', {}), ('standardize_charges', {'prepare_molecule': False}), ('standardize_charges', {'logging': True}),
    ('neutralize', {}), ('neutralize', {'keep_charge': False}), ('fix_resonance', {}),
    ('remove_coordinate_bonds', {}), ('remove_coordinate_bonds', {'keep_to_terminal': False}), ('remove_metals', {}),
    ('kekule', {}), ('thiele', {}), ('thiele', {'fix_tautomers': False}), ('clean_isotopes', {}),
    ('implicify_hydrogens', {}), ('explicify_hydrogens', {}), ('fix_structure', {}),
    ('explicify_hydrogens', {'start_map': ['max', 1]}), ('explicify_hydrogens', {'start_map': ['max', 4]}),
    ('remove_acids', {}), ('split_metal_salts', {}), ('split_metal_salts', {'logging': True}), ('remove_metals', {'logging': True}),
    ('standardize', {'ignore': False}), ('canonicalize', {'ignore': False}), ('explicify_hydrogens', {'_return_map': True, '_fix_stereo': False}),
    ('implicify_hydrogens', {'logging': True, '_fix_stereo': False}), ('standardize_charges', {'_fix_stereo': False}),
    ('remove_coordinate_bonds', {'_fix_stereo': False}), ('fix_resonance', {'logging': True, '_fix_stereo': False}),
]
# public generators of new molecules: every molecule they yield is judged like any other result
ENUMERATORS = [('enumerate_kekule', {}), ('enumerate_tautomers', {'limit': 6}), ('enumerate_tautomers', {'limit': 6, 'prepare_molecules': False}),
               ('enumerate_charged_forms', {'limit': 6}), ('enumerate_charged_tautomers', {'limit': 6})]
SALTS = ['CC(=O)O[Na]', 'CC(=O)[O-].[Na+]', 'CCO[K]', 'CN.Cl', 'CC(=O)O.CN', 'C[NH3+].[Cl-]', 'CCN(CC)CC.OS(O)(=O)=O', 'CC(=O)O[Mg]OC(C)=O',
         'CC(=O)O[Li]', 'c1ccccc1O[Na]', 'CS[Na]', 'C[N-][K]', 'CCN.OC(=O)C(F)(F)F', '[Na]OS(=O)(=O)c1ccccc1', 'CC(C)C[Li]', 'Cl[Mg]C', 'N.CC(O)=O', '[Na+].[NH3].CC([O-])=O']

# operations that write hydrogen counts or allocate atoms: each is run after a cut and on renumbered molecules
H_WRITERS = [('explicify_hydrogens', {}), ('implicify_hydrogens', {}), ('explicify_hydrogens', {'start_map': ['max', 2]}),
             ('canonicalize', {}), ('standardize', {}), ('kekule', {}), ('thiele', {}), ('neutralize', {}), ('fix_structure', {}),
             ('standardize_charges', {}), ('remove_coordinate_bonds', {})]
METALS = ['Cu', 'Pd', 'Zn', 'Fe', 'Na', 'Pt', 'Mg']


def atom_ctx(mol, n):
    """(z, charge, radical, sorted localised+aromatic (order, neighbour z) without coordinate bonds)"""
    a = mol._atoms[n]
    return (a.atomic_number, a._charge, bool(a._is_radical),
            tuple(sorted((b.order, mol._atoms[k].atomic_number) for k, b in mol._bonds[n].items() if b.order != 8)))


def do_edit(m, e, state, **kw):
    """one structural (or direct attribute) edit; -1 refers to the atom added last in this history"""
    ref = lambda x: state['last'] if x == -1 else x
    k = e[0]
    if k == 'add_bond':
        m.add_bond(ref(e[1]), ref(e[2]), e[3], **kw)
    elif k == 'delete_bond':
        m.delete_bond(ref(e[1]), ref(e[2]), **kw)
    elif k == 'delete_atom':
        m.delete_atom(ref(e[1]), **kw)
    elif k == 'add_atom':
        state['last'] = m.add_atom(e[1], **kw)
    elif k == 'charge':
        m.atom(ref(e[1])).charge = e[2]
    elif k == 'radical':
        m.atom(ref(e[1])).is_radical = bool(e[2])
    else:
        raise ValueError(f'unknown edit {e}')


def total_hydrogens_bad(m):
    """atoms whose `total_hydrogens` is not stored count + hydrogen neighbours over non-coordinate bonds (None mark: must raise)"""
    from chython.exceptions import ValenceError
    bad = []
    for n, a in m._atoms.items():
        exp = None if a._implicit_hydrogens is None else \
            a._implicit_hydrogens + sum(1 for k, b in m._bonds[n].items() if b.order != 8 and m._atoms[k].atomic_number == 1)
        try:
            got = a.total_hydrogens
        except ValenceError:
            got = None
        if got != exp:
            bad.append((n, a.atomic_symbol, got, exp))
    return bad


def one_sided_bonds(m):
    """bonds that only one of their two atoms knows (or that the two atoms hold as different Bond objects): what the Graph API must
    never leave behind — "its bonds" of an atom would no longer be defined"""
    return [(n, k) for n, ms in m._bonds.items() for k, b in ms.items() if m._bonds.get(k, {}).get(n) is not b][:4]


def read_aggregates(m):
    """(charge, radical flag, formula, mass) as the object answers them now; a raise is part of the answer"""
    out = []
    for f in (lambda: int(m), lambda: bool(m.is_radical), lambda: dict(m.brutto), lambda: float(m)):
        try:
            out.append(f())
        except TypeError:
            out.append('E:TypeError')
    return out


def recount_aggregates(m):
    """the sums over the atoms the molecule has now (independent of any cached value)"""
    atoms = list(m._atoms.values())
    q = sum(a._charge for a in atoms)
    rad = any(a._is_radical for a in atoms)
    if any(a._implicit_hydrogens is None for a in atoms):
        return [q, rad, 'E:TypeError', 'E:TypeError']
    c = Counter(a.atomic_symbol for a in atoms)
    c['H'] += sum(a._implicit_hydrogens for a in atoms)
    hm = _exact_atomic_mass(_cls(1)())
    return [q, rad, dict(c), sum(_exact_atomic_mass(a) + a._implicit_hydrogens * hm for a in atoms)]


def aggregates_agree(got, exp):
    """exp[3] may be an exact Fraction (recount) or the model's 10^-12 integer string"""
    bad = []
    if got[0] != exp[0]:
        bad.append(('charge', got[0], exp[0]))
    if got[1] != exp[1]:
        bad.append(('is_radical', got[1], exp[1]))
    if not brutto_agrees(got[2], exp[2]):
        bad.append(('brutto', got[2], exp[2]))
    if isinstance(exp[3], str) and not exp[3].startswith('E:'):
        ok = mass_agrees(got[3], exp[3])
    elif isinstance(exp[3], str) or isinstance(got[3], str):
        ok = got[3] == exp[3]
    else:
        ok = abs(Fraction(got[3]) - exp[3]) <= Fraction(1, 10 ** 9) * max(1, exp[3])
    if not ok:
        bad.append(('mass', got[3], str(exp[3])[:30]))
    return bad


def apply_history(src, ops):
    """run a list of operations of the public API on a copy of `src`; returns the resulting molecules"""
    c = src.copy()
    c._changed = None
    c._backup = None
    cur = [c]
    state = {'last': None}
    for op in ops:
        k = op[0]
        nxt = []
        for m in cur:
            have = set(m._atoms)
            read_aggregates(m)   # a user may have looked at formula / charge / radical flag / mass before operating
            if k in ('ior', 'union_inplace'):
                other = molgen.parse(op[1])
                if op[2]:   # disjoint numbering: the other molecule is renumbered beyond this one (no remap inside union)
                    top = max(max(m._atoms), max(other._atoms))
                    other.remap({n: n + top + op[2] for n in list(other._atoms)})
                if k == 'ior':
                    m |= other
                else:
                    m.union(other, remap=True, copy=False)
                nxt.append(m)
            elif k == 'call':
                kw = dict(op[2])
                if isinstance(kw.get('start_map'), list):   # ['max', k]: the first number given to a new atom, relative to the numbers in use
                    kw['start_map'] = max(m._atoms) + kw['start_map'][1]
                getattr(m, op[1])(**kw)
                nxt.append(m)
            elif k == 'enumerate':
                nxt += list(itertools.islice(getattr(m, op[1])(**op[2]), 6))
            elif k == 'substructure':
                nxt.append(m.substructure([x for x in op[1] if x in have]))
            elif k == 'and':
                nxt.append(m & [x for x in op[1] if x in have])
            elif k == 'sub':
                nxt.append(m - [x for x in op[1] if x in have])
            elif k == 'augmented':
                nxt.append(m.augmented_substructure([x for x in op[1] if x in have], deep=op[2]))
            elif k == 'augmenteds':
                nxt += m.augmented_substructures([x for x in op[1] if x in have], deep=op[2])
            elif k == 'split':
                nxt += m.split()
            elif k == 'union':
                nxt.append(m | molgen.parse(op[1]))
            elif k == 'copy':
                nxt.append(m.copy())
            elif k == 'pack':   # serialise and read back (the stored counts travel in the pack)
                from ..gen import pyx2py
                pyx2py.install()
                kw = {} if op[1] else {'compressed': False}
                pk = dict(kw, order=list(m._atoms)[::-1]) if op[2] == 'pack-reversed' else kw
                if op[2] == 'bytes':
                    nxt.append(type(m).unpack(bytes(m)))
                elif op[2] == 'pach':
                    nxt.append(type(m).unpach(m.pach(**pk), **kw))
                else:
                    nxt.append(type(m).unpack(m.pack(**pk), **kw))
            elif k == 'transaction':
                with m:
                    for e in op[1]:
                        do_edit(m, e, state)
                nxt.append(m)
            elif k == 'batch':
                for e in op[1]:
                    do_edit(m, e, state, _skip_calculation=True)
                m.fix_structure()
                nxt.append(m)
            elif k == 'edits':
                for e in op[1]:
                    do_edit(m, e, state)
                nxt.append(m)
            else:
                raise ValueError(f'unknown op {op}')
        cur = nxt
    return cur


S_METALS = {3, 11, 19, 37, 55, 87, 4, 12, 20, 38, 56, 88}


def split_coordinate_gap(src, res, n, ops):
    """recorded gap (known finding C04/split_metal_salts/coordinate-bond-split-as-ionic): split_metal_salts() deletes a *coordinate*
    (order 8) bond between a group I/II metal and an acceptor like an ionic one (charge +1 / -1, no recount); both ends are outside
    the judged domain"""
    if n not in src._atoms or not any(op[0] == 'call' and op[1] == 'split_metal_salts' for op in ops):
        return False
    for k, b in src._bonds[n].items():
        if b.order == 8 and k not in res._bonds.get(n, ()) and \
                (src._atoms[n].atomic_number in S_METALS or src._atoms[k].atomic_number in S_METALS):
            return True
    return False


def judge_history(src, results, calc_of, accepts, ops, known_gaps=True):
    """The clause: for every atom of every result with localised bonds, stored count == the rules' count for its present
    (element, charge, radical, bonds); the old count may stay only if the atom's state did not change at all; an atom that
    lost explicit hydrogens may carry any count the rules accept (implicify picks the first rule with h >= removed).
    `calc_of(res_index, n, ctx)` and `accepts(res_index, n, ctx, h)` are the rule evaluators (Lean model, or raw tables)."""
    bad = []
    for ri, res in enumerate(results):
        for n, a in res._atoms.items():
            cx = atom_ctx(res, n)
            if any(o == 4 for o, _ in cx[3]):
                continue
            mark = a._implicit_hydrogens
            want = calc_of(ri, n, cx)
            if mark == want:
                continue
            if known_gaps and split_coordinate_gap(src, res, n, ops):
                continue
            if n in src._atoms:
                old = atom_ctx(src, n)
                if old == cx and src._atoms[n]._implicit_hydrogens == mark:
                    continue   # untouched atom keeps what it had (possibly a count given by the user)
                lost_h = Counter(old[3])[(1, 1)] > Counter(cx[3])[(1, 1)] and old[:3] == cx[:3]
                if lost_h and mark is not None and accepts(ri, n, cx, mark):
                    continue
            bad.append((ri, n, a.atomic_symbol, cx[1], mark, want, list(cx[3])))
    return bad


def random_subset(rng, mol):
    ids = list(mol._atoms)
    if rng.random() < 0.6:   # connected blob grown from a seed atom
        start = rng.choice(ids)
        sel, frontier = {start}, [start]
        size = rng.randint(1, max(1, min(len(ids) - 1, 8)))
        while frontier and len(sel) < size:
            x = frontier.pop(rng.randrange(len(frontier)))
            for k in mol._bonds[x]:
                if k not in sel and len(sel) < size and rng.random() < 0.8:
                    sel.add(k)
                    frontier.append(k)
        return sorted(sel)
    return sorted(rng.sample(ids, rng.randint(1, max(1, len(ids) - 1))))


def random_edits(rng, mol, k, attribute_edits=False):
    """k structural edits that are valid one after the other on `mol` (simulated on the adjacency only)"""
    adj = {n: set(ms) for n, ms in mol._bonds.items()}
    order = {(n, m): b.order for n, ms in mol._bonds.items() for m, b in ms.items()}
    edits = []
    new = False
    for _ in range(k):
        ids = [n for n in adj]
        kind = rng.choice(['add_bond', 'delete_bond', 'delete_bond', 'delete_atom', 'add_atom'] + (['charge', 'radical'] if attribute_edits else []))
        if kind == 'delete_bond':
            pairs = [(n, m) for n in ids for m in adj[n] if order.get((n, m), 1) != 4]
            if not pairs:
                continue
            n, m = rng.choice(pairs)
            adj[n].discard(m)
            adj[m].discard(n)
            edits.append(['delete_bond', n, m])
        elif kind == 'add_bond':
            if len(ids) < 2:
                continue
            n, m = rng.sample(ids, 2)
            if m in adj[n]:
                continue
            adj[n].add(m)
            adj[m].add(n)
            o = rng.choice([1, 1, 1, 2, 8])
            order[(n, m)] = order[(m, n)] = o
            edits.append(['add_bond', n, m, o])
        elif kind == 'delete_atom':
            if len(ids) < 3:
                continue
            n = rng.choice(ids)
            for m in adj.pop(n):
                adj[m].discard(n)
            edits.append(['delete_atom', n])
        elif kind == 'add_atom':
            if new:
                continue
            new = True
            n = rng.choice(ids)
            edits.append(['add_atom', rng.choice(['C', 'N', 'O', 'Cl', 'S'])])
            edits.append(['add_bond', n, -1, 1])
        elif kind == 'charge':
            edits.append(['charge', rng.choice(ids), rng.choice([-1, 1, 0])])
        else:
            edits.append(['radical', rng.choice(ids), rng.choice([0, 1])])
    return edits


def complexes(rng, mol, k=1):
    """attach k metal atoms by coordinate (order 8) bonds to heteroatoms, through the public API"""
    m = mol.copy()
    m._changed = None
    m._backup = None
    donors = [n for n, a in m._atoms.items() if a.atomic_number in (7, 8, 15, 16, 17)]
    if not donors:
        return None
    for _ in range(k):
        x = m.add_atom(rng.choice(METALS))
        for d in rng.sample(donors, min(len(donors), rng.randint(1, 2))):
            m.add_bond(d, x, 8)
    return m


def cations(rng, mol):
    """quaternise / protonate a ring nitrogen that carries a double bond (Kekule form), then optionally aromatise"""
    m = mol.copy()
    m._changed = None
    m._backup = None
    try:
        m.kekule()
    except Exception:
        return None
    cand = [n for n, a in m._atoms.items() if a.atomic_number == 7 and a._charge == 0 and a.in_ring and a._implicit_hydrogens == 0
            and sum(b.order for b in m._bonds[n].values()) == 3 and any(b.order == 2 for b in m._bonds[n].values())]
    if not cand:
        return None
    n = rng.choice(cand)
    m._atoms[n]._charge = 1
    if rng.random() < 0.7:
        x = m.add_atom('C')
        m.add_bond(n, x, 1)
    else:
        m.flush_cache()
        m.fix_structure()
    if rng.random() < 0.5:
        try:
            m.thiele()
        except Exception:
            return None
    return m


def rule_instances(ctx):
    """(name, molecule) for every rule of the three standardize tables (single / double / metal-organic): molecules the rule's own
    pattern matches, drawn from the live rule tables (pattern records of gen_rules, instantiation shared with C14's generator)."""
    if getattr(ctx, 'c04_rule_instances', None) is not None:
        return ctx.c04_rule_instances
    from ..gen import gen_rules
    from . import c14 as _c14
    std = gen_rules.tables()[0]
    from chython.algorithms.standardize._groups import single_rules, double_rules
    from chython.algorithms.standardize._metal_organics import rules as metal_rules
    live = {'single': single_rules, 'double': double_rules, 'metal': metal_rules}
    rng = ctx.rng
    per_rule = 1 if ctx.quick else 3
    out, missing = [], []
    for tname, recs in std.items():
        for idx, rec in enumerate(recs):
            got = 0
            for attempt in range(per_rule * 12):
                try:
                    inst = _c14.instantiate(rec, rng)
                    if inst is None:
                        continue
                    mol = _c14.build(inst[0], inst[1])
                    ok = next(live[tname][idx][0].get_mapping(mol, automorphism_filter=False), None) is not None
                except Exception:
                    continue
                if ok:
                    out.append((f'rule:{tname}[{idx}]#{got}', mol))
                    got += 1
                    if got >= per_rule:
                        break
            if not got:
                missing.append(f'{tname}[{idx}]')
    # two ligands of the same metal-organic rule on ONE metal atom (the overlap the `any_atoms` exception of `seen` is for)
    multi = 0
    for idx, rec in enumerate(std['metal']):
        ms = [n for n, a in rec['atoms'] if a['kind'] == 'metal']
        if len(ms) != 1:
            continue
        for attempt in range(6):
            try:
                z = rng.choice(_c14.MULTI_METALS)
                insts = [_c14.instantiate(rec, rng, [z], metal_charge=0) for _ in range(2)]
                if any(i is None for i in insts):
                    continue
                atoms, bonds = _c14._merge_on_metal(insts, [ms[0], ms[0]])
                mol = _c14.build(atoms, bonds)
                nm = sum(1 for _ in live['metal'][idx][0].get_mapping(mol, automorphism_filter=False))
            except Exception:
                continue
            if nm >= 2:
                out.append((f'rule:metal[{idx}]x2', mol))
                multi += 1
                break
    # metal already at charge +4: the rule's `+1` trips the documented abort (`charge > 4`: addition taken back, `break`)
    q4 = 0
    for idx, rec in enumerate(std['metal']):
        if not any(a['kind'] == 'metal' for _, a in rec['atoms']):
            continue
        for attempt in range(6):
            try:
                inst = _c14.instantiate(rec, rng, _c14.METALS_ALL, metal_charge=4)
                if inst is None:
                    continue
                mol = _c14.build(inst[0], inst[1])
                ok = next(live['metal'][idx][0].get_mapping(mol, automorphism_filter=False), None) is not None
            except Exception:
                continue
            if ok:
                out.append((f'rule:metal[{idx}]q4', mol))
                q4 += 1
                break
    ctx.dist('history/rules-without-instance', len(missing))
    ctx.dist('history/rule-instances-two-ligands', multi)
    ctx.dist('history/rule-instances-metal-charge-4', q4)
    if missing:
        ctx.notes.append(f'standardize rules without a generated instance: {missing[:20]}')
    ctx.c04_rule_instances = out
    return out


# ------------------------------------------------------------------------------------------------
# standardize(): every rule application recorded on the real code (the mappings its lazy matcher yielded, the molecule before and
# after) and replayed by the Lean model of the loop body + recount (Model/C04Standardize.lean)
# ------------------------------------------------------------------------------------------------

def rule_registry():
    """id(pattern) -> (table, index, atom_fix items in dict order, bonds_fix, any_atoms) of the live rule tables"""
    from chython.algorithms.standardize._groups import single_rules, double_rules
    from chython.algorithms.standardize._metal_organics import rules as metal_rules
    reg = {}
    for tname, tab in (('double', double_rules), ('single', single_rules), ('metal', metal_rules)):
        for idx, (pattern, atom_fix, bonds_fix, any_atoms, _t) in enumerate(tab):
            reg[id(pattern)] = (tname, idx, [(n, ch, ir) for n, (ch, ir) in atom_fix.items()], [tuple(b) for b in bonds_fix], list(any_atoms))
    return reg


def recorded_standardize(mol, kw, reg):
    """run mol.standardize(**kw) in place; returns [(rule info, wire before the rule, mappings yielded, wire after the rule)].
    The state after a rule is the state at the first mapping of the next matching rule (nothing else writes in between), and the
    state when standardize() returns for the last one."""
    from chython.containers import QueryContainer
    records = []
    had = 'get_mapping' in QueryContainer.__dict__
    orig = QueryContainer.get_mapping

    def wrapper(self, other, /, **kwargs):
        gen = orig(self, other, **kwargs)
        info = reg.get(id(self))
        if info is None or other is not mol:
            return gen

        def it():
            rec = None
            for mp in gen:
                if rec is None:
                    rec = [info, wire.mol_to_ints(other), []]
                    records.append(rec)
                rec[2].append(list(mp.items()))
                yield mp
        return it()

    QueryContainer.get_mapping = wrapper
    try:
        mol.standardize(**kw)
    finally:
        if had:
            QueryContainer.get_mapping = orig
        else:
            del QueryContainer.get_mapping
    final = wire.mol_to_ints(mol)
    return [(info, pre, maps, records[i + 1][1] if i + 1 < len(records) else final) for i, (info, pre, maps) in enumerate(records)]


def rule_part(info, maps):
    _t, _i, af, bf, ay = info
    xs = [len(af)]
    for n, ch, ir in af:
        xs += [n, ch, -1 if ir is None else int(ir)]
    xs.append(len(bf))
    for b in bf:
        xs += list(b)
    xs += [len(ay)] + list(ay)
    xs.append(len(maps))
    for mp in maps:
        xs.append(len(mp))
        for k, v in mp:
            xs += [k, v]
    return xs


def stdrule_request(info, pre, maps):
    return 'stdrule ' + ' '.join(map(str, rule_part(info, maps) + pre))


def stdchain_request(recs):
    xs = [len(recs)]
    for info, _pre, maps, _post in recs:
        xs += rule_part(info, maps)
    return 'stdchain ' + ' '.join(map(str, xs + recs[0][1]))


def stdrule_sources(ctx):
    rng = ctx.rng
    out = list(rule_instances(ctx))
    for name, m in list(out):
        if rng.random() < 0.25:
            try:
                v, how = renumbered(rng, m)
                out.append((f'{name}/renum-{how}', v))
            except Exception:
                pass
    for smi in HOP_HANDMADE + STD_HANDMADE:
        m = molgen.parse(smi)
        if m is not None:
            out.append((smi, m))
    out += molgen.corpus(rng, 40 if ctx.quick else 600)
    return out


STD_HANDMADE = ['CB(C)[N](C)(C)C', 'CB(C)[S](C)C', 'N#[C-][Fe]', 'N#C[Cu]', 'C[P](C)(C)[Pd](Cl)(Cl)[P](C)(C)C', 'C[N](C)(C)[Pt](Cl)Cl',
                'CN(=O)=O', 'C[N+](=O)[O-]', 'CS(=O)(=O)[O-]', 'C[S+](C)[O-]', 'CC(O)=C', 'OC1=CC=CC=N1', 'C[N+]#[C-]', 'CN=[N+]=[N-]', 'CN=N#N',
                'CC(=O)O[Na]', 'CC(=O)O[Cu]OC(C)=O', '[H]B1([H])[H]B([H])([H])[H]1', 'CCB(CC)N(C)=C', 'C[Mg]Br', 'CC[Li]', 'O=N(=O)c1ccc(cc1)N(=O)=O',
                'CN(C)(C)=O', 'CP(C)(C)=C', 'C[N+](C)(C)[O-]', 'OC=CC=O', 'NC(=O)C=C(O)C', 'ClC(Cl)=P(C)(C)C', 'C=[N+]=[N-]', '[O-][N+](=O)C=C[N+]([O-])=O']


def stdrule_stream(ctx):
    reg = rule_registry()
    reqs, meta = [], []
    chains = []
    variants = [{}, {}, {'fix_tautomers': False}, {'logging': True}]
    for name, src in stdrule_sources(ctx):
        kw = ctx.rng.choice(variants)
        c = src.copy()
        c._changed = None
        c._backup = None
        try:
            recs = recorded_standardize(c, kw, reg)
        except Exception as e:
            ctx.dist(f'stdrule/standardize-raised:{type(e).__name__}')
            continue
        ctx.dist('stdrule/molecules')
        if not recs:
            ctx.dist('stdrule/no-rule-matched')
        for info, pre, maps, post in recs:
            reqs.append(stdrule_request(info, pre, maps))
            meta.append((name, src, kw, info, pre, maps, post))
        if len(recs) > 1:
            chains.append((name, src, kw, recs))
    # the rule part of a whole standardize() call (first matching rule ... return) replayed as one chain by `stdRules`
    cresp = core.run_driver('C04', [stdchain_request(recs) for *_x, recs in chains]) if chains else []
    for (name, src, kw, recs), line in zip(chains, cresp):
        ctx.count(('stdchain', tuple(recs[0][1]), json.dumps([r[2] for r in recs])))
        ctx.dist('stdrule/chains-of-several-rules')
        if not (line.startswith('ok ') and structure_key([int(x) for x in line[3:].split()]) == structure_key(recs[-1][3])):
            ctx.cov['disagreements_checked'] += 1
            ctx.c04_bad_mols.append({'kind': 'history', 'name': name, 'wire': wire.mol_to_ints(src), 'ops': [['call', 'standardize', kw]]})
            if sum(1 for x in ctx.broken if x.name.startswith('stdchain/')) < 4:
                ctx.broke('correspondence', 'stdchain/standardize', f'{name} {src}: rules {[r[0][:2] for r in recs]}: model answered {line[:120]}')
    resp = core.run_driver('C04', reqs) if reqs else []
    for (name, src, kw, info, pre, maps, post), line in zip(meta, resp):
        changed = structure_key(pre) != structure_key(post)
        ctx.count(('stdrule', info[0], info[1], tuple(pre), json.dumps(maps)), nontrivial=changed)
        ctx.dist(f'stdrule/rule/{info[0]}' + ('/rewrites' if changed else '/all-mappings-skipped-or-no-op'))
        if any(o == 8 for *_x, nb in structure_key(pre) for _k, o in nb) != any(o == 8 for *_x, nb in structure_key(post) for _k, o in nb) \
                or sum(o == 8 for *_x, nb in structure_key(pre) for _k, o in nb) != sum(o == 8 for *_x, nb in structure_key(post) for _k, o in nb):
            ctx.dist('stdrule/coordinate-bonds-changed')
        if len(maps) > 1:
            ctx.dist('stdrule/several-mappings-yielded')
        ok = line.startswith('ok ') and structure_key([int(x) for x in line[3:].split()]) == structure_key(post)
        if not ok:
            ctx.cov['disagreements_checked'] += 1
            ctx.c04_bad_mols.append({'kind': 'history', 'name': name, 'wire': wire.mol_to_ints(src), 'ops': [['call', 'standardize', kw]]})
            if sum(1 for x in ctx.broken if x.name.startswith('stdrule/')) < 8:
                detail = f'{name} {src}: rule {info[0]}[{info[1]}] over {len(maps)} yielded mappings; '
                if line.startswith('ok '):
                    mk, rk = structure_key([int(x) for x in line[3:].split()]), structure_key(post)
                    detail += f'first differing atoms (real, model): {[(a, b) for a, b in zip(rk, mk) if a != b][:3]}'
                else:
                    detail += f'model answered {line[:80]}'
                ctx.broke('correspondence', f'stdrule/{info[0]}[{info[1]}]', detail)
    ctx.notes.append(f't+{ctx.elapsed():.0f}s standardize rule applications replayed by the model: {len(reqs)}')


def history_cases(ctx):
    """(name, source molecule, ops) triples"""
    rng = ctx.rng
    q = ctx.quick
    pool = []
    _HANDMADE_NAMES.clear()
    for smi in HOP_HANDMADE + ['OCCN(C)C', 'CC(C)CO', 'CCNCC', 'C1CCC1CS', 'CC(=O)CC', 'CC(=O)NC', 'C=CC#N', 'OCCN(C)~[Cu]', 'CS(CCO)~[Pd]',
                               'CN(C)CCN(C)~[Cu]', 'CC(=O)OC~[Zn]', 'Cn1cc[n+](C)c1', 'C[n+]1ccccc1', 'CC1=CNC=[NH+]1', 'c1cc[nH+]cc1', 'C[N+]1=CC=CN1C',
                               'CC(=O)[O-].[Na+]', 'C[N+](C)(C)CC([O-])=O', 'O=C1C=CNC=C1', 'Oc1ccncc1', 'NC(=N)N', 'CS(C)=O', 'C[S+](C)[O-]', 'CN=[N+]=[N-]',
                               'C[N+]([O-])=O', 'CN(=O)=O', 'OP(O)(O)=O', 'Cl[Pt](Cl)(N)N', 'N~[Pt](~N)(Cl)Cl', 'C1=CC=CC=C1', 'c1ccc2[nH]ccc2c1'] + SALTS:
        m = molgen.parse(smi)
        if m is not None:
            pool.append((smi, m))
            _HANDMADE_NAMES.add(smi)
    pool += molgen.handmade()[:: (3 if q else 1)]
    pool += molgen.corpus(rng, 40 if q else 500)
    derived = []
    for name, m in pool:
        for tag, f in (('complex', lambda x: complexes(rng, x, rng.randint(1, 2))), ('cation', lambda x: cations(rng, x)),
                       ('mixedH', lambda x: make_mixed(rng, x))):
            if rng.random() < (0.5 if q else 0.8):
                try:
                    d = f(m)
                except Exception:
                    d = None
                if d is not None:
                    derived.append((f'{name}/{tag}', d))
    pool += derived
    # numbering: the same molecules with gaps / shifted / permuted numbers (atom-mapped input, leftovers of delete_atom or
    # substructure); every history family below runs on them too
    renum = []
    for name, m in pool:
        if len(m) >= 2 and rng.random() < (0.35 if q else 0.6):
            try:
                v, how = renumbered(rng, m)
            except Exception:
                continue
            renum.append((f'{name}/renum-{how}', v))
    pool += renum
    ctx.dist('history/renumbered-sources', len(renum))
    cases = []
    # H-writing operations on the renumbered sources and after a cut (the result of delete_atom / substructure / split / `-`
    # has numbering gaps and cut atoms whose counts were just recalculated)
    for name, m in renum:
        for meth, kw in H_WRITERS[:3]:
            cases.append((name, m, [['call', meth, kw]]))
    for name, m in pool:
        if len(m) < 3:
            continue
        for _ in range(1 if q else 2):
            ids = list(m._atoms)
            cut = rng.choice(['delete-low', 'delete', 'substructure', 'sub', 'split'])
            if cut == 'delete-low':
                first = [['edits', [['delete_atom', min(ids)]]]]
            elif cut == 'delete':
                first = [['edits', [['delete_atom', rng.choice(ids)]]]]
            elif cut == 'split':
                first = [['edits', [['delete_atom', rng.choice(ids)]]], ['split']]
            else:
                first = [[cut, random_subset(rng, m)]]
            meth, kw = rng.choice(H_WRITERS[:3]) if rng.random() < 0.5 else rng.choice(H_WRITERS)
            cases.append((name, m, first + [['call', meth, kw]]))
    # every standardize rule on a molecule drawn from its own pattern (groups, tautomers, covalently drawn donor-acceptor and
    # metal-organic bonds): the rule rewrites charges / bond orders (covalent <-> coordinate) and recounts the touched atoms
    insts = rule_instances(ctx)
    for name, m in insts:
        cases.append((name, m, [['call', 'standardize', {}]]))
        meth, kw = rng.choice([('canonicalize', {}), ('standardize', {'fix_tautomers': False}), ('canonicalize', {'keep_kekule': True}),
                               ('standardize', {'logging': True})])
        cases.append((name, m, [['call', meth, kw]]))
        if rng.random() < 0.3:
            try:
                v, how = renumbered(rng, m)
                cases.append((f'{name}/renum-{how}', v, [['call', 'standardize', {}]]))
            except Exception:
                pass
    ctx.dist('history/rule-instances', len(insts))
    # generators of new molecules (Kekule forms, tautomers, charged forms) and the salt operations on salts
    for name, m in pool:
        if len(m) >= 2 and rng.random() < (0.25 if q else 0.15):
            meth, kw = rng.choice(ENUMERATORS)
            cases.append((name, m, [['enumerate', meth, kw]]))
        if name in SALTS or name.split('/')[0] in SALTS:
            for meth in ('remove_acids', 'split_metal_salts', 'remove_metals', 'neutralize'):
                cases.append((name, m, [['call', meth, {}]]))
            cases.append((name, m, [['call', 'split_metal_salts', {}], ['call', rng.choice(['remove_metals', 'neutralize', 'canonicalize']), {}]]))
    # charge-separated / radical resonance drawings of push-pull systems and polyenes (C14's generator): fix_resonance moves
    # charges, radicals and bond orders along a path and recounts the path atoms
    try:
        from . import c14 as _c14
        dip = _c14.resonance_instances()
    except Exception as e:
        dip = []
        ctx.notes.append(f'resonance drawings not generated: {type(e).__name__}: {e}'[:200])
    for name, m, *_ in dip[:: (2 if q else 1)]:
        cases.append((name, m, [['call', 'fix_resonance', {}]]))
        cases.append((name, m, [['call', rng.choice(['standardize', 'canonicalize']), {}]]))
    ctx.dist('history/resonance-drawings', len(dip))
    # charged heteroaromatics (ring nitrogen quaternised / protonated, charge possibly not on the canonical atom): every option
    # combination of the standardisation entry points, because the rarely used paths restore / move bond orders and charges
    charged = [(n, m) for n, m in pool if n.endswith('/cation') or (any(a._charge for a in m._atoms.values()) and len(pool) and n in _HANDMADE_NAMES)]
    smis = [x for x in molgen.corpus_smiles() if 'n' in x]
    for i in rng.sample(range(len(smis)), min(len(smis), 25 if q else 250)):
        m = molgen.parse(smis[i])
        if m is None:
            continue
        for j in range(2):
            try:
                d = cations(rng, m)
            except Exception:
                d = None
            if d is not None:
                charged.append((f'corpus-n[{i}]/cation{j}', d))
    for name, m in charged:
        for meth, kw in CALL_VARIANTS:
            if meth in ('canonicalize', 'standardize', 'standardize_charges', 'neutralize', 'thiele', 'kekule', 'fix_resonance'):
                cases.append((name, m, [['call', meth, kw]]))
    ctx.dist('history/charged-heteroaromatics', len(charged))
    for name, m in pool:
        if len(m) < 2:
            continue
        reps = 2 if q else 3
        for _ in range(reps):   # operations with (non-default) options, sometimes two in a row
            ops = [['call', *rng.choice(CALL_VARIANTS)]]
            if rng.random() < 0.3:
                ops.append(['call', *rng.choice(CALL_VARIANTS)])
            cases.append((name, m, ops))
        for _ in range(reps):   # cutting: substructure / & / - / augmented / split / union
            sel = random_subset(rng, m)
            kind = rng.choice(['substructure', 'and', 'sub', 'augmented', 'augmenteds', 'split', 'union', 'copy', 'ior', 'union_inplace', 'pack'])
            if kind in ('substructure', 'and', 'sub'):
                ops = [[kind, sel]]
            elif kind in ('augmented', 'augmenteds'):
                ops = [[kind, sel[:2], rng.randint(0, 2)]]
            elif kind == 'union':
                ops = [['union', rng.choice(['O', 'C[NH3+]', '[Na+]', 'c1ccccc1'])], ['substructure', sel]]
            elif kind == 'pack':
                ops = [['pack', rng.random() < 0.7, rng.choice(['pack', 'pach', 'pack-reversed', 'bytes'])]]
            elif kind in ('ior', 'union_inplace'):   # merge in place; numbers colliding (remapped by union) or already disjoint
                ops = [[kind, rng.choice(['O', 'C[NH3+]', '[Na+]', 'C[CH2] |^1:1|', 'CC(=O)[O-]', '[Cl-]']), rng.choice([0, 1, 5])]]
            else:
                ops = [[kind]]
            if rng.random() < 0.25:
                ops.append(['call', *rng.choice(CALL_VARIANTS)])
            cases.append((name, m, ops))
        for _ in range(reps):   # edit histories: transaction / postponed batch / one by one, 1..3 edits
            edits = random_edits(rng, m, rng.randint(1, 3), attribute_edits=ATTRIBUTE_EDITS_IN_TRANSACTIONS)
            if not edits:
                continue
            mode = rng.choice(['transaction', 'transaction', 'batch', 'edits'])
            if mode != 'transaction':
                edits = [e for e in edits if e[0] not in ('charge', 'radical')]
                if not edits:
                    continue
            ops = [[mode, edits]]
            if rng.random() < 0.2:
                ops.append(['transaction', random_edits(rng, m, 1) or [['add_atom', 'C']]])
            cases.append((name, m, ops))
    return cases


ATTRIBUTE_EDITS_IN_TRANSACTIONS = True   # documented usage: `with mol: mol.atom(n).charge = q` (fixed defect C04/transaction/direct-edit)
_HANDMADE_NAMES = set()


def run_history(src, ops):
    """('ok', results) | (error class, None): library errors and rejected edits are not results to judge"""
    from chython.exceptions import ValenceError, MappingError, AtomNotFound, InvalidAromaticRing, ImplementationError
    try:
        return 'ok', apply_history(src, ops)
    except (ValenceError, MappingError, AtomNotFound, InvalidAromaticRing, ImplementationError) as e:
        return 'lib:' + type(e).__name__, None
    except (KeyError, ValueError, IndexError, TypeError, AttributeError, StopIteration) as e:
        return 'E:' + type(e).__name__, None


def history_stream(ctx):
    cases = history_cases(ctx)
    done = []
    reqs = []
    for name, src, ops in cases:
        status, results = run_history(src, ops)
        kind = ops[0][1] if ops[0][0] == 'call' else ops[0][0]
        ctx.dist(f'history/{kind}/{status}')
        if results is None:
            continue
        done.append((name, src, ops, results, len(reqs)))
        reqs += ['mol ' + wire.mol_to_line(r) for r in results]
    resp = core.run_driver('C04', reqs) if reqs else []
    for name, src, ops, results, off in done:
        model = []
        for i, r in enumerate(results):
            d = parse_mol_line(resp[off + i])
            model.append((dict(zip(r._atoms, d.get('calc', '').split())), dict(zip(r._atoms, d.get('chk', '').split()))))

        def calc_of(ri, n, cx):
            v = model[ri][0].get(n)
            return None if v in (None, '-1', 'E') else int(v)

        def accepts(ri, n, cx, h):
            return model[ri][1].get(n) == '1'

        bad = judge_history(src, results, calc_of, accepts, ops)
        for i, r in enumerate(results):   # totals as the (possibly cached) object answers them vs the model's sums over the result
            d = parse_mol_line(resp[off + i])
            exp = [int(d.get('q', '0')), d.get('rad') == '1', d.get('brutto'), d.get('mass', '')]
            if isinstance(exp[2], str) and not exp[2].startswith('E:'):
                exp[2] = {}
            for what, got, want in aggregates_agree(read_aggregates(r), exp):
                bad.append((i, 'totals', what, '', str(got)[:120], str(want)[:120], []))
            for n, sym, got, want in total_hydrogens_bad(r)[:2]:
                bad.append((i, n, sym, 'total_hydrogens', got, want, []))
            for n, k in one_sided_bonds(r)[:2]:
                bad.append((i, n, r._atoms[n].atomic_symbol, 'one-sided bond', k, '', []))
        key = (wire.mol_to_line(src), json.dumps(ops))
        ctx.count(('history', key), nontrivial=any(atom_ctx(r, n) != (atom_ctx(src, n) if n in src._atoms else None)
                                                  for r in results for n in r._atoms))
        if bad:
            ctx.cov['disagreements_checked'] += 1
            ctx.c04_bad_mols.append({'kind': 'history', 'name': name, 'wire': wire.mol_to_ints(src), 'ops': ops})
            kind = ops[0][1] if ops[0][0] == 'call' else ops[0][0]
            if sum(1 for x in ctx.broken if x.name.startswith('history/')) < 10:
                ctx.broke('relational', f'history/{kind}', f'{name} {src}: after {json.dumps(ops)[:300]} -> {[str(r) for r in results][:3]}: '
                          f'(result, atom, element, charge, stored count, model calc_implicit, bonds) {bad[:3]}')
    ctx.notes.append(f't+{ctx.elapsed():.0f}s operation histories judged: {len(done)} of {len(cases)} ran')


def history_oracle(src, ops, known_gaps=True):
    """the same clause judged with the raw element tables on the real code (no Lean model)"""
    status, results = run_history(src, ops)
    if results is None:
        return []

    def calc_of(ri, n, cx):
        return spec_h(cx[0], cx[1], cx[2], list(cx[3]))[0]

    def accepts(ri, n, cx, h):
        return h in spec_h(cx[0], cx[1], cx[2], list(cx[3]))[1]

    kind = ops[0][1] if ops[0][0] == 'call' else ops[0][0]
    for r in results:
        stale = aggregates_agree(read_aggregates(r), recount_aggregates(r))
        if stale:
            what, got, want = stale[0]
            return [(f'C04/history/{kind}/totals-are-not-the-sums-over-atoms',
                     f'{src} (formula, charge, radical flag and mass read before) after {json.dumps(ops)[:300]} -> {r.copy()}: {what} answers {got}, '
                     f'the atoms give {want}')]
    for r in results:
        lone = one_sided_bonds(r)
        if lone:
            return [(f'C04/history/{kind}/bond-known-to-one-atom-only',
                     f'{src} (atom numbers {sorted(src._atoms)}) after {json.dumps(ops)[:300]}: bonds {lone} are known to their first atom only; '
                     f'atoms now {[(n, a.atomic_symbol) for n, a in r._atoms.items()][:12]}')]
        th = total_hydrogens_bad(r)
        if th:
            n, sym, got, want = th[0]
            return [(f'C04/history/{kind}/total-hydrogens-is-not-implicit-plus-explicit',
                     f'{src} after {json.dumps(ops)[:300]} -> {r}: atom {n} ({sym}) answers total_hydrogens={got}, stored count + hydrogen neighbours = {want}')]
    bad = judge_history(src, results, calc_of, accepts, ops, known_gaps)
    if not bad:
        return []
    ri, n, sym, q, mark, want, bonds = bad[0]
    res = results[ri]
    if not known_gaps and split_coordinate_gap(src, res, n, ops):
        return [('C04/split_metal_salts/coordinate-bond-split-as-ionic',
                 f'{src} after {json.dumps(ops)[:200]} -> {res}: atom {n} ({sym}, q={q}) carries implicit_hydrogens={mark} with bonds {bonds}, '
                 f'the element tables give {want}; check_valence()={res.check_valence()}')]
    return [(f'C04/history/{kind}/stored-count-is-not-the-rules-count',
             f'{src} after {json.dumps(ops)[:300]} -> {res}: atom {n} ({sym}, q={q}) carries implicit_hydrogens={mark} with bonds {bonds}, '
             f'the element tables give {want}; check_valence()={res.check_valence()}; {len(bad)} such atoms')]

# ------------------------------------------------------------------------------------------------
# readers: the counts a reader leaves on bracket atoms (stated H explained by another valence state, by a guessed radical, or not at
# all) must be counts the rules accept for the atom *as it is left* (its charge, its radical flag, its bonds)
# ------------------------------------------------------------------------------------------------

READER_ELEMENTS_QUICK = ['B', 'C', 'N', 'O', 'F', 'Al', 'Si', 'P', 'S', 'Cl', 'Ge', 'As', 'Se', 'Br', 'Sn', 'I']
READER_SHAPES = ['{X}', 'C{X}', 'C{X}C', 'CC(C)(C){X}', 'C{X}(C)C', 'C{X}(C)(C)C', 'O={X}C', 'F{X}', 'C#{X}', 'O{X}=O', 'C{X}(=O)=O', 'N{X}',
                 'C=C{X}', 'Cl{X}(Cl)Cl']


def reader_texts(ctx):
    """SMILES with one bracket atom: element x stated hydrogens 0..4 x charge x surroundings, with/without a CXSMILES radical mark"""
    rng = ctx.rng
    els = list(READER_ELEMENTS_QUICK)
    if not ctx.quick:
        from chython.periodictable import Element
        els += [c.__name__ for c in Element.__subclasses__() if c.__name__ not in els and c.__name__ != 'H']
    out = []
    for el in els:
        for h in range(5):
            for q in ('', '+', '-'):
                if q and el not in READER_ELEMENTS_QUICK[:12] and rng.random() < 0.5:
                    continue
                atom = f"[{el}{'H' + (str(h) if h > 1 else '') if h else ''}{q}]"
                for shape in READER_SHAPES:
                    if not ctx.quick or el in READER_ELEMENTS_QUICK:
                        out.append(shape.replace('{X}', atom))
    # stated radicals (CXSMILES) on the bracket atom of a few shapes
    for el in READER_ELEMENTS_QUICK:
        for h in range(4):
            atom = f"[{el}{'H' + (str(h) if h > 1 else '') if h else ''}]"
            out.append(f'{atom}C |^1:0|')
            out.append(f'C{atom}C |^1:1|')
    return out


def reader_bad_atoms(mol, accepted):
    """atoms with localised bonds whose stored count is not accepted for the atom as it is; `accepted(n, ctx, h)`"""
    bad = []
    for n, a in mol._atoms.items():
        cx = atom_ctx(mol, n)
        h = a._implicit_hydrogens
        if h is None or any(o == 4 for o, _ in cx[3]):
            continue
        if not accepted(n, cx, h):
            bad.append((n, a.atomic_symbol, cx[1], cx[2], h, list(cx[3])))
    return bad


def reader_stream(ctx):
    from chython import smiles
    texts = reader_texts(ctx)
    parsed = []
    for t in texts:
        try:
            m = smiles(t)
        except Exception as e:
            ctx.dist(f'reader/rejected:{type(e).__name__}')
            continue
        parsed.append((t, m))
    resp = core.run_driver('C04', ['mol ' + wire.mol_to_line(m) for _, m in parsed])
    for (t, m), line in zip(parsed, resp):
        chk = dict(zip(m._atoms, parse_mol_line(line).get('chk', '').split()))
        bad = reader_bad_atoms(m, lambda n, cx, h: chk.get(n) == '1')
        mism = bool(m.meta.get('chython_implicit_mismatch')) if m._meta else False
        ctx.count(('reader', t))
        ctx.dist('reader/radical-guessed' if any(a._is_radical for a in m._atoms.values()) and '|' not in t else
                 'reader/mismatch-kept-calculated' if mism else 'reader/as-stated')
        if bad:
            ctx.cov['disagreements_checked'] += 1
            ctx.c04_bad_mols.append({'kind': 'reader', 'smiles': t})
            if sum(1 for x in ctx.broken if x.name.startswith('reader/')) < 8:
                ctx.broke('relational', 'reader/smiles/stored-count-accepted-by-check_implicit',
                          f'{t} -> {m}: (atom, element, charge, radical, stored count, bonds) not accepted by the model check_implicit: {bad[:3]}')
    ctx.notes.append(f't+{ctx.elapsed():.0f}s reader texts judged: {len(parsed)} of {len(texts)} accepted by the reader')


def reader_oracle(text):
    from chython import smiles
    try:
        m = smiles(text)
    except Exception:
        return []
    bad = reader_bad_atoms(m, lambda n, cx, h: h in spec_h(cx[0], cx[1], cx[2], list(cx[3]))[1])
    if not bad:
        return []
    n, sym, q, rad, h, bonds = bad[0]
    allowed = sorted(spec_h(a := None or m._atoms[n].atomic_number, q, rad, bonds)[1])
    return [('C04/reader/stored-count-not-in-tables',
             f'smiles({text!r}) -> {m}: atom {n} ({sym}, q={q}, radical={rad}) carries implicit_hydrogens={h} with bonds {bonds}; the element tables allow '
             f'{allowed} for that state; check_valence()={m.check_valence()}')]

# ------------------------------------------------------------------------------------------------
# correspondence
# ------------------------------------------------------------------------------------------------

def correspond(ctx):
    ctx.notes.append(f't+{ctx.elapsed():.0f}s build+audit done')
    ctx.c04_bad_ctx = []
    ctx.c04_bad_mols = []
    ctx.cov['programs'] = 13  # Standardize.__standardize loop body + recount (per rule, recorded mappings), implicify_hydrogens, explicify_hydrogens, check_implicit on stored marks after canonicalize/standardize/kekule/thiele, _compiled_valence_rules, calc_implicit, check_implicit, check_valence, fix_structure, brutto, molecular_charge, is_radical, molecular_mass
    if not ctx.build_ok:
        # a table theorem of Props/C04.lean failing does not stop the driver (Model + Gen only) from building
        ok, out, _ = core.lake_build(['drv_c04'])
        if not ok:
            ctx.notes.append('Lean build failed including the driver: driver streams skipped')
            return
        ctx.notes.append('Props/C04.lean failed to build; the driver built, correspondence streams run anyway')
    from chython.periodictable import Element

    # -- stream 1: compiled tables of all 118 elements ------------------------------------------
    zs = sorted(c.atomic_number.fget(None) for c in Element.__subclasses__())
    resp = core.run_driver('C04', [f'rules {z}' for z in zs])
    for z, line in zip(zs, resp):
        real, model = real_rules(z), parse_rules(line)
        if isinstance(real, dict):
            for k in real:
                ctx.count(('rules', z, k))
            ctx.dist('rules/keys', len(real))
        if real != model:
            ctx.cov['disagreements_checked'] += 1
            detail = f'real={real!r:.600} model={model!r:.600}'
            if isinstance(real, dict) and isinstance(model, dict):
                dk = [k for k in set(real) | set(model) if real.get(k) != model.get(k)]
                detail = f'keys differing {sorted(dk)[:6]}: real={[real.get(k) for k in sorted(dk)[:2]]} model={[model.get(k) for k in sorted(dk)[:2]]}'
            ctx.broke('correspondence', f'compiled_valence_rules/Z={z}', detail)
            ctx.c04_bad_ctx.append({'kind': 'rules', 'z': z})
    ctx.sample({'stream': 'rules', 'request': 'rules 8', 'response': resp[zs.index(8)][:160] + ' ...'})

    # -- stream 2: exhaustive grid ---------------------------------------------------------------
    reduced = ctx.quick  # quick: H, F, Cl neighbours single-bonded only (731 500 contexts); thorough: all 24 bond kinds (2 047 500)
    quick = ctx.quick
    ms = multisets(bond_types(reduced))
    tasks = [(z, c, r, reduced) for z in ORGANIC for c in CHARGES for r in (0, 1)]
    reqs = []
    body = ' '.join(f'{len(b)} ' + ' '.join(f'{o} {nz}' for o, nz in b) if b else '0' for b in ms)
    for z, c, r, _ in tasks:
        reqs.append(f'calcs {z} {c} {r} {HMAX} {len(ms)} {body}')
    workers = max(1, min(12, (os.cpu_count() or 2) - 2))
    t0 = time.time()
    with mp.get_context('fork').Pool(workers) as pool:
        real_async = pool.map_async(_grid_task, tasks, chunksize=1)
        model = core.run_driver('C04', reqs)
        real = dict(real_async.get(timeout=3000))
    ctx.notes.append(f'grid: {len(tasks)} x {len(ms)} contexts, {workers} workers, {time.time() - t0:.1f}s')
    for (z, c, r, _), line in zip(tasks, model):
        mres = line.split()
        rres = real[(z, c, r)]
        if len(mres) != len(rres):
            ctx.broke('correspondence', f'grid/{z}/{c}/{r}', f'driver answered {line[:200]}')
            continue
        for b, a, e in zip(ms, mres, rres):
            ctx.count(('ctx', z, c, r, b), nontrivial=bool(b))
            if a != e:
                ctx.cov['disagreements_checked'] += 1
                if len(ctx.c04_bad_ctx) < 400:
                    ctx.c04_bad_ctx.append({'kind': 'ctx', 'z': z, 'charge': c, 'radical': r, 'bonds': [list(x) for x in b]})
                if sum(1 for x in ctx.broken if x.name.startswith('grid/')) < 12:
                    ctx.broke('correspondence', f'grid/calc_implicit+check_implicit/Z={z}/q={c}/rad={r}',
                              f'bonds={b} real(h:checkmask)={e} model={a}')
        ctx.dist(f'grid/valid/Z={z}', sum(1 for x in rres if not x.startswith('-1')))
        ctx.dist(f'grid/none/Z={z}', sum(1 for x in rres if x.startswith('-1')))
    ctx.sample({'stream': 'grid', 'context': {'z': 7, 'charge': 1, 'radical': 0, 'bonds': ms[200]},
                'real h:checkmask': real[(7, 1, 0)][200], 'model': model[tasks.index((7, 1, 0, reduced))].split()[200]})
    ctx.exhaustive = not any(b.name.startswith('grid/') and 'driver answered' in b.detail for b in ctx.broken)

    ctx.notes.append(f't+{ctx.elapsed():.0f}s grid compared')
    # -- stream 3: random contexts: any element, aromatic / special bonds, charges -4..4 -----------
    rng = ctx.rng
    reqs, cases = [], []
    for i in range(3000 if quick else 40000):
        z = rng.choice(zs) if rng.random() < 0.6 else rng.choice(ORGANIC)
        c = rng.choice([0, 0, 0, 1, -1, 2, -2, 3, -3, 4, -4])
        r = int(rng.random() < 0.15)
        k = rng.choice([0, 1, 1, 2, 2, 3, 3, 4, 4, 5, 6, 8])
        arom = rng.random() < 0.3
        b = []
        for _ in range(k):
            o = rng.choice([1, 1, 1, 2, 2, 3, 8, 4] if not arom else [4, 4, 4, 1, 2])
            nz = rng.choice(NEIGHBOURS) if rng.random() < 0.7 else rng.choice(zs)
            b.append((o, nz))
        cases.append((z, c, r, tuple(b)))
        reqs.append(f'calcs {z} {c} {r} {HMAX} 1 {len(b)} ' + ' '.join(f'{o} {nz}' for o, nz in b))
    resp = core.run_driver('C04', reqs)
    for (z, c, r, b), line in zip(cases, resp):
        h, mask = real_calc(z, c, r, b)
        ctx.count(('rctx', z, c, r, tuple(sorted(b))), nontrivial=bool(b))
        ctx.dist('random/aromatic' if any(o == 4 for o, _ in b) else 'random/localised')
        if line.strip() != f'{h}:{mask}':
            ctx.cov['disagreements_checked'] += 1
            ctx.c04_bad_ctx.append({'kind': 'ctx', 'z': z, 'charge': c, 'radical': r, 'bonds': [list(x) for x in b]})
            if sum(1 for x in ctx.broken if x.name.startswith('random/')) < 8:
                ctx.broke('correspondence', f'random/calc_implicit+check_implicit/Z={z}', f'q={c} rad={r} bonds={b} real={h}:{mask} model={line}')

    ctx.notes.append(f't+{ctx.elapsed():.0f}s random contexts done')
    # -- stream 3b: rule-driven contexts: every exception of every element fires (exact environment, with 0..h of the
    #    hydrogens explicit, one neighbour more, one less, one neighbour exchanged); thorough: all elements x small grid
    cases = []
    for z in zs:
        for c, r, v, env, h in spec_rules(z):
            base = tuple(sorted(env.elements()))
            rest = v - sum(o for o, _ in base)  # explicit hydrogens that still fit
            for k in range(0, max(rest, 0) + 1):
                cases.append((z, c, int(r), base + ((1, 1),) * k))
            cases.append((z, c, int(r), base + ((1, 6),)))
            cases.append((z, c, int(r), base + ((2, 8),)))
            if base:
                i = rng.randrange(len(base))
                cases.append((z, c, int(r), base[:i] + base[i + 1:]))
                cases.append((z, c, int(r), base[:i] + ((base[i][0], rng.choice(NEIGHBOURS)),) + base[i + 1:]))
    if not quick_tier(ctx):
        small = multisets([(1, 1), (1, 6), (2, 6), (1, 8), (2, 8), (1, 7), (1, 17), (1, 9)])
        small = [b for b in small if len(b) <= 3]
        for z in zs:
            for c in range(-4, 5):
                for r in (0, 1):
                    cases += [(z, c, r, b) for b in small]
    cases = sorted(set(cases))
    by = {}
    for z, c, r, b in cases:
        by.setdefault((z, c, r), []).append(b)
    keys = sorted(by)
    reqs = [f'calcs {z} {c} {r} {HMAX} {len(by[(z, c, r)])} ' +
            ' '.join(f'{len(b)} ' + ' '.join(f'{o} {nz}' for o, nz in b) if b else '0' for b in by[(z, c, r)])
            for z, c, r in keys]
    resp = core.run_driver('C04', reqs)
    fired = 0
    for (z, c, r), line in zip(keys, resp):
        mres = line.split()
        for b, a in zip(by[(z, c, r)], mres):
            h, mask = real_calc(z, c, r, b)
            ctx.count(('rule-ctx', z, c, r, b), nontrivial=bool(b))
            fired += h >= 0
            if a != f'{h}:{mask}':
                ctx.cov['disagreements_checked'] += 1
                ctx.c04_bad_ctx.append({'kind': 'ctx', 'z': z, 'charge': c, 'radical': r, 'bonds': [list(x) for x in b]})
                if sum(1 for x in ctx.broken if x.name.startswith('rule-driven/')) < 8:
                    ctx.broke('correspondence', f'rule-driven/calc_implicit+check_implicit/Z={z}', f'q={c} rad={r} bonds={b} real={h}:{mask} model={a}')
        if len(mres) != len(by[(z, c, r)]):
            ctx.broke('correspondence', f'rule-driven/Z={z}', f'driver answered {line[:200]}')
    ctx.dist('rule-driven/contexts', len(cases))
    ctx.dist('rule-driven/with-valence-state', fired)

    ctx.notes.append(f't+{ctx.elapsed():.0f}s rule-driven done')
    # -- stream 4: molecules ---------------------------------------------------------------------
    mols = molecule_stream(ctx)
    mols += hop_stream(ctx)   # stream 5: implicify/explicify vs model; results of all H-writing operations observed below
    ctx.notes.append(f't+{ctx.elapsed():.0f}s molecule + H-op streams generated')
    lines = [wire.mol_to_line(m) for _, m in mols]
    resp = core.run_driver('C04', ['mol ' + l for l in lines])
    # malformed: atom that does not exist
    for (name, m), wl, line in zip(mols, lines, resp):
        real = real_mol_line(m, None)
        model = parse_mol_line(line)
        nontriv = any(len(v) for v in m._bonds.values())
        ctx.count(('mol', wl), nontrivial=nontriv)
        ctx.dist('mol/atoms<=10' if len(m) <= 10 else 'mol/atoms<=30' if len(m) <= 30 else 'mol/atoms>30')
        if real['cv']:
            ctx.dist('mol/with-valence-error')
        if isinstance(real['brutto'], str):
            ctx.dist('mol/brutto-TypeError')
        bad = [k for k in ('calc', 'chk', 'cv', 'fixcv', 'q', 'rad') if real[k] != model.get(k)]
        if not brutto_agrees(real['brutto'], model.get('brutto')):
            bad.append('brutto')
        if not mass_agrees(real['mass'], model.get('mass', '')):
            bad.append('mass')
        if bad:
            ctx.cov['disagreements_checked'] += 1
            ctx.c04_bad_mols.append({'kind': 'mol', 'name': name, 'wire': wire.mol_to_ints(m)})
            if sum(1 for x in ctx.broken if x.name.startswith('molecule/')) < 8:
                ctx.broke('correspondence', 'molecule/' + '+'.join(bad),
                          f'{name}: ' + '; '.join(f'{k}: real={real[k]!r:.200} model={model.get(k)!r:.200}' for k in bad))
    if mols:
        ctx.sample({'stream': 'mol', 'name': mols[3][0], 'request': 'mol ' + lines[3][:120], 'response': resp[3][:200]})
    # missing atom: calc_implicit(n) raises KeyError, the model reports failure
    ctx.notes.append(f't+{ctx.elapsed():.0f}s molecules compared: {len(mols)}')
    # -- stream 7: operation histories (options, cutting, transactions) judged with the model's calc_implicit / check_implicit
    history_stream(ctx)
    # -- stream 8: readers (bracket atoms with stated hydrogens)
    reader_stream(ctx)
    # -- stream 9: every rule application of standardize() replayed by the model of the loop body + recount
    stdrule_stream(ctx)


# ------------------------------------------------------------------------------------------------
# property-level oracles (never consult the Lean model)
# ------------------------------------------------------------------------------------------------

def spec_rules(z):
    """Declarative reading of the element tables: priority-ordered list of (charge, radical, explicit valence, env, h)."""
    cls = _cls(z)
    common = tuple(cls._common_valences.fget(None))
    out = []
    if common[0] and z != 1:
        out += [(0, False, common[0] - h, Counter(), h) for h in range(common[0] + 1)]
        out += [(0, False, v, Counter(), 0) for v in common[1:]]
    else:
        out += [(0, False, v, Counter(), 0) for v in common]
    from chython.periodictable import Element
    for c, r, imp, env in cls._valences_exceptions.fget(None):
        e = Counter((b, Element.from_symbol(s).atomic_number.fget(None)) for b, s in env)
        ex = sum(b for b, _ in env)
        if imp:
            out += [(c, r, ex + imp - h, e, h) for h in range(imp + 1)]
        else:
            out.append((c, r, ex, e, 0))
    return out


def spec_h(z, charge, radical, bonds):
    """(first-match H | None, set of all H values some rule allows) from the raw tables."""
    if z == 1:
        return 0, {0}
    arom = sum(1 for o, _ in bonds if o == 4)
    loc = [(o, nz) for o, nz in bonds if o not in (4, 8)]
    v = sum(o for o, _ in loc)
    if arom:
        if charge or radical or z != 6:
            return None, set()
        return ({(2, 0): 1, (2, 1): 0, (3, 0): 0}.get((arom, v)), set())
    have = Counter(loc)
    hs = [h for c, r, vv, env, h in spec_rules(z) if (c, bool(r), vv) == (charge, bool(radical), v)
          and all(have[k] >= n for k, n in env.items())]
    return (hs[0] if hs else None), set(hs)


def rdkit_h(z, charge, radical, bonds):
    """RDKit's total H on the central atom; None = RDKit rejects the valence; 'n/a' = not expressible."""
    from rdkit import Chem, RDLogger
    RDLogger.DisableLog('rdApp.*')
    bt = {1: Chem.BondType.SINGLE, 2: Chem.BondType.DOUBLE, 3: Chem.BondType.TRIPLE}
    if any(o not in bt for o, _ in bonds):
        return 'n/a'
    rw = Chem.RWMol()
    a = Chem.Atom(z)
    a.SetFormalCharge(charge)
    a.SetNumRadicalElectrons(1 if radical else 0)
    rw.AddAtom(a)
    for i, (o, nz) in enumerate(bonds, 1):
        b = Chem.Atom(nz)
        b.SetNoImplicit(True)
        rw.AddAtom(b)
        rw.AddBond(0, i, bt[o])
    at = rw.GetAtomWithIdx(0)
    try:
        at.UpdatePropertyCache(strict=True)
    except Exception:
        return None
    return at.GetTotalNumHs()


def ctx_oracle(z, charge, radical, bonds, rng=None):
    """Run every atom-level oracle on the real code. Returns list of (signature, what)."""
    bonds = [tuple(b) for b in bonds]
    out = []
    h, mask = real_calc(z, charge, radical, bonds)
    hh = None if h < 0 else h
    tag = f'Z={z}'
    exp, allowed = spec_h(z, charge, radical, bonds)
    if hh != exp:
        out.append(('C04/calc-vs-tables', f'calc_implicit gives {hh}, the first matching rule of the element tables gives {exp} for bonds {bonds}'))
    if not any(o == 4 for o, _ in bonds) and z != 1:
        for i in range(HMAX + 1):
            if bool(mask >> i & 1) != (i in allowed):
                out.append(('C04/check-vs-tables', f'check_implicit(h={i}) is {bool(mask >> i & 1)}, tables say {i in allowed} for bonds {bonds}'))
                break
    if hh is not None and not any(o == 4 for o, _ in bonds) and not (mask >> hh & 1) and hh <= HMAX:
        out.append(('C04/check-of-calc', f'calc_implicit gives {hh} but check_implicit({hh}) is False for bonds {bonds}'))
    # OpenSMILES normal valence (organic subset, neutral, non-radical, localised bonds, v <= lowest normal valence)
    if z in NORMAL_VALENCE and not charge and not radical and all(o in (1, 2, 3) for o, _ in bonds):
        v = sum(o for o, _ in bonds)
        v0 = NORMAL_VALENCE[z][0]
        if v <= v0 and hh != v0 - v:
            out.append((f'C04/organic-reference/{tag}', f'calc_implicit gives {hh}; normal valence {v0} with bond order sum {v} requires {v0 - v}'))
    if (z, charge) in CHARGED_VALENCE and not radical and all(o in (1, 2, 3) for o, _ in bonds):
        v = sum(o for o, _ in bonds)
        v0 = CHARGED_VALENCE[(z, charge)]
        if v <= v0 and hh != v0 - v:
            out.append((f'C04/charged-reference/{tag}', f'calc_implicit gives {hh}; the isoelectronic normal valence {v0} with bond order sum {v} requires {v0 - v}'))
    # Lewis electron count: V + r <= e - q and e - q - V - r even (bare atom V = 0 exempt), for assigned and accepted counts
    if z in VALENCE_ELECTRONS and not any(o == 4 for o, _ in bonds):
        v = sum(o for o, _ in bonds if o != 8)
        e = VALENCE_ELECTRONS[z] - charge - int(bool(radical))
        cand = ([hh] if hh is not None else []) + [i for i in range(HMAX + 1) if mask >> i & 1]
        for hc in cand:
            V = v + hc
            if V and not (V <= e and (e - V) % 2 == 0):
                out.append((f'C04/lewis-electron-count/{tag}', f'hydrogen count {hc} is assigned/accepted for bonds {bonds}: total valence {V} with '
                            f'{VALENCE_ELECTRONS[z]} valence electrons, charge {charge}, radical {bool(radical)} is not a Lewis structure'))
                break
    # RDKit: whenever chython finds a valence state, RDKit accepts the atom and counts the same hydrogens
    if hh is not None and z != 1 and z in NORMAL_VALENCE and abs(charge) <= 2:
        g = rdkit_h(z, charge, radical, bonds)
        # (RDKit's model is narrower for hypervalent halogens / interhalogen anions: a rejection by RDKit is not a verdict)
        if g != 'n/a' and g is not None and g != hh:
            out.append((f'C04/rdkit-total-h/{tag}', f'calc_implicit gives {hh}, RDKit gives {g} for bonds {bonds}'))
    # independence of the bond dict order
    if len(bonds) > 1:
        perms = [tuple(reversed(bonds))]
        if rng is not None:
            p = list(bonds)
            rng.shuffle(p)
            perms.append(tuple(p))
        for p in perms:
            if real_calc(z, charge, radical, p) != (h, mask):
                out.append(('C04/order-dependence', f'calc/check differ between bond orders {bonds} and {p}'))
                break
    return out


def mol_oracle(mol):
    """totals are the sums over atoms; check_valence reports exactly the atoms without a valence state (after fix_structure)."""
    out = []
    m = mol.copy()
    m._changed = None
    m.fix_structure()
    atoms = list(m._atoms.items())
    exp_bad = []
    for n, a in atoms:
        bonds = [(b.order, m._atoms[k].atomic_number) for k, b in m._bonds[n].items()]
        exp, _ = spec_h(a.atomic_number, a.charge, a.is_radical, bonds)
        if exp is None:
            exp_bad.append(n)
        if a.implicit_hydrogens != exp:
            out.append(('C04/atom-h-vs-tables',
                        f'atom {n}: implicit_hydrogens {a.implicit_hydrogens}, tables give {exp} for bonds {bonds}'))
    cv = m.check_valence()
    if sorted(cv) != sorted(exp_bad):
        out.append(('C04/check-valence-exact', f'check_valence {cv} but atoms without valence state are {exp_bad}'))
    if int(m) != sum(a.charge for _, a in atoms):
        out.append(('C04/total-charge', f'int(mol)={int(m)} != sum of atom charges'))
    if bool(m.is_radical) != any(a.is_radical for _, a in atoms):
        out.append(('C04/total-radical', 'is_radical flag is not the disjunction over atoms'))
    if not exp_bad and not cv:
        exp_b = Counter(a.atomic_symbol for _, a in atoms)
        exp_b['H'] += sum(a.implicit_hydrogens for _, a in atoms)
        got = {k: v for k, v in m.brutto.items() if v}
        if got != {k: v for k, v in exp_b.items() if v}:
            out.append(('C04/brutto', f'brutto {m.brutto} != recount {dict(exp_b)}'))
        hm = _exact_atomic_mass(_cls(1)())
        exact = sum(_exact_atomic_mass(a) + a.implicit_hydrogens * hm for _, a in atoms)
        if abs(Fraction(float(m)) - exact) > Fraction(1, 10 ** 9) * max(1, exact):
            out.append(('C04/mass', f'float(mol)={float(m)} != exact sum {float(exact)}'))
    return out



def hop_oracle(mol, op):
    """an operation that writes hydrogen counts must leave every localised atom with a count its element tables accept,
    and implicify/explicify/kekule/thiele must not change the number of hydrogens of the molecule."""
    out = []
    before = total_h(mol)
    status, res = apply_real(op, mol)
    if res is None:
        return out
    if op in ('implicify_hydrogens', 'explicify_hydrogens', 'kekule', 'thiele'):
        heavy = lambda x: Counter((a.atomic_symbol, a._charge) for a in x._atoms.values() if a.atomic_number != 1)
        if heavy(mol) != heavy(res):
            out.append((f'C04/{op}/heavy-atoms-not-conserved', f'{op} on {mol.copy()} (atom numbers {sorted(mol._atoms)}): heavy atoms '
                        f'{dict(heavy(mol))} before, {dict(heavy(res))} after'))
        lone = [(n, k) for n, ms in res._bonds.items() for k in ms if n not in res._bonds.get(k, ())]
        if lone:
            out.append((f'C04/{op}/one-sided-bond', f'{op} on {mol.copy()} (atom numbers {sorted(mol._atoms)}): bonds {lone[:4]} are known to one atom only'))
    if op in ('implicify_hydrogens', 'explicify_hydrogens', 'kekule', 'thiele') and before is not None:
        aft = total_h(res)
        if aft != before:
            out.append((f'C04/{op}/hydrogens-not-conserved', f'{op}: {before} hydrogens before, {aft} after; brutto {mol.copy().brutto} -> '
                        f'{res.brutto if aft is not None else "unknown"}'))
    if op in ('implicify_hydrogens', 'explicify_hydrogens', 'canonicalize'):
        for n, a in res._atoms.items():
            bonds = [(b.order, res._atoms[k].atomic_number) for k, b in res._bonds[n].items()]
            if any(o == 4 for o, _ in bonds) or a.atomic_number == 1:
                continue
            _, allowed = spec_h(a.atomic_number, a.charge, a.is_radical, bonds)
            h = a.implicit_hydrogens
            was = mol._atoms.get(n)
            if h is not None and h not in allowed and (was is None or was.implicit_hydrogens is not None):
                out.append((f'C04/{op}/count-not-in-tables/Z={a.atomic_number}',
                            f'after {op} atom {n} ({a.atomic_symbol}, q={a.charge}) has implicit_hydrogens={h} with bonds {bonds}; '
                            f'the element tables allow {sorted(allowed)}; check_valence()={res.check_valence()}'))
                break
    return out


def marks_oracle(mol):
    """a molecule as the public API left it: every stored count of a localised atom must be one its element tables accept"""
    for n, a in mol._atoms.items():
        bonds = [(b.order, mol._atoms[k].atomic_number) for k, b in mol._bonds[n].items()]
        h = a._implicit_hydrogens
        if h is None or a.atomic_number == 1 or any(o == 4 for o, _ in bonds):
            continue
        _, allowed = spec_h(a.atomic_number, a.charge, a.is_radical, bonds)
        if h not in allowed:
            return [('C04/stored-count-not-in-tables', f'atom {n} ({a.atomic_symbol}, q={a.charge}) carries implicit_hydrogens={h} with bonds {bonds}; '
                     f'the element tables allow {sorted(allowed)}')]
    return []


def _exact_atomic_mass(a):
    d = lambda x: Fraction(repr(x))
    mass = a.isotopes_masses
    if a.isotope is None:
        return sum(d(x) * d(mass[i]) for i, x in a.isotopes_distribution.items())
    return d(mass[a.isotope])


def rules_oracle(z):
    """compiled table == declarative reading of the raw tuples, key by key, rule order included."""
    real = real_rules(z)
    if not isinstance(real, dict):
        return [(f'C04/rules-compile/Z={z}', f'_compiled_valence_rules raises {real}')]
    exp = {}
    for c, r, v, env, h in spec_rules(z):
        exp.setdefault((c, int(r), v), []).append((sorted(env), sorted(env.items()), h))
    if real != exp:
        dk = sorted(k for k in set(real) | set(exp) if real.get(k) != exp.get(k))
        return [(f'C04/rules-vs-tables/Z={z}', f'compiled rules differ from the raw tables at keys {dk[:5]}')]
    return []


def rdkit_formula_oracle(smi):
    """formula of a corpus molecule: chython brutto vs RDKit (atoms + total H)."""
    from rdkit import Chem
    rm = Chem.MolFromSmiles(smi)
    m = molgen.parse(smi)
    if rm is None or m is None:
        return []
    try:
        m.kekule()
    except Exception:
        return []
    if m.check_valence():
        return []
    exp = Counter(a.GetSymbol() for a in rm.GetAtoms())
    exp['H'] += sum(a.GetTotalNumHs() for a in rm.GetAtoms())
    got = {k: v for k, v in m.brutto.items() if v}
    if got != {k: v for k, v in exp.items() if v}:
        return [('C04/rdkit-formula', f'{smi}: brutto {got} != RDKit {dict(exp)}')]
    return []


def search(ctx):
    """Start at the disagreeing cases and their neighbourhood, then sweep (budgeted)."""
    budget = 60 if ctx.quick else 240
    t0 = time.time()
    rng = ctx.rng
    found = set()

    def report(res, inp):
        for sig, what in res:
            if sig not in found:
                found.add(sig)
                ctx.fail(sig, what, inp)

    from chython.periodictable import Element
    zs = sorted(c.atomic_number.fget(None) for c in Element.__subclasses__())
    for z in zs:
        try:
            report(rules_oracle(z), {'kind': 'rules', 'z': z})
        except Exception as e:
            report([(f'C04/rules-compile/Z={z}', f'{type(e).__name__}: {e}')], {'kind': 'rules', 'z': z})
    seeds = [c for c in getattr(ctx, 'c04_bad_ctx', []) if c['kind'] == 'ctx']
    for c in seeds[:300]:
        report(ctx_oracle(c['z'], c['charge'], c['radical'], c['bonds'], rng), c)
    for c in getattr(ctx, 'c04_bad_mols', [])[:80]:
        try:
            if c['kind'] == 'reader':
                report(reader_oracle(c['smiles']), c)
                continue
            m, _ = wire.ints_to_mol(c['wire'], calc=True)
            if c['kind'] == 'hop':
                report(hop_oracle(m, c['op']), c)
                continue
            if c['kind'] == 'marks':
                report(marks_oracle(m), c)
                continue
            if c['kind'] == 'history':
                report(history_oracle(m, c['ops']), c)
                continue
            report(mol_oracle(m), c)
        except Exception as e:
            ctx.notes.append(f'search: molecule oracle raised {type(e).__name__}')
    # every rule of every element in its own environment (exact, with 0..h hydrogens explicit, one neighbour more): the context
    # in which an edited table entry or a changed rule scan shows first
    for z in zs:
        if time.time() - t0 > budget * 0.5 or len(found) >= 40:
            break
        try:
            rules = spec_rules(z)
        except Exception:
            continue
        seen = set()
        for c, r, v, env, h in rules:
            base = tuple(sorted(env.elements()))
            rest = max(v - sum(o for o, _ in base), 0)
            for b in [base + ((1, 1),) * k for k in range(rest + 1)] + [base + ((1, 6),), base + ((2, 8),)]:
                if (c, r, b) in seen:
                    continue
                seen.add((c, r, b))
                res = ctx_oracle(z, c, int(r), b)
                if res:
                    report(res, {'kind': 'ctx', 'z': z, 'charge': c, 'radical': int(r), 'bonds': [list(x) for x in b]})
    # sweep of the grid (every multiset for the neutral/charged organic atoms, in a seeded order)
    ms = multisets(bond_types(True))
    tasks = [(z, c, r) for z in ORGANIC for c in CHARGES for r in (0, 1)]
    tasks.sort(key=lambda t: (abs(t[1]) + t[2], rng.random()))
    for z, c, r in tasks:
        if time.time() - t0 > budget * 0.7 or len(found) >= 40:
            break
        for b in ms:
            res = ctx_oracle(z, c, r, b)
            if res:
                report(res, {'kind': 'ctx', 'z': z, 'charge': c, 'radical': r, 'bonds': [list(x) for x in b]})
    # aromatic carbon contexts and special bonds
    for z in (6, 7):
        for k4 in range(1, 5):
            for extra in multisets([(1, 6), (2, 6), (1, 8), (8, 26)])[:40]:
                b = ((4, 6),) * k4 + tuple(extra)
                for c in (0, 1):
                    report(ctx_oracle(z, c, 0, b), {'kind': 'ctx', 'z': z, 'charge': c, 'radical': 0, 'bonds': [list(x) for x in b]})
    # operations that write hydrogen counts, on molecules with mixed explicit + implicit hydrogens
    try:
        for name, m in hop_molecules(ctx):
            if time.time() - t0 > budget * 0.9:
                break
            for op in ('implicify_hydrogens', 'explicify_hydrogens', 'canonicalize', 'kekule', 'thiele'):
                try:
                    report(hop_oracle(m, op), {'kind': 'hop', 'op': op, 'name': name, 'wire': wire.mol_to_ints(m)})
                except Exception as e:
                    ctx.dist(f'search/hop-raised:{op}:{type(e).__name__}')
    except Exception as e:
        ctx.notes.append(f'search: hop sweep raised {type(e).__name__}: {e}'[:200])
    # molecules: corpus against the tables and against RDKit's formula
    smis = molgen.corpus_smiles()
    idx = list(range(len(smis)))
    rng.shuffle(idx)
    for i in idx:
        if time.time() - t0 > budget or len(found) >= 40:
            break
        m = molgen.parse(smis[i])
        if m is None:
            continue
        try:
            k = m.copy()
            k.kekule()
            report(mol_oracle(k), {'kind': 'mol', 'name': f'corpus[{i}]/kekule', 'wire': wire.mol_to_ints(k)})
            report(rdkit_formula_oracle(smis[i]), {'kind': 'smiles', 'smiles': smis[i]})
        except Exception as e:
            ctx.notes.append(f'search: corpus[{i}] raised {type(e).__name__}: {e}'[:200])
    ctx.notes.append(f'search: {len(found)} failing signatures in {time.time() - t0:.1f}s')


def probe(inp):
    kind = inp.get('kind')
    if kind == 'ctx':
        res = ctx_oracle(inp['z'], inp['charge'], inp['radical'], [tuple(b) for b in inp['bonds']])
    elif kind == 'rules':
        res = rules_oracle(inp['z'])
    elif kind == 'mol':
        m, _ = wire.ints_to_mol(inp['wire'], calc=True)
        res = mol_oracle(m)
    elif kind == 'hop':
        m, _ = wire.ints_to_mol(inp['wire'], calc=True)
        res = hop_oracle(m, inp['op'])
    elif kind == 'marks':
        m, _ = wire.ints_to_mol(inp['wire'], calc=True)
        res = marks_oracle(m)
    elif kind == 'history':
        m = molgen.parse(inp['smiles']) if 'smiles' in inp else wire.ints_to_mol(inp['wire'], calc=True)[0]
        res = history_oracle(m, inp['ops'])
    elif kind == 'history-with-recorded-gaps':   # standing probe of a known finding: the filtered class itself
        res = history_oracle(molgen.parse(inp['smiles']), inp['ops'], known_gaps=False)
    elif kind == 'reader':
        res = reader_oracle(inp['smiles'])
    elif kind == 'smiles':
        res = rdkit_formula_oracle(inp['smiles'])
    else:
        return False, f'unknown probe kind {kind}'
    if res:
        return True, '; '.join(w for _, w in res[:4])
    return False, 'all C04 oracles (tables re-derivation, OpenSMILES normal valences, RDKit, order independence, totals) agree with the code on this input'
