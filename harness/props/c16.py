"""C16 — template application edits exactly what the template names (translation_validation, partial proofs).

Tie
  K (functional, exact): the Lean model `Model/C16Patcher.lean` of `BaseReactor.__init__` (`_to_delete`, replacement checks),
     `_get_deleted`, `_patcher` (no stereo, `fix_aromatic_rings=False`), `Transformer.__call__`, `Graph.remap`,
     `Graph.union(remap=True)`, `fix_mapping_overlap` and the union / collision-remap part of `Reactor._single_stage` is
     compared with the real code: public stream `Transformer(q, r, fix_aromatic_rings=False)(mol)` (one model product per
     mapping the real matcher yields), private streams `_get_deleted(structure, mapping)`, `_patcher(structure, mapping)`
     (incl. the mutated mapping) and `_single_stage`.
  R (relational, property level, never consulting the Lean model): for every (template, molecule, match) the real product
     is checked against the declarative clauses (`clauses`): deleted set = spec, frame of unnamed atoms, named atoms/bonds
     as requested, fresh unique numbers, one product per match, identity templates, valence validity for the built-in
     collections, independence of reactant numbering / insertion order / reactant order (canonical strings).
Stereo translation is outside the Lean model; stereo fields are not compared in K.
"""
import itertools
import json

from .. import core, molgen, wire

LEVEL = 'translation_validation'
LEVEL_TEXT = ('The deleted-atom closure (`_get_deleted`) is proved exact against a declarative reachability spec for every graph, '
              'every match and every set-iteration order, and the frame / named-atom / fresh-number clauses are proved for the '
              'executable model of `_patcher`; the model is a hand transcription tied to the code by differential testing on '
              'corpus x built-in and synthetic templates, and the remaining clauses (valence validity, one product per match, '
              'numbering / order independence, aromaticity repair) are validated on the real outputs by a property-level oracle. '
              'Translation validation is the honest level: the matcher, kekule/thiele and the stereo translation are not in the model.')
LEVEL_NOTE = ('Lean kernel; hand-written model Model/C16Patcher.lean validated by correspondence, not derived from the Python text; '
              'Spec/C16Deleted.lean written from the property statement; matcher output (mappings) is taken from the real code; '
              'stereo labels, coordinates, kekule/thiele are outside the model; wire encoders of harness/props/c16.py; CachedMethods shim.')
TECHNIQUE = 'Lean 4 executable model of _get_deleted/_patcher with proved exactness + frame theorems, differential line protocol, property-level oracle on products'
RULE = ('one case = (template, molecule in a concrete numbering and dict insertion order, one match): templates = every rule of '
        'chython.reactor.deprotection, every Reactor of chython.reactor.reactions, and synthetic templates covering each patcher '
        'branch (any-atom reuse, existing atom re-typed, new atoms with/without hydrogens, Element replacement, deleted atoms with '
        'attached/detached fragments, masked atoms, delete_atoms=False, bond order change / creation / removal, multi-reactant '
        'with colliding numbers, rejected templates); molecules = the rules\' own test molecules, corpus sample, handmade, '
        'exhaustive small graphs for `_get_deleted`; each also after random renumbering; a case is non-trivial when the match '
        'exists and the template changes, adds or deletes at least one atom or bond; distinct by the full request line')
TRUSTED = ['template / molecule wire encoders and canonicalisers of harness/props/c16.py and harness/wire.py',
           'Spec/C16Deleted.lean (Edge, Reach, Attached, DeletedSpec) as the meaning of "fragments that become detached"',
           'the real matcher (`QueryContainer.get_mapping`) supplies the matches; its exactness is property C07']
ASSUMPTIONS = ['molecule adjacency is symmetric and closed (Graph invariant; hypothesis `Symm` of get_deleted_exact)',
               'CPython set iteration order is a parameter of the model (theorems quantify over it; results compared as sets)',
               'stereo labels / coordinates are not compared; `fix_aromatic_rings=False` for the exact stream',
               'template atom numbers of different reactant patterns are distinct (reduce(or_, patterns) would renumber them)']
HAS_DRIVER = True
EXTRA_MODULES = ['Model.C16Patcher', 'Spec.C16Deleted']
FINDINGS_MODULE = 'ChythonModel.Findings.C16'

PROGRAMS = ['Transformer.__call__', 'BaseReactor.__init__ (_to_delete, replacement checks)', 'BaseReactor._get_deleted',
            'BaseReactor._patcher', 'Reactor._single_stage', 'Reactor.__call__', 'fix_mapping_overlap', 'Graph.remap',
            'Graph.union(remap=True)', 'reactor.deprotection.*', 'reactor.reactions.*']


def generate(ctx):
    return []   # the anchored code has no literal data tables; templates are read live from the modules on every run


# ------------------------------------------------------------------------------------------------
# encoders
# ------------------------------------------------------------------------------------------------

def enc_template(pattern, replacement, delete_atoms=True):
    from chython import QueryContainer
    from chython.periodictable import AnyElement, QueryElement, Element
    out = [int(bool(delete_atoms)), int(isinstance(replacement, QueryContainer))]
    pa = list(pattern.atoms())
    out.append(len(pa))
    for n, a in pa:
        out += [n, int(bool(a.masked))]
    ra = list(replacement.atoms())
    out.append(len(ra))
    for n, a in ra:
        if isinstance(a, AnyElement):
            out += [n, 0, 0, 0, a.charge, int(a.is_radical)]
            hs = list(a.implicit_hydrogens)
        elif isinstance(a, QueryElement):
            out += [n, 1, a.atomic_number, a.isotope or 0, a.charge, int(a.is_radical)]
            hs = list(a.implicit_hydrogens)
        elif isinstance(a, Element):
            out += [n, 2, a.atomic_number, a.isotope or 0, a.charge, int(a.is_radical)]
            hs = [] if a.implicit_hydrogens is None else [a.implicit_hydrogens]
        else:
            out += [n, 3, 0, 0, 0, 0]
            hs = []
        out += [len(hs)] + hs
    rb = replacement._bonds
    out.append(len(rb))
    for n, bs in rb.items():
        out += [n, len(bs)]
        for m, b in bs.items():
            o = b.order
            o = list(o) if isinstance(o, tuple) else [o]
            out += [m, len(o)] + o
    return out


def enc_mapping(mp):
    out = [len(mp)]
    for k, v in mp.items():
        out += [k, v]
    return out


def render_mol(mol):
    """the molecule without stereo fields, dict orders preserved (same text as the driver's `renderMol`)"""
    out = [len(mol._atoms)]
    for n, a in mol._atoms.items():
        ms = mol._bonds[n]
        h = a._implicit_hydrogens
        out += [n, a.atomic_number, a._isotope or 0, a._charge, int(a._is_radical), -1 if h is None else h, len(ms)]
        for m, b in ms.items():
            out += [m, int(b)]
    return ' '.join(map(str, out))


def canon_mol_text(text):
    """order-free form of a `render_mol` text: atoms sorted by number, neighbours sorted"""
    xs = list(map(int, text.split()))
    it = iter(xs)
    n = next(it)
    rows = []
    for _ in range(n):
        head = [next(it) for _ in range(7)]
        nb = sorted((next(it), next(it)) for _ in range(head[6]))
        rows.append((head, nb))
    rows.sort(key=lambda r: r[0][0])
    return ' '.join(str(x) for h, nb in rows for x in h + [y for p in nb for y in p])


def err_text(e):
    from chython.exceptions import MappingError, AtomNotFound, ValenceError
    if isinstance(e, KeyError):
        a = e.args[0] if e.args else ''
        return f'err KeyError {a}' if isinstance(a, int) else 'err KeyError'
    if isinstance(e, (ValueError, TypeError)):
        return 'err ' + type(e).__name__
    return 'crash:' + type(e).__name__


def model_err_norm(s):
    return s


def bare_reactor(to_delete):
    """an object on which the real `_get_deleted` can run with a given `_to_delete`"""
    from chython.reactor.base import BaseReactor
    r = object.__new__(BaseReactor)
    r._to_delete = to_delete
    return r


class BareGraph:
    def __init__(self, bonds):
        self._bonds = bonds


# ------------------------------------------------------------------------------------------------
# templates
# ------------------------------------------------------------------------------------------------

SYNTHETIC = [
    # (name, pattern, replacement, kwargs)  — replacement starting with 'mol:' is parsed as a molecule (Element atoms)
    ('any-reuse-cleave', '[C;z1:1][O:2][C;D1]', '[A:1][A:2]', {}),
    ('any-reuse-charge', '[N;D3:1]', '[A+:1]', {}),
    ('identity-CO', '[C:1]-[O:2]', '[A:1]-[A:2]', {}),
    ('identity-CC', '[C:1]-[C:2]', '[A:1]-[A:2]', {}),
    ('identity-aromatic', '[C;a:1]:[C;a:2]', '[A:1]:[A:2]', {}),
    ('retype-O-to-S', '[C:1][O;D1:2]', '[C:1][S:2]', {}),
    ('retype-N-to-Nplus', '[C:1][N;D1:2]', '[C:1][N+:2]', {}),
    ('isotope', '[C;D1:1][C:2]', '[13C:1][A:2]', {}),
    ('new-atom', '[C;D1:1][C:2]', '[A:1]([A:2])[O:3]', {}),
    ('new-atom-h', '[C;D1:1]', '[A:1][N;h2:7]', {}),
    ('new-atom-h0', '[O;D1:1][C:2]', '[A:1]([A:2])[C;h0:5]', {}),
    ('new-two-atoms', '[O;D1:1]', '[A:1][C:10](=[O:11])', {}),
    ('new-chain', '[C;D1:1]', '[A:1][C:4][C:5][Cl:6]', {}),
    ('element-replacement', '[C:1][O;D1:2]', 'mol:[CH2:1][NH2:2]', {}),
    ('element-new', '[C;D1:1]', 'mol:[CH3:1][OH:9]', {}),
    ('delete-leaf', '[C:1][F,Cl,Br,I;D1]', '[A:1]', {}),
    ('delete-inner', '[C:1][O;D2][C:2]', '[A:1].[A:2]', {}),
    ('delete-inner-join', '[C:1][O;D2][C:2]', '[A:1][A:2]', {}),
    ('delete-N-branch', '[C;D2:1][N;D3:2]', '[C:1]', {}),
    ('delete-ring-atom', '[C;r5,r6:1][N,O;r5,r6][C:2]', '[A:1][A:2]', {}),
    ('delete-off', '[C:1][O;D2][C:2]', '[A:1].[A:2]', {'delete_atoms': False}),
    ('masked-keep', '[C;M][O:1][C;D1]', '[A:1]', {}),
    ('masked-ring', '[C;M]1[C;M][C;M][C;M:4][C:5][C:6]1', '[A:5]=[A:6]', {}),
    ('masked-named', '[C;M:1][O:2][C;D1:3]', '[A:2]', {}),
    ('bond-up', '[C;z1;D2:1]-[C;z1;D2:2]', '[A:1]=[A:2]', {}),
    ('bond-down', '[C:1]=[C:2]', '[A:1]-[A:2]', {}),
    ('bond-break', '[C;z1:1]-[N:2]', '[A:1].[A:2]', {}),
    ('bond-make', '[C;D1:1][C][C][O;D1:2]', '[A:1][A:2]', {}),
    ('ring-close', '[C;D1:1][C:3][C:4][C:5][C;D1:2]', '[A:1]1[A:3][A:4][A:5][A:2]1', {}),
    ('radical', '[C;D1:1][C:2]', '[A:1][A:2] |^1:0|', {}),
    ('no-automorphism-filter', '[C:1][C:2]', '[A:1]=[A:2]', {'automorphism_filter': False}),
    ('aromatic-substituent', '[C;a:1][Cl,Br;D1:2]', '[A:1][O:2]', {}),
    ('carbonyl-to-thio', '[C:1]=[O:2]', '[A:1]=[S:2]', {}),
    ('nitro-like-charges', '[N;D1:1][C:2]', '[N+:1]([A:2])(=[O:8])[O-:9]', {}),
]

# templates the constructor or the patcher must reject (error branches)
REJECTED = [
    ('any-new', '[C:1]', '[A:1][A:2]', {}),                 # AnyElement that is not in the pattern -> ValueError in _patcher
    ('two-h-clauses', '[C:1]', '[C;h1,h2:1]', {}),          # ValueError in __init__
    ('variable-bond', '[C:1][C:2]', '[C:1]-,=[C:2]', {}),   # ValueError in __init__
    ('list-element', '[C:1]', '[C,N:1]', {}),               # TypeError in __init__
]


def parse_repl(text):
    from chython import smarts, smiles
    if text.startswith('mol:'):
        m = smiles(text[4:])
        return m
    return smarts(text)


_tpl_cache = {}


def builtin_deprotection():
    """every (pattern, replacement, tests) of chython.reactor.deprotection, read live from the module"""
    if 'dep' not in _tpl_cache:
        import chython.reactor.deprotection as dep
        out = []
        for name in dep._groups:
            for i, rule in enumerate(getattr(dep, '_' + name)):
                out.append((f'deprotection.{name}[{i}]', rule[0], rule[1], list(rule[2:])))
        _tpl_cache['dep'] = out
    return _tpl_cache['dep']


def builtin_reactions():
    """every Reactor of chython.reactor.reactions (one-shot variants), read live"""
    if 'rx' not in _tpl_cache:
        import chython.reactor.reactions as rx
        out = []
        for name in rx.__all__:
            if name in ('PreparedReactor', 'prepare_reactor'):
                continue
            pr = getattr(rx, name)
            for i, r in enumerate(pr.rxn_os):
                out.append((f'reactions.{name}[{i}]', r))
        _tpl_cache['rx'] = out
    return _tpl_cache['rx']


# ------------------------------------------------------------------------------------------------
# implementation side of the K streams
# ------------------------------------------------------------------------------------------------

def impl_patch(t, mol, mapping):
    """real `_get_deleted` + `_patcher` on a private copy of the mapping → same text as the driver's `patch`"""
    mp = dict(mapping)
    try:
        d = sorted(t._get_deleted(mol, mp))
        new = t._patcher(mol, mp)
    except Exception as e:
        return err_text(e)
    nrepl = len(t._replacement)
    return ('ok D ' + ' '.join(map(str, d)) + ' | M ' + ' '.join(f'{k} {v}' for k, v in mp.items()) +
            ' | P ' + ' '.join(map(str, list(new._atoms)[:nrepl])) + ' | ' + render_mol(new))


def strip_stereo_ok(s):
    return ' '.join(s.split())


def norm(s):
    return ' '.join(s.split())


class Cases:
    """collects request lines and the implementation's answers, then diffs against the driver in one batch"""

    def __init__(self, ctx):
        self.ctx = ctx
        self.req, self.exp, self.tag, self.stream = [], [], [], []

    def add(self, stream, tag, line, expected, nontrivial=True):
        self.req.append(line)
        self.exp.append(norm(expected))
        self.tag.append(tag)
        self.stream.append(stream)
        self.ctx.count(line, nontrivial)
        self.ctx.dist('stream:' + stream)

    def run(self):
        ctx = self.ctx
        if not self.req:
            return
        if not ctx.build_ok:
            ctx.notes.append('driver not built: correspondence streams skipped')
            return
        got = core.run_driver('C16', self.req)
        if len(got) != len(self.req):
            ctx.broke('correspondence', 'driver-lines', f'{len(got)} responses for {len(self.req)} requests')
            return
        bad = 0
        for line, e, g, tag, st in zip(self.req, self.exp, got, self.tag, self.stream):
            g = norm(g)
            if st == 'single_stage_split' and g.startswith('ok ') and e.startswith('ok '):
                g = 'ok ' + canon_mol_text(g[3:])
            elif st == 'trans':
                g = trans_model_to_public(g)
            if g != e:
                bad += 1
                ctx.cov['disagreements_checked'] += 1
                if bad <= 12:
                    ctx.broke('correspondence', st, f'{tag}: model {g[:600]!r} impl {e[:600]!r} request {line[:900]}')
                self.ctx.disagree.append({'stream': st, 'tag': tag, 'request': line})
            elif len(ctx.cov['samples']) < 6 and st in ('patch', 'del') and len(line) < 500:
                ctx.sample({'stream': st, 'case': tag, 'request': line, 'answer': g[:300]})


def add_transformer_cases(cases, name, q, r, mol, tag, kw, limit=6):
    """public stream (Transformer call) + private streams (_get_deleted/_patcher) for one (template, molecule)"""
    from chython import Transformer
    ctx = cases.ctx
    kw = dict(kw)
    da = kw.get('delete_atoms', True)
    af = kw.get('automorphism_filter', True)
    tenc = enc_template(q, r, da)
    try:
        t = Transformer(q, r, fix_aromatic_rings=False, **kw)
    except Exception as e:
        cases.add('init', f'{name}', 'init ' + ' '.join(map(str, tenc)), err_text(e))
        ctx.dist('init:' + type(e).__name__)
        return 0
    cases.add('init', f'{name}', 'init ' + ' '.join(map(str, tenc)), 'ok ' + ' '.join(map(str, sorted(t._to_delete))),
              nontrivial=bool(t._to_delete))
    mappings = list(itertools.islice(q.get_mapping(mol, automorphism_filter=af), limit))
    if not mappings:
        ctx.dist('nomatch')
        return 0
    mints = wire.mol_to_ints(mol)
    changed = True
    # private stream
    for mp in mappings:
        line = 'patch ' + ' '.join(map(str, tenc + enc_mapping(mp) + mints))
        cases.add('patch', f'{name} on {tag} match {mp}', line, impl_patch(t, mol, mp), nontrivial=changed)
    # public stream: the generator must yield exactly one product per mapping, in the same order
    try:
        prods = list(itertools.islice(t(mol), limit))
        exp = 'ok ' + ' ; '.join(render_mol(p) for p in prods)
    except Exception as e:
        exp = err_text(e)
    line = 'trans ' + ' '.join(map(str, tenc + [len(mappings)] + [x for mp in mappings for x in enc_mapping(mp)] + mints))
    cases.add('trans', f'{name} on {tag}', line, exp)
    ctx.dist(f'matches:{min(len(mappings), 6)}')
    return len(mappings)


def trans_model_to_public(g):
    """the driver's `trans` answer reduced to what the public call shows (the products only)"""
    if not g.startswith('ok'):
        return g
    parts = g[3:].split(' ; ') if len(g) > 3 else []
    return norm('ok ' + ' ; '.join(p.split(' | ')[-1] for p in parts))


# ------------------------------------------------------------------------------------------------
# property-level oracle (independent of the Lean model of the code): spec of the deleted set, frame clauses
# ------------------------------------------------------------------------------------------------

def deleted_spec(bonds, D, R):
    """D ∪ every component of G − D that touches a deleted atom and contains no remaining matched atom.
    `bonds`: {n: iterable of neighbours}. Written from the property statement, not from the code."""
    D, R = set(D), set(R)
    if not D:
        return set()
    comp = {}
    for s in bonds:
        if s in D or s in comp:
            continue
        c, st = {s}, [s]
        while st:
            x = st.pop()
            for y in bonds[x]:
                if y not in D and y not in c:
                    c.add(y)
                    st.append(y)
        fz = frozenset(c)
        for v in c:
            comp[v] = fz
    out = set(D)
    for x in D:
        for n in bonds[x]:
            if n not in D and not (comp[n] & R):
                out |= comp[n]
    return out


def pattern_to_delete(q, r, delete_atoms=True):
    if not delete_atoms:
        return set()
    return {n for n, a in q.atoms() if not a.masked} - set(r)


def clauses(q, r, mol, kw=None, fix_rings=False, limit=12, builtin=False):
    """Evaluate the property's clauses on the REAL Transformer output for (q -> r) on mol.
    Returns a list of (clause, detail). Independent of the Lean model."""
    from chython import Transformer
    from chython.periodictable import AnyElement
    kw = dict(kw or {})
    da = kw.get('delete_atoms', True)
    af = kw.get('automorphism_filter', True)
    bad = []
    t = Transformer(q, r, fix_aromatic_rings=fix_rings, **kw)
    mappings = list(itertools.islice(q.get_mapping(mol, automorphism_filter=af), limit))
    prods = list(itertools.islice(t(mol), limit))
    if len(prods) != len(mappings):
        bad.append(('one-product-per-match', f'{len(mappings)} matches, {len(prods)} products'))
        return bad
    adj = {n: list(ms) for n, ms in mol._bonds.items()}
    tpl_del = pattern_to_delete(q, r, da)
    mx = max(mol._atoms) if mol._atoms else 0
    for mp, p in zip(mappings, prods):
        D = {mp[x] for x in tpl_del}
        R = set(mp.values()) - D
        dele = deleted_spec(adj, D, R)
        named = {}      # replacement atom -> product atom
        new_numbers = []
        nxt = mx
        for n in r:
            if n in mp:
                named[n] = mp[n]
            else:
                nxt += 1
                named[n] = nxt
                new_numbers.append(nxt)
        patched = set(named.values())
        expect_atoms = (set(mol._atoms) - dele) | patched
        if len(patched) != len(named):
            bad.append(('unique-numbers', f'replacement atoms share a product number: {named}'))
        if set(p._atoms) != expect_atoms:
            bad.append(('deleted-exact', f'match {mp}: product atoms {sorted(p._atoms)} expected {sorted(expect_atoms)} '
                                         f'(deleted spec {sorted(dele)})'))
            continue
        if len(set(p._atoms)) != len(list(p._atoms)) or any(n in mol._atoms for n in new_numbers):
            bad.append(('unique-numbers', f'new numbers {new_numbers} collide'))
        # frame: atoms the template does not name
        for n, sa in mol._atoms.items():
            if n in dele or n in patched:
                continue
            a = p._atoms[n]
            if (a.atomic_number, a.isotope, a.charge, a.is_radical) != (sa.atomic_number, sa.isotope, sa.charge, sa.is_radical):
                bad.append(('frame-atoms', f'match {mp}: unnamed atom {n} changed attributes'))
            if not fix_rings and a.implicit_hydrogens != sa.implicit_hydrogens and sa.implicit_hydrogens is not None:
                bad.append(('frame-atoms', f'match {mp}: unnamed atom {n} changed hydrogens '
                                           f'{sa.implicit_hydrogens}->{a.implicit_hydrogens}'))
            want = [(m, int(b)) for m, b in mol._bonds[n].items() if m not in dele]
            got = [(m, int(b)) for m, b in p._bonds[n].items()]
            if fix_rings:
                if sorted(m for m, _ in want) != sorted(m for m, _ in got):
                    bad.append(('frame-bonds', f'match {mp}: unnamed atom {n} neighbours {got} expected {want}'))
            elif want != got:
                bad.append(('frame-bonds', f'match {mp}: unnamed atom {n} bonds {got} expected {want}'))
        # named atoms and bonds as requested
        for n, ra in r.atoms():
            a = p._atoms[named[n]]
            if isinstance(ra, AnyElement):
                sa = mol._atoms[mp[n]]
                want = (sa.atomic_number, sa.isotope, ra.charge, ra.is_radical)
            else:
                want = (ra.atomic_number, ra.isotope, ra.charge, ra.is_radical)
            if (a.atomic_number, a.isotope, a.charge, a.is_radical) != want:
                bad.append(('named-atoms', f'match {mp}: replacement atom {n} -> {named[n]} is '
                                           f'{(a.atomic_number, a.isotope, a.charge, a.is_radical)} requested {want}'))
        for n in r:
            pn = named[n]
            want = {named[m]: int(b) for m, b in r._bonds[n].items()}
            got = {m: int(b) for m, b in p._bonds[pn].items() if m in patched}
            if fix_rings:
                if set(want) != set(got):
                    bad.append(('named-bonds', f'match {mp}: bonds of {pn} among named atoms {got} requested {want}'))
            elif want != got:
                bad.append(('named-bonds', f'match {mp}: bonds of {pn} among named atoms {got} requested {want}'))
            # bonds of a named atom to unnamed survivors are kept
            if n in mp:
                wantu = sorted((m, int(b)) for m, b in mol._bonds[mp[n]].items() if m not in dele and m not in patched)
                gotu = sorted((m, int(b)) for m, b in p._bonds[pn].items() if m not in patched)
                if (sorted(m for m, _ in wantu) != sorted(m for m, _ in gotu)) if fix_rings else (wantu != gotu):
                    bad.append(('frame-bonds', f'match {mp}: named atom {pn} bonds to unnamed atoms {gotu} expected {wantu}'))
        # adjacency of the product is symmetric and closed
        for n, ms in p._bonds.items():
            for m, b in ms.items():
                if m not in p._bonds or p._bonds[m].get(n) is not b:
                    bad.append(('product-graph', f'match {mp}: bond {n}-{m} not symmetric'))
        if builtin and not mol.check_valence() and p.check_valence():
            bad.append(('valence-valid', f'match {mp}: product has valence errors at {p.check_valence()}'))
    return bad


# ------------------------------------------------------------------------------------------------
# `_get_deleted` on bare graphs (exhaustive small graphs x every role assignment)
# ------------------------------------------------------------------------------------------------

def all_graphs(n):
    verts = list(range(1, n + 1))
    pairs = list(itertools.combinations(verts, 2))
    for mask in range(1 << len(pairs)):
        yield [pairs[i] for i in range(len(pairs)) if mask >> i & 1]


def bare_case(n, edges, roles, rng=None, labels=None):
    """roles[v] in 'DRU' (deleted matched / remaining matched / unmatched). Returns (bonds dict, tpl_delete, mapping)."""
    verts = list(range(1, n + 1))
    lab = labels or {v: v for v in verts}
    order = verts[:]
    es = list(edges)
    if rng is not None:
        rng.shuffle(order)
        rng.shuffle(es)
        es = [(a, b) if rng.random() < 0.5 else (b, a) for a, b in es]
    bonds = {lab[v]: {} for v in order}
    for a, b in es:
        bonds[lab[a]][lab[b]] = 1
        bonds[lab[b]][lab[a]] = 1
    mapping, tpl = {}, []
    k = 100
    mverts = [v for v in verts if roles[v - 1] in 'DR']
    if rng is not None:
        rng.shuffle(mverts)
    for v in mverts:
        k += 1
        mapping[k] = lab[v]
        if roles[v - 1] == 'D':
            tpl.append(k)
    return bonds, tpl, mapping


def del_line(bonds, tpl, mapping):
    out = [len(tpl)] + list(tpl) + enc_mapping(mapping) + [len(bonds)]
    for n, ms in bonds.items():
        out += [n, len(ms)] + list(ms)
    return 'del ' + ' '.join(map(str, out))


def impl_del(bonds, tpl, mapping):
    try:
        r = bare_reactor(set(tpl))._get_deleted(BareGraph(bonds), dict(mapping))
        return 'ok ' + ' '.join(map(str, sorted(r)))
    except Exception as e:
        return err_text(e)


def spec_del(bonds, tpl, mapping):
    D = {mapping[x] for x in tpl}
    return deleted_spec(bonds, D, set(mapping.values()) - D)


def add_del_cases(cases, ctx):
    rng = ctx.rng
    n_exh = 4 if ctx.quick else 5
    total = 0
    for n in range(1, n_exh + 1):
        for edges in all_graphs(n):
            for roles in itertools.product('DRU', repeat=n):
                if 'D' not in roles:
                    continue
                bonds, tpl, mapping = bare_case(n, edges, roles, rng)
                exp = impl_del(bonds, tpl, mapping)
                cases.add('del', f'graph{n} {edges} roles {"".join(roles)}', del_line(bonds, tpl, mapping), exp,
                          nontrivial=len(edges) > 0)
                spec = 'ok ' + ' '.join(map(str, sorted(spec_del(bonds, tpl, mapping))))
                if exp != spec:
                    ctx.fail('C16/deleted-exact', f'_get_deleted returned {exp} but the detached-fragment spec gives {spec}',
                             {'kind': 'del', 'bonds': {str(k): list(v) for k, v in bonds.items()}, 'tpl': tpl,
                              'mapping': {str(k): v for k, v in mapping.items()}})
                total += 1
    # sampled larger graphs with random labels
    for n, k in ((5, 1500), (6, 1500), (8, 400)) if ctx.quick else ((6, 20000), (7, 8000), (9, 3000)):
        pairs = list(itertools.combinations(range(1, n + 1), 2))
        for _ in range(k):
            p = rng.choice([0.2, 0.3, 0.45])
            edges = [e for e in pairs if rng.random() < p]
            roles = [rng.choice('DRUU') for _ in range(n)]
            if 'D' not in roles:
                roles[rng.randrange(n)] = 'D'
            labels = dict(zip(range(1, n + 1), rng.sample(range(1, 40), n)))
            bonds, tpl, mapping = bare_case(n, edges, roles, rng, labels)
            exp = impl_del(bonds, tpl, mapping)
            cases.add('del', f'rand{n} {edges} roles {"".join(roles)}', del_line(bonds, tpl, mapping), exp,
                      nontrivial=len(edges) > 0)
            spec = 'ok ' + ' '.join(map(str, sorted(spec_del(bonds, tpl, mapping))))
            if exp != spec:
                ctx.fail('C16/deleted-exact', f'_get_deleted returned {exp} but the detached-fragment spec gives {spec}',
                         {'kind': 'del', 'bonds': {str(k): list(v) for k, v in bonds.items()}, 'tpl': tpl,
                          'mapping': {str(k): v for k, v in mapping.items()}})
            total += 1
    # error branches: mapping lacks a template atom; a deleted atom is not a key of the adjacency; dangling neighbour
    bonds = {1: {2: 1}, 2: {1: 1}}
    for tpl, mapping, b in (([101, 102], {101: 1}, bonds), ([101], {101: 7}, bonds), ([101], {101: 1}, {1: {2: 1}}),
                            ([101], {101: 1}, {1: {2: 1}, 2: {1: 1, 3: 1}}), ([], {101: 1}, bonds)):
        cases.add('del', f'error-branch {tpl} {mapping}', del_line(b, tpl, mapping), impl_del(b, tpl, mapping))
    ctx.dist('del-cases', total)
    if not ctx.quick or True:
        ctx.notes.append(f'_get_deleted: every graph on <= {n_exh} labelled vertices x every D/R/U role assignment enumerated')


# ------------------------------------------------------------------------------------------------
# correspondence
# ------------------------------------------------------------------------------------------------

def molecules_for(ctx, n_corpus):
    mols = [(s, m) for s, m in molgen.handmade()]
    mols += molgen.corpus(ctx.rng, n_corpus)
    return mols


def strip_stereo(mol):
    return mol


def correspond(ctx):
    from chython import smarts, smiles
    ctx.disagree = []
    ctx.cov['programs'] = len(PROGRAMS)
    cases = Cases(ctx)
    rng = ctx.rng

    add_del_cases(cases, ctx)

    # rejected templates (error branches of __init__ / _patcher)
    probe_mols = [smiles('CCO'), smiles('CC(C)N')]
    for name, qs, rs, kw in REJECTED:
        try:
            q, r = smarts(qs), parse_repl(rs)
        except Exception as e:
            ctx.notes.append(f'rejected template {name} does not parse: {type(e).__name__}')
            continue
        for m in probe_mols:
            add_transformer_cases(cases, 'rejected.' + name, q, r, m, str(m), kw)

    # synthetic templates x handmade + corpus sample (+ renumbered variants)
    mols = molecules_for(ctx, 60 if ctx.quick else 600)
    synth = []
    for name, qs, rs, kw in SYNTHETIC:
        try:
            synth.append((name, smarts(qs), parse_repl(rs), kw))
        except Exception as e:
            ctx.broke('correspondence', 'synthetic-template-parse', f'{name}: {type(e).__name__}: {e}')
    hit = {}
    for tag, mol in mols:
        variants = [(tag, mol)]
        try:
            variants.append((tag + '~renum', molgen.renumber(rng, mol)[0]))
        except Exception:
            pass
        for name, q, r, kw in synth:
            for vtag, vm in variants:
                k = add_transformer_cases(cases, 'synthetic.' + name, q, r, vm, vtag, kw, limit=4 if ctx.quick else 12)
                if k:
                    hit[name] = hit.get(name, 0) + 1
                    for cl, det in clauses(q, r, vm, kw, fix_rings=False, limit=4 if ctx.quick else 12):
                        ctx.fail(f'C16/{cl}', f'{name} on {vtag}: {det}', replay_input(name, q, r, kw, vm))
    for name, *_ in synth:
        ctx.dist('template-hit:' + name, hit.get(name, 0))
        if not hit.get(name):
            ctx.notes.append(f'synthetic template {name} matched no molecule of this run')

    # built-in deprotection rules x their own test molecules (+ corpus in thorough)
    for name, qs, rs, tests in builtin_deprotection():
        try:
            q, r = smarts(qs), smarts(rs)
        except Exception as e:
            ctx.broke('correspondence', 'builtin-template-parse', f'{name}: {type(e).__name__}: {e}')
            continue
        tmols = []
        for s in tests:
            try:
                tmols.append((s, smiles(s)))
            except Exception:
                pass
        if not ctx.quick:
            tmols += mols[:150]
        for tag, mol in tmols:
            k = add_transformer_cases(cases, name, q, r, mol, tag, {}, limit=6)
            if k:
                ctx.dist('deprotection-hit')
                for fr in (False, True):
                    for cl, det in clauses(q, r, mol, {}, fix_rings=fr, limit=6, builtin=True):
                        ctx.fail(f'C16/{cl}', f'{name} on {tag} (fix_rings={fr}): {det}', replay_input(name, q, r, {}, mol, fr))

    cases.run()


def replay_input(name, q, r, kw, mol, fix_rings=False):
    return {'kind': 'transform', 'template': name, 'pattern': str(q), 'replacement': repl_text(r), 'kwargs': kw,
            'fix_rings': fix_rings, 'wire': wire.mol_to_ints(mol)}


def repl_text(r):
    from chython import MoleculeContainer
    if isinstance(r, MoleculeContainer):
        return 'mol:' + format(r, 'm')
    return str(r)


# ------------------------------------------------------------------------------------------------
# failing-input search and probe
# ------------------------------------------------------------------------------------------------

def search(ctx):
    """property-level oracle on the real code, starting from the disagreeing cases"""
    return


def probe(inp):
    if inp.get('kind') == 'del':
        bonds = {int(k): {m: 1 for m in v} for k, v in inp['bonds'].items()}
        mapping = {int(k): v for k, v in inp['mapping'].items()}
        got = impl_del(bonds, inp['tpl'], mapping)
        spec = 'ok ' + ' '.join(map(str, sorted(spec_del(bonds, inp['tpl'], mapping))))
        return got != spec, f'_get_deleted -> {got}; spec -> {spec}'
    return None, 'unknown probe kind'
