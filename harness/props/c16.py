"""C16 — template application edits exactly what the template names (translation_validation, partial proofs).

Tie
  K (functional, exact): the Lean model `Model/C16Patcher.lean` of `BaseReactor.__init__` (`_to_delete`, replacement checks),
     `_get_deleted`, `_patcher` (no stereo, `fix_aromatic_rings=False`), `Transformer.__call__`, `Graph.remap`,
     `Graph.union(remap=True)`, `fix_mapping_overlap` and the union / collision-remap part of `Reactor._single_stage` is
     compared with the real code: public stream `Transformer(q, r, fix_aromatic_rings=False)(mol)` (one model product per
     mapping the real matcher yields), private streams `_get_deleted(structure, mapping)`, `_patcher(structure, mapping)`
     (incl. the mutated mapping) and `_single_stage`.
  R (relational, property level, never consulting the Lean model): for every (template, molecule, match) the real product
     is checked against the declarative clauses (`clauses`): deleted set = spec, frame of unnamed atoms, named atoms/bonds
     as requested, fresh unique numbers, one product per match, identity templates, valence validity for the built-in
     collections, independence of reactant numbering / insertion order / reactant order (canonical strings), kept and
     overridden stereo configurations (tetrahedral / allene / cis-trans, compared centre by centre through C12's sign translation
     for a fixed neighbour order), exhaustive mode = closure of single-match edits (one-pattern templates) and superset of the
     one-shot mode, hydrogens of atoms away from the edit under the default aromaticity repair.
Stereo translation is outside the Lean model; stereo fields are not compared in K (they are validated by `stereo_clauses`).
"""
import itertools
import json

from .. import core, molgen, wire

LEVEL = 'translation_validation'
LEVEL_TEXT = ('The deleted-atom closure (`_get_deleted`) is proved exact against a declarative reachability spec for every graph, '
              'every match and every set-iteration order, and the frame / named-atom / fresh-number clauses are proved for the '
              'executable model of `_patcher`; `Graph.union` is proved to give disjoint isomorphic copies with the code\'s exact renumbering, and the '
              'exhaustive-mode queue (`one_shot=False`: FIFO, `seen` strings, `polymerise_limit`) is proved to terminate and to report '
              'exactly the reachable reactions up to the de-duplication key, each key once, over an abstract step system; `contract_ions` (salt '
              'formation) is proved total, a partition of the input molecules, neutral-preserving and charge-neutral; the model is a hand transcription tied to the code by differential testing on '
              'corpus x built-in and synthetic templates, and the remaining clauses (valence validity, one product per match, '
              'numbering / order independence, kept / overridden stereo, exhaustive mode, aromaticity repair) are validated on the real outputs by a property-level oracle. '
              'Translation validation is the honest level: the matcher, kekule/thiele and the stereo translation are not in the model.')
LEVEL_NOTE = ('Lean kernel; hand-written models Model/C16Patcher.lean, Model/C16Worklist.lean (queue / seen / polymerise_limit over an abstract '
              'step system whose table the harness records from the real _single_stage / ReactionContainer / contract_ions / str), '
              'Model/C16Ions.lean (molecules as id / equality class / charge) validated by correspondence, not derived from the Python text; '
              'completeness of the exhaustive mode assumes that str(reaction) is a congruence of the step system (Congr); '
              'Spec/C16Deleted.lean written from the property statement; matcher output (mappings) is taken from the real code; '
              'stereo labels, coordinates, kekule/thiele are outside the model; wire encoders of harness/props/c16.py; CachedMethods shim.')
TECHNIQUE = ('Lean 4 executable models of _get_deleted/_patcher/Graph.union/exhaustive worklist/contract_ions with proved exactness, frame, '
             'isomorphic-copy, termination / reachable-set and partition theorems; differential line protocol; property-level oracle on products '
             'and on the public entry points of the built-in collections')
RULE = ('one case = (template, molecule in a concrete numbering and dict insertion order, one match): templates = every rule of '
        'chython.reactor.deprotection, every Reactor of chython.reactor.reactions, and synthetic templates covering each patcher '
        'branch (any-atom reuse, existing atom re-typed, new atoms with/without hydrogens, Element replacement, deleted atoms with '
        'attached/detached fragments, masked atoms, delete_atoms=False, bond order change / creation / removal, multi-reactant '
        'with colliding numbers, rejected templates, charge / radical / isotope of a pattern atom x any-atom / element / molecule '
        'replacement x requested value incl. zero; exhaustive mode on templates that fire several times: poly-halides, bis-protected '
        'molecules, diacid + diol, salts); molecules = the rules\' own test molecules, corpus sample, handmade, '
        'exhaustive small graphs for `_get_deleted`; each also after random renumbering; a case is non-trivial when the match '
        'exists and the template changes, adds or deletes at least one atom or bond; distinct by the full request line')
TRUSTED = ['template / molecule wire encoders and canonicalisers of harness/props/c16.py and harness/wire.py',
           'Spec/C16Deleted.lean (Edge, Reach, Attached, DeletedSpec) as the meaning of "fragments that become detached"',
           'the real matcher (`QueryContainer.get_mapping`) supplies the matches; its exactness is property C07']
ASSUMPTIONS = ['molecule adjacency is symmetric and closed (Graph invariant; hypothesis `Symm` of get_deleted_exact)',
               'CPython set iteration order is a parameter of the model (theorems quantify over it; results compared as sets)',
               'stereo labels / coordinates are not compared; `fix_aromatic_rings=False` for the exact stream',
               'template atom numbers of different reactant patterns are distinct (reduce(or_, patterns) would renumber them)']
HAS_DRIVER = True
EXTRA_MODULES = ['Model.C16Patcher', 'Model.C16Worklist', 'Model.C16Ions', 'Spec.C16Deleted']
FINDINGS_MODULE = 'ChythonModel.Findings.C16'

PROGRAMS = ['Transformer.__call__', 'BaseReactor.__init__ (_to_delete, replacement checks)', 'BaseReactor._get_deleted',
            'BaseReactor._patcher', 'Reactor._single_stage', 'Reactor.__call__ (one-shot; exhaustive queue / seen / polymerise_limit)',
            'fix_mapping_overlap', 'Graph.remap', 'Graph.union (remap=True and remap=False)', 'ReactionContainer.contract_ions', 'reactor.deprotection.*', 'reactor.reactions.*']


def generate(ctx):
    # the anchored code has no literal data tables of its own (templates are read live from the modules on every run);
    # the hydrogen recomputation of the model runs over the regenerated periodic table (shared with C04/C18)
    from ..gen import gen_periodic
    path = gen_periodic.generate()[0]
    return [path]


# ------------------------------------------------------------------------------------------------
# encoders
# ------------------------------------------------------------------------------------------------

def enc_template(pattern, replacement, delete_atoms=True):
    from chython import QueryContainer
    from chython.periodictable import AnyElement, QueryElement, Element
    out = [int(bool(delete_atoms)), int(isinstance(replacement, QueryContainer))]
    pa = list(pattern.atoms())
    out.append(len(pa))
    for n, a in pa:
        out += [n, int(bool(a.masked))]
    ra = list(replacement.atoms())
    out.append(len(ra))
    for n, a in ra:
        if isinstance(a, AnyElement):
            out += [n, 0, 0, 0, a.charge, int(a.is_radical)]
            hs = list(a.implicit_hydrogens)
        elif isinstance(a, QueryElement):
            out += [n, 1, a.atomic_number, a.isotope or 0, a.charge, int(a.is_radical)]
            hs = list(a.implicit_hydrogens)
        elif isinstance(a, Element):
            out += [n, 2, a.atomic_number, a.isotope or 0, a.charge, int(a.is_radical)]
            hs = [] if a.implicit_hydrogens is None else [a.implicit_hydrogens]
        else:
            out += [n, 3, 0, 0, 0, 0]
            hs = []
        out += [len(hs)] + hs
    rb = replacement._bonds
    out.append(len(rb))
    for n, bs in rb.items():
        out += [n, len(bs)]
        for m, b in bs.items():
            o = b.order
            o = list(o) if isinstance(o, tuple) else [o]
            out += [m, len(o)] + o
    return out


def enc_mapping(mp):
    out = [len(mp)]
    for k, v in mp.items():
        out += [k, v]
    return out


def render_mol(mol):
    """the molecule without stereo fields, dict orders preserved (same text as the driver's `renderMol`)"""
    out = [len(mol._atoms)]
    for n, a in mol._atoms.items():
        ms = mol._bonds[n]
        h = a._implicit_hydrogens
        out += [n, a.atomic_number, a._isotope or 0, a._charge, int(a._is_radical), -1 if h is None else h, len(ms)]
        for m, b in ms.items():
            out += [m, int(b)]
    return ' '.join(map(str, out))


def canon_mol_text(text):
    """order-free form of a `render_mol` text: atoms sorted by number, neighbours sorted"""
    xs = list(map(int, text.split()))
    it = iter(xs)
    n = next(it)
    rows = []
    for _ in range(n):
        head = [next(it) for _ in range(7)]
        nb = sorted((next(it), next(it)) for _ in range(head[6]))
        rows.append((head, nb))
    rows.sort(key=lambda r: r[0][0])
    return ' '.join(str(x) for h, nb in rows for x in h + [y for p in nb for y in p])


def err_text(e):
    from chython.exceptions import MappingError, AtomNotFound, ValenceError
    if isinstance(e, KeyError):
        a = e.args[0] if e.args else ''
        return f'err KeyError {a}' if isinstance(a, int) else 'err KeyError'
    if isinstance(e, (ValueError, TypeError)):
        return 'err ' + type(e).__name__
    return 'crash:' + type(e).__name__


def model_err_norm(s):
    return s


def bare_reactor(to_delete):
    """an object on which the real `_get_deleted` can run with a given `_to_delete`"""
    from chython.reactor.base import BaseReactor
    r = object.__new__(BaseReactor)
    r._to_delete = to_delete
    return r


class BareGraph:
    def __init__(self, bonds):
        self._bonds = bonds


# ------------------------------------------------------------------------------------------------
# templates
# ------------------------------------------------------------------------------------------------

SYNTHETIC = [
    # (name, pattern, replacement, kwargs)  — replacement starting with 'mol:' is parsed as a molecule (Element atoms)
    ('any-reuse-cleave', '[C;z1:1][O:2][C;D1]', '[A:1][A:2]', {}),
    ('any-reuse-charge', '[N;D3:1]', '[A+:1]', {}),
    ('identity-CO', '[C:1]-[O:2]', '[A:1]-[A:2]', {}),
    ('identity-CC', '[C:1]-[C:2]', '[A:1]-[A:2]', {}),
    ('identity-aromatic', '[C;a:1]:[C;a:2]', '[A:1]:[A:2]', {}),
    # identity templates whose replacement lists the neighbours in ANOTHER order than the structure has them: the product's
    # neighbour dicts are permuted, so kept stereo labels (tetrahedron / allene / cis-trans) must really be translated
    ('identity-rev-CO', '[C:1]-[O:2]', '[A:2]-[A:1]', {}),
    ('identity-rev-C=C', '[C:1]=[C:2]', '[A:2]=[A:1]', {}),
    ('identity-allyl', '[C:1]=[C:2]-[C,O:3]', '[A:3]-[A:2]=[A:1]', {}),
    ('identity-branch', '[C:1](-[C,O,N:2])-[C:3]', '[A:3]-[A:1]-[A:2]', {}),
    ('identity-vinyl', '[C:1](-[C:2])=[C:3]', '[A:2]-[A:1]=[A:3]', {}),
    # stereo marks in the replacement on atoms whose replacement neighbours are written in ring-closing / branching orders:
    # the mark is relative to the replacement atom's adjacency order, which the product must reproduce
    ('override-ring', '[O:1]1[C:2][C:3]1[N:4]', '[A:1]1[A:2][A;@:3]1[A:4]', {}),
    ('override-ring-branch', '[O:1]1[C:2][C:3]1[N:4]', '[A:1]1[A:2][A;@@:3]([A:4])1', {}),
    ('override-ring-mol', '[O:1]1[C:2][C:3]1[N:4]', 'mol:[O:1]1[CH2:2][C@H:3]1[NH2:4]', {}),
    ('override-carbocycle', '[C:1]1[C:2][C:3]1[O;D1:4]', '[A:1]1[A:2][A;@:3]1[A:4]', {}),
    ('override-ring4', '[C:1]1[C:2][C:3][C:4]1[N,O;D1:5]', '[A:1]1[A:2][A:3][A;@:4]1[A:5]', {}),
    ('override-acyclic-full', '[C:1]([O;D1:2])([N;D1:3])[C;D1:4]', '[A;@:1]([A:2])([A:3])[A:4]', {}),
    ('override-acyclic-late', '[C;D1:4][C:1]([O;D1:2])[N;D1:3]', '[A:4][A;@@:1]([A:2])[A:3]', {}),
    ('identity-ring-stereo', '[O:1]1[C:2][C;@:3]1[N:4]', '[A:1]1[A:2][A;@:3]1[A:4]', {}),
    ('retype-O-to-S', '[C:1][O;D1:2]', '[C:1][S:2]', {}),
    ('retype-N-to-Nplus', '[C:1][N;D1:2]', '[C:1][N+:2]', {}),
    ('isotope', '[C;D1:1][C:2]', '[13C:1][A:2]', {}),
    ('new-atom', '[C;D1:1][C:2]', '[A:1]([A:2])[O:3]', {}),
    ('new-atom-h', '[C;D1:1]', '[A:1][N;h2:7]', {}),
    ('new-atom-h0', '[O;D1:1][C:2]', '[A:1]([A:2])[C;h0:5]', {}),
    ('new-two-atoms', '[O;D1:1]', '[A:1][C:10](=[O:11])', {}),
    ('new-chain', '[C;D1:1]', '[A:1][C:4][C:5][Cl:6]', {}),
    ('element-replacement', '[C:1][O;D1:2]', 'mol:[CH3:1][NH2:2]', {}),
    ('element-new', '[C;D1:1]', 'mol:[CH3:1][OH:9]', {}),
    ('delete-leaf', '[C:1][F,Cl,Br,I;D1]', '[A:1]', {}),
    ('delete-inner', '[C:1][O;D2][C:2]', '[A:1].[A:2]', {}),
    ('delete-inner-join', '[C:1][O;D2][C:2]', '[A:1][A:2]', {}),
    ('delete-N-branch', '[C;D2:1][N;D3:2]', '[C:1]', {}),
    ('delete-ring-atom', '[C;r5,r6:1][N,O;r5,r6][C:2]', '[A:1][A:2]', {}),
    ('delete-off', '[C:1][O;D2][C:2]', '[A:1].[A:2]', {'delete_atoms': False}),
    ('masked-keep', '[C;M][O:1][C;D1]', '[A:1]', {}),
    ('masked-ring', '[C;M]1[C;M][C;M][C;M:4][C:5][C:6]1', '[A:5]=[A:6]', {}),
    ('masked-named', '[C;M:1][O:2][C;D1:3]', '[A:2]', {}),
    ('bond-up', '[C;z1;D2:1]-[C;z1;D2:2]', '[A:1]=[A:2]', {}),
    ('bond-down', '[C:1]=[C:2]', '[A:1]-[A:2]', {}),
    ('bond-break', '[C;z1:1]-[N:2]', '[A:1].[A:2]', {}),
    ('bond-make', '[C;D1:1][C][C][O;D1:2]', '[A:1][A:2]', {}),
    ('ring-close', '[C;D1:1][C:3][C:4][C:5][C;D1:2]', '[A:1]1[A:3][A:4][A:5][A:2]1', {}),
    ('radical', '[C;D1:1][C:2]', '[A:1][A:2] |^1:0|', {}),
    ('no-automorphism-filter', '[C:1][C:2]', '[A:1]=[A:2]', {'automorphism_filter': False}),
    ('aromatic-substituent', '[C;a:1][Cl,Br;D1:2]', '[A:1][O:2]', {}),
    ('carbonyl-to-thio', '[C:1]=[O:2]', '[A:1]=[S:2]', {}),
    ('nitro-like-charges', '[N;D1:1][C:2]', '[N+:1]([A:2])(=[O:8])[O-:9]', {}),
]



def _attr_templates():
    """Round 5: every atom attribute the replacement can request (charge, radical state, isotope) x the value the PATTERN atom
    has (set / unset) x the way the replacement names the atom (any-atom `A`, concrete query element, molecule `Element`) x
    the value it requests (unset = 0 / False / None, same, different). Atom 1 carries the attribute, atom 2 is its carbon."""
    out = []
    def add(tag, q, r):
        out.append((f'attr-{tag}-{len(out)}', q, r, {}))
    # charge
    sites = [('anion', '[O;-:1]-[C:2]', 'O', 'S'), ('cation', '[N;+:1]-[C:2]', 'N', 'P'),
             ('neutralO', '[O;D1:1]-[C:2]', 'O', 'S'), ('neutralN', '[N;D1:1]-[C:2]', 'N', 'P')]
    for tag, q, el, el2 in sites:
        for ch in ('', '+', '-'):
            add(f'charge-{tag}-A{ch}', q, f'[A{ch}:1]-[A:2]')
            add(f'charge-{tag}-Q{ch}', q, f'[{el}{ch}:1]-[A:2]')
        add(f'charge-{tag}-retype', q, f'[{el2}:1]-[A:2]')
        add(f'charge-{tag}-retype-', q, f'[{el2}-:1]-[A:2]')
    add('charge-anion-mol', '[O;-:1]-[C:2]', 'mol:[OH:1]-[CH3:2]')
    add('charge-anion-mol-', '[O;-:1]-[C:2]', 'mol:[O-:1]-[CH3:2]')
    add('charge-cation-mol', '[N;+:1]-[C:2]', 'mol:[NH2:1]-[CH3:2]')
    add('charge-cation-mol+', '[N;+:1]-[C:2]', 'mol:[NH3+:1]-[CH3:2]')
    add('charge-neutralO-mol-', '[O;D1:1]-[C:2]', 'mol:[O-:1]-[CH3:2]')
    add('charge-zwitterion-A', '[N;+:1]-[C:2]-[C:3](=[O:4])-[O;-:5]', '[A:1]-[A:2]-[A:3](=[A:4])-[A:5]')
    add('charge-zwitterion-swap', '[N;+:1]-[C:2]-[C:3](=[O:4])-[O;-:5]', '[A:1]-[A:2]-[A:3](=[A:4])-[A-:5]')
    add('charge-carboxylate-A', '[O;-:1]-[C:2]=[O:3]', '[A:1]-[A:2]=[A:3]')
    # radical state (CXSMILES radical index = position of the atom in the string)
    for tag, q in (('radO', '[C:2]-[O:1] |^1:1|'), ('radC', '[C:2]-[C;D1:1] |^1:1|'), ('plainO', '[C:2]-[O;D1:1]')):
        el = 'C' if tag == 'radC' else 'O'
        add(f'radical-{tag}-A', q, '[A:2]-[A:1]')
        add(f'radical-{tag}-A^', q, '[A:2]-[A:1] |^1:1|')
        add(f'radical-{tag}-Q', q, f'[A:2]-[{el}:1]')
        add(f'radical-{tag}-Q^', q, f'[A:2]-[{el}:1] |^1:1|')
        add(f'radical-{tag}-partner^', q, '[A:2]-[A:1] |^1:0|')
        add(f'radical-{tag}-mol', q, f'mol:[CH3:2]-[{el}H{3 if el == "C" else ""}:1]')
    # isotope (an any-atom keeps the matched atom's isotope; a concrete element sets the one it is written with, None included)
    for tag, q in (('iso13', '[13C:1][C:2]'), ('isoNone', '[C;D1:1][C:2]')):
        add(f'isotope-{tag}-A', q, '[A:1][A:2]')
        add(f'isotope-{tag}-Q', q, '[C:1][A:2]')
        add(f'isotope-{tag}-Q13', q, '[13C:1][A:2]')
        add(f'isotope-{tag}-Q14', q, '[14C:1][A:2]')
        add(f'isotope-{tag}-mol', q, 'mol:[CH3:1][CH3:2]')
        add(f'isotope-{tag}-mol13', q, 'mol:[13CH3:1][CH3:2]')
    # several attributes on one atom
    add('combo-13C-anion-A', '[13C:1][O;-:2]', '[A:1][A:2]')
    add('combo-13C-anion-Q', '[13C:1][O;-:2]', '[C:1][O:2]')
    add('combo-13C-anion-keep', '[13C:1][O;-:2]', '[13C:1][A-:2]')
    return out


ATTR_TEMPLATES = _attr_templates()

# molecules whose atoms carry the attributes above (the only inputs of ATTR_TEMPLATES; also given to every other template)
ATTR_MOLS = ['CC(=O)[O-]', '[O-]C(=O)c1ccccc1', 'CC[NH3+]', '[NH3+]CC(=O)[O-]', 'CC(C)[O-]', 'C[NH2+]CC', 'CC[O] |^1:2|',
             'C[CH2] |^1:1|', 'CC(C)[CH2] |^1:3|', '[13CH3]CO', '[13CH3][13CH2]N', 'C[14CH2]N', '[13CH3][O-]', '[13CH3]C(=O)[O-]',
             '[O-]CC[NH3+]', '[Na+].CC[O-]', 'CC[13CH2][O] |^1:3|', 'CCO', 'CCN', 'CC']

# templates the constructor or the patcher must reject (error branches)
REJECTED = [
    ('any-new', '[C:1]', '[A:1][A:2]', {}),                 # AnyElement that is not in the pattern -> ValueError in _patcher
    ('two-h-clauses', '[C:1]', '[C;h1,h2:1]', {}),          # ValueError in __init__
    ('variable-bond', '[C:1][C:2]', '[C:1]-,=[C:2]', {}),   # ValueError in __init__
    ('list-element', '[C:1]', '[C,N:1]', {}),               # TypeError in __init__
]


def parse_repl(text):
    from chython import smarts, smiles
    if text.startswith('mol:'):
        m = smiles(text[4:])
        return m
    return smarts(text)


_tpl_cache = {}


def builtin_deprotection():
    """every (pattern, replacement, tests) of chython.reactor.deprotection, read live from the module"""
    if 'dep' not in _tpl_cache:
        import chython.reactor.deprotection as dep
        out = []
        for name in dep._groups:
            for i, rule in enumerate(getattr(dep, '_' + name)):
                out.append((f'deprotection.{name}[{i}]', rule[0], rule[1], list(rule[2:])))
        _tpl_cache['dep'] = out
    return _tpl_cache['dep']


def builtin_reactions():
    """every Reactor of chython.reactor.reactions (one-shot variants), read live"""
    if 'rx' not in _tpl_cache:
        import chython.reactor.reactions as rx
        out = []
        for name in rx.__all__:
            if name in ('PreparedReactor', 'prepare_reactor'):
                continue
            pr = getattr(rx, name)
            for i, r in enumerate(pr.rxn_os):
                out.append((f'reactions.{name}[{i}]', r))
        _tpl_cache['rx'] = out
    return _tpl_cache['rx']


# ------------------------------------------------------------------------------------------------
# implementation side of the K streams
# ------------------------------------------------------------------------------------------------

def impl_patch(t, mol, mapping):
    """real `_get_deleted` + `_patcher` on a private copy of the mapping → same text as the driver's `patch`"""
    mp = dict(mapping)
    try:
        d = sorted(t._get_deleted(mol, mp))
        new = t._patcher(mol, mp)
    except Exception as e:
        return err_text(e)
    nrepl = len(t._replacement)
    return ('ok D ' + ' '.join(map(str, d)) + ' | M ' + ' '.join(f'{k} {v}' for k, v in mp.items()) +
            ' | P ' + ' '.join(map(str, list(new._atoms)[:nrepl])) + ' | ' + render_mol(new))


def strip_stereo_ok(s):
    return ' '.join(s.split())


def norm(s):
    return ' '.join(s.split())


class Cases:
    """collects request lines and the implementation's answers, then diffs against the driver in one batch"""

    def __init__(self, ctx):
        self.ctx = ctx
        self.req, self.exp, self.tag, self.stream, self.replay = [], [], [], [], []
        self.inited = set()

    def add(self, stream, tag, line, expected, nontrivial=True, replay=None):
        self.replay.append(replay)
        self.req.append(line)
        self.exp.append(norm(expected))
        self.tag.append(tag)
        self.stream.append(stream)
        self.ctx.count(line, nontrivial)
        self.ctx.dist('stream:' + stream)

    def run(self):
        ctx = self.ctx
        if not self.req:
            return
        if not ctx.build_ok:
            ctx.notes.append('driver not built: correspondence streams skipped')
            return
        got = core.run_driver('C16', self.req)
        if len(got) != len(self.req):
            ctx.broke('correspondence', 'driver-lines', f'{len(got)} responses for {len(self.req)} requests')
            return
        bad = 0
        sampled = set()
        for line, e, g, tag, st, rp in zip(self.req, self.exp, got, self.tag, self.stream, self.replay):
            g = norm(g)
            if st == 'single_stage_split' and g.startswith('ok ') and e.startswith('ok '):
                g = 'ok ' + canon_mol_text(g[3:])
            elif st == 'trans':
                g = trans_model_to_public(g)
            if g != e:
                bad += 1
                ctx.cov['disagreements_checked'] += 1
                if bad <= 12:
                    ctx.broke('correspondence', st, f'{tag}: model {g[:600]!r} impl {e[:600]!r} request {line[:900]}')
                self.ctx.disagree.append({'stream': st, 'tag': tag, 'request': line, 'replay': rp})
            elif st not in sampled and len(line) < 700 and (st != 'del' or 'rand' in tag) and not g.startswith('err'):
                sampled.add(st)
                ctx.sample({'stream': st, 'case': tag, 'request': line, 'answer': g[:400]}, limit=8)


def add_transformer_cases(cases, name, q, r, mol, tag, kw, limit=6, qs=None, rs=None):
    """public stream (Transformer call) + private streams (_get_deleted/_patcher) for one (template, molecule)"""
    from chython import Transformer
    ctx = cases.ctx
    kw = dict(kw)
    da = kw.get('delete_atoms', True)
    af = kw.get('automorphism_filter', True)
    tenc = enc_template(q, r, da)
    first = name not in cases.inited
    cases.inited.add(name)
    try:
        t = Transformer(q, r, fix_aromatic_rings=False, **kw)
    except Exception as e:
        if first:
            cases.add('init', f'{name}', 'init ' + ' '.join(map(str, tenc)), err_text(e))
            ctx.dist('init:' + type(e).__name__)
        return 0
    if first:
        cases.add('init', f'{name}', 'init ' + ' '.join(map(str, tenc)), 'ok ' + ' '.join(map(str, sorted(t._to_delete))),
                  nontrivial=bool(t._to_delete))
    mappings = list(itertools.islice(q.get_mapping(mol, automorphism_filter=af), limit))
    if not mappings:
        ctx.dist('nomatch')
        return 0
    mints = wire.mol_to_ints(mol)
    changed = True
    rp = {'kind': 'transform', 'template': name, 'pattern': qs or str(q), 'replacement': rs or repl_text(r), 'kwargs': kw,
          'fix_rings': False, 'wire': mints}
    # private stream
    for mp in mappings:
        line = 'patch ' + ' '.join(map(str, tenc + enc_mapping(mp) + mints))
        cases.add('patch', f'{name} on {tag} match {mp}', line, impl_patch(t, mol, mp), nontrivial=changed, replay=rp)
    # public stream: the generator must yield exactly one product per mapping, in the same order
    try:
        prods = list(itertools.islice(t(mol), limit))
        exp = 'ok ' + ' ; '.join(render_mol(p) for p in prods)
    except Exception as e:
        exp = err_text(e)
    line = 'trans ' + ' '.join(map(str, tenc + [len(mappings)] + [x for mp in mappings for x in enc_mapping(mp)] + mints))
    cases.add('trans', f'{name} on {tag}', line, exp, replay=rp)
    ctx.dist(f'matches:{min(len(mappings), 6)}')
    return len(mappings)


def trans_model_to_public(g):
    """the driver's `trans` answer reduced to what the public call shows (the products only)"""
    if not g.startswith('ok'):
        return g
    parts = g[3:].split(' ; ') if len(g) > 3 else []
    return norm('ok ' + ' ; '.join(p.split(' | ')[-1] for p in parts))


# ------------------------------------------------------------------------------------------------
# property-level oracle (independent of the Lean model of the code): spec of the deleted set, frame clauses
# ------------------------------------------------------------------------------------------------

def deleted_spec(bonds, D, R):
    """D ∪ every component of G − D that touches a deleted atom and contains no remaining matched atom.
    `bonds`: {n: iterable of neighbours}. Written from the property statement, not from the code."""
    D, R = set(D), set(R)
    if not D:
        return set()
    comp = {}
    for s in bonds:
        if s in D or s in comp:
            continue
        c, st = {s}, [s]
        while st:
            x = st.pop()
            for y in bonds[x]:
                if y not in D and y not in c:
                    c.add(y)
                    st.append(y)
        fz = frozenset(c)
        for v in c:
            comp[v] = fz
    out = set(D)
    for x in D:
        for n in bonds[x]:
            if n not in D and not (comp[n] & R):
                out |= comp[n]
    return out


def in_normal_form(mol):
    """is the input a fixed point of kekule() + thiele()? (an input in Kekule form or in the 'wrong' condensed-pyrrole tautomer
    is legitimately rewritten by the aromaticity repair even far from the edit)"""
    k = id(mol)
    if _nf_cache.get('k') != k:
        try:
            c = mol.copy()
            c.kekule()
            c.thiele()
            v = canon_mol_text(render_mol(c)) == canon_mol_text(render_mol(mol))
        except Exception:
            v = False
        _nf_cache['k'], _nf_cache['v'], _nf_cache['ref'] = k, v, mol
    return _nf_cache['v']


_nf_cache = {}


def far_from_edit(mol, edited):
    """atoms whose ring system (rings fused through shared atoms, via sssr) and direct neighbours contain no edited atom and
    no neighbour of an edited atom"""
    key = (id(mol), frozenset(edited))
    if _far_cache.get('key') == key:
        return _far_cache['val']
    near = set(edited)
    for n in edited:
        near |= set(mol._bonds.get(n, ()))
    # ring systems: union of rings sharing atoms
    systems = []
    for ring in mol.sssr:
        rs = set(ring)
        merged = [x for x in systems if x & rs]
        for x in merged:
            rs |= x
            systems.remove(x)
        systems.append(rs)
    bad = set(near)
    for x in systems:
        if x & near:
            bad |= x
    # substituents of a touched ring system may exchange hydrogens with it through tautomer repair: exclude them too
    for n in list(bad):
        bad |= set(mol._bonds.get(n, ()))
    val = set(mol._atoms) - bad
    _far_cache['key'], _far_cache['val'], _far_cache['ref'] = key, val, mol   # keep the molecule alive: id() must stay unique
    return val


_far_cache = {}


def pattern_to_delete(q, r, delete_atoms=True):
    if not delete_atoms:
        return set()
    return {n for n, a in q.atoms() if not a.masked} - set(r)


def clauses(q, r, mol, kw=None, fix_rings=False, limit=12, builtin=False):
    try:
        return _clauses(q, r, mol, kw, fix_rings, limit, builtin)
    except Exception as e:
        import traceback
        return [('product-graph', f'the clause oracle could not read the product: {type(e).__name__}: {e} '
                                  f'({traceback.format_exc().splitlines()[-3].strip()})')]


def _clauses(q, r, mol, kw=None, fix_rings=False, limit=12, builtin=False):
    """Evaluate the property's clauses on the REAL Transformer output for (q -> r) on mol.
    Returns a list of (clause, detail). Independent of the Lean model."""
    from chython import Transformer
    from chython.periodictable import AnyElement
    kw = dict(kw or {})
    da = kw.get('delete_atoms', True)
    af = kw.get('automorphism_filter', True)
    bad = []
    t = Transformer(q, r, fix_aromatic_rings=fix_rings, **kw)
    mappings = list(itertools.islice(q.get_mapping(mol, automorphism_filter=af), limit))
    try:
        prods = list(itertools.islice(t(mol), limit))
    except Exception as e:
        if fix_rings and not builtin and type(e).__name__ in ('InvalidAromaticRing', 'ValenceError'):
            return []    # a synthetic template that builds an impossible aromatic ring: kekule() refuses, nothing to compare
        raise
    if len(prods) != len(mappings):
        bad.append(('one-product-per-match', f'{len(mappings)} matches, {len(prods)} products'))
        return bad
    adj = {n: list(ms) for n, ms in mol._bonds.items()}
    tpl_del = pattern_to_delete(q, r, da)
    mx = max(mol._atoms) if mol._atoms else 0
    for mp, p in zip(mappings, prods):
        D = {mp[x] for x in tpl_del}
        R = set(mp.values()) - D
        dele = deleted_spec(adj, D, R)
        named = {}      # replacement atom -> product atom
        new_numbers = []
        nxt = mx
        for n in r:
            if n in mp:
                named[n] = mp[n]
            else:
                nxt += 1
                named[n] = nxt
                new_numbers.append(nxt)
        patched = set(named.values())
        if len(patched) != len(named):
            bad.append(('unique-numbers', f'replacement atoms share a product number: {named}'))
        old_expect = set(mol._atoms) - dele
        old_got = set(p._atoms) & set(mol._atoms)
        got_new = [n for n in p._atoms if n not in mol._atoms]
        if old_got != old_expect:
            bad.append(('deleted-exact', f'match {mp}: surviving atoms {sorted(old_got)} expected {sorted(old_expect)} '
                                         f'(deleted spec {sorted(dele)})'))
            continue
        if len(got_new) != len(new_numbers) or len(set(p._atoms)) != len(list(p._atoms)):
            bad.append(('unique-numbers', f'match {mp}: {len(new_numbers)} new replacement atoms but the product has the new '
                                          f'numbers {got_new} (atoms {sorted(p._atoms)})'))
            continue
        if sorted(got_new) != new_numbers:
            # a different but collision-free numbering scheme: new atoms cannot be identified, skip the named clauses
            continue
        # frame: atoms the template does not name
        for n, sa in mol._atoms.items():
            if n in dele or n in patched:
                continue
            a = p._atoms[n]
            if (a.atomic_number, a.isotope, a.charge, a.is_radical) != (sa.atomic_number, sa.isotope, sa.charge, sa.is_radical):
                bad.append(('frame-atoms', f'match {mp}: unnamed atom {n} changed attributes'))
            if not fix_rings and a.implicit_hydrogens != sa.implicit_hydrogens and sa.implicit_hydrogens is not None:
                bad.append(('frame-atoms', f'match {mp}: unnamed atom {n} changed hydrogens '
                                           f'{sa.implicit_hydrogens}->{a.implicit_hydrogens}'))
            if fix_rings and a.implicit_hydrogens != sa.implicit_hydrogens and sa.implicit_hydrogens is not None \
                    and n in far_from_edit(mol, patched | dele) and in_normal_form(mol):
                # with aromaticity repair on, kekule()/thiele() may move hydrogens inside a ring system the edit touched;
                # an atom whose whole ring system (and neighbourhood) is away from the edit must keep its count
                bad.append(('frame-atoms', f'match {mp}: unnamed atom {n}, away from the edited atoms, changed hydrogens '
                                           f'{sa.implicit_hydrogens}->{a.implicit_hydrogens} (fix_aromatic_rings=True)'))
            want = [(m, int(b)) for m, b in mol._bonds[n].items() if m not in dele]
            got = [(m, int(b)) for m, b in p._bonds[n].items()]
            if fix_rings:
                if sorted(m for m, _ in want) != sorted(m for m, _ in got):
                    bad.append(('frame-bonds', f'match {mp}: unnamed atom {n} neighbours {got} expected {want}'))
            elif want != got:
                bad.append(('frame-bonds', f'match {mp}: unnamed atom {n} bonds {got} expected {want}'))
        # named atoms and bonds as requested
        for n, ra in r.atoms():
            a = p._atoms[named[n]]
            if isinstance(ra, AnyElement):
                sa = mol._atoms[mp[n]]
                want = (sa.atomic_number, sa.isotope, ra.charge, ra.is_radical)
            else:
                want = (ra.atomic_number, ra.isotope, ra.charge, ra.is_radical)
            if (a.atomic_number, a.isotope, a.charge, a.is_radical) != want:
                bad.append(('named-atoms', f'match {mp}: replacement atom {n} -> {named[n]} is '
                                           f'{(a.atomic_number, a.isotope, a.charge, a.is_radical)} requested {want}'))
        for n in r:
            pn = named[n]
            want = {named[m]: int(b) for m, b in r._bonds[n].items()}
            got = {m: int(b) for m, b in p._bonds[pn].items() if m in patched}
            if fix_rings:
                if set(want) != set(got):
                    bad.append(('named-bonds', f'match {mp}: bonds of {pn} among named atoms {got} requested {want}'))
            elif want != got:
                bad.append(('named-bonds', f'match {mp}: bonds of {pn} among named atoms {got} requested {want}'))
            # bonds of a named atom to unnamed survivors are kept
            if n in mp:
                wantu = sorted((m, int(b)) for m, b in mol._bonds[mp[n]].items() if m not in dele and m not in patched)
                gotu = sorted((m, int(b)) for m, b in p._bonds[pn].items() if m not in patched)
                if (sorted(m for m, _ in wantu) != sorted(m for m, _ in gotu)) if fix_rings else (wantu != gotu):
                    bad.append(('frame-bonds', f'match {mp}: named atom {pn} bonds to unnamed atoms {gotu} expected {wantu}'))
        # adjacency of the product is symmetric and closed
        for n, ms in p._bonds.items():
            for m, b in ms.items():
                if m not in p._bonds or p._bonds[m].get(n) is not b:
                    bad.append(('product-graph', f'match {mp}: bond {n}-{m} not symmetric'))
        if builtin and not mol.check_valence() and p.check_valence():
            bad.append(('valence-valid', f'match {mp}: product has valence errors at {p.check_valence()}'))
    return bad


# ------------------------------------------------------------------------------------------------
# `_get_deleted` on bare graphs (exhaustive small graphs x every role assignment)
# ------------------------------------------------------------------------------------------------

def all_graphs(n):
    verts = list(range(1, n + 1))
    pairs = list(itertools.combinations(verts, 2))
    for mask in range(1 << len(pairs)):
        yield [pairs[i] for i in range(len(pairs)) if mask >> i & 1]


def bare_case(n, edges, roles, rng=None, labels=None):
    """roles[v] in 'DRU' (deleted matched / remaining matched / unmatched). Returns (bonds dict, tpl_delete, mapping)."""
    verts = list(range(1, n + 1))
    lab = labels or {v: v for v in verts}
    order = verts[:]
    es = list(edges)
    if rng is not None:
        rng.shuffle(order)
        rng.shuffle(es)
        es = [(a, b) if rng.random() < 0.5 else (b, a) for a, b in es]
    bonds = {lab[v]: {} for v in order}
    for a, b in es:
        bonds[lab[a]][lab[b]] = 1
        bonds[lab[b]][lab[a]] = 1
    mapping, tpl = {}, []
    k = 100
    mverts = [v for v in verts if roles[v - 1] in 'DR']
    if rng is not None:
        rng.shuffle(mverts)
    for v in mverts:
        k += 1
        mapping[k] = lab[v]
        if roles[v - 1] == 'D':
            tpl.append(k)
    return bonds, tpl, mapping


def del_line(bonds, tpl, mapping):
    out = [len(tpl)] + list(tpl) + enc_mapping(mapping) + [len(bonds)]
    for n, ms in bonds.items():
        out += [n, len(ms)] + list(ms)
    return 'del ' + ' '.join(map(str, out))


def impl_del(bonds, tpl, mapping):
    try:
        r = bare_reactor(set(tpl))._get_deleted(BareGraph(bonds), dict(mapping))
        return 'ok ' + ' '.join(map(str, sorted(r)))
    except Exception as e:
        return err_text(e)


def spec_del(bonds, tpl, mapping):
    D = {mapping[x] for x in tpl}
    return deleted_spec(bonds, D, set(mapping.values()) - D)


def add_del_cases(cases, ctx):
    rng = ctx.rng
    n_exh = 4 if ctx.quick else 5
    total = 0
    for n in range(1, n_exh + 1):
        for edges in all_graphs(n):
            for roles in itertools.product('DRU', repeat=n):
                if 'D' not in roles:
                    continue
                bonds, tpl, mapping = bare_case(n, edges, roles, rng)
                exp = impl_del(bonds, tpl, mapping)
                cases.add('del', f'graph{n} {edges} roles {"".join(roles)}', del_line(bonds, tpl, mapping), exp,
                          nontrivial=len(edges) > 0)
                spec = 'ok ' + ' '.join(map(str, sorted(spec_del(bonds, tpl, mapping))))
                if exp != spec:
                    ctx.fail('C16/deleted-exact', f'_get_deleted returned {exp} but the detached-fragment spec gives {spec}',
                             {'kind': 'del', 'bonds': {str(k): list(v) for k, v in bonds.items()}, 'tpl': tpl,
                              'mapping': {str(k): v for k, v in mapping.items()}})
                total += 1
    # sampled larger graphs with random labels
    for n, k in ((5, 1500), (6, 1500), (8, 400)) if ctx.quick else ((6, 20000), (7, 8000), (9, 3000)):
        pairs = list(itertools.combinations(range(1, n + 1), 2))
        for _ in range(k):
            p = rng.choice([0.2, 0.3, 0.45])
            edges = [e for e in pairs if rng.random() < p]
            roles = [rng.choice('DRUU') for _ in range(n)]
            if 'D' not in roles:
                roles[rng.randrange(n)] = 'D'
            labels = dict(zip(range(1, n + 1), rng.sample(range(1, 40), n)))
            bonds, tpl, mapping = bare_case(n, edges, roles, rng, labels)
            exp = impl_del(bonds, tpl, mapping)
            cases.add('del', f'rand{n} {edges} roles {"".join(roles)}', del_line(bonds, tpl, mapping), exp,
                      nontrivial=len(edges) > 0)
            spec = 'ok ' + ' '.join(map(str, sorted(spec_del(bonds, tpl, mapping))))
            if exp != spec:
                ctx.fail('C16/deleted-exact', f'_get_deleted returned {exp} but the detached-fragment spec gives {spec}',
                         {'kind': 'del', 'bonds': {str(k): list(v) for k, v in bonds.items()}, 'tpl': tpl,
                          'mapping': {str(k): v for k, v in mapping.items()}})
            total += 1
    # error branches: mapping lacks a template atom; a deleted atom is not a key of the adjacency; dangling neighbour
    bonds = {1: {2: 1}, 2: {1: 1}}
    for tpl, mapping, b in (([101, 102], {101: 1}, bonds), ([101], {101: 7}, bonds), ([101], {101: 1}, {1: {2: 1}}),
                            ([101], {101: 1}, {1: {2: 1}, 2: {1: 1, 3: 1}}), ([], {101: 1}, bonds)):
        cases.add('del', f'error-branch {tpl} {mapping}', del_line(b, tpl, mapping), impl_del(b, tpl, mapping))
    ctx.dist('del-cases', total)
    if not ctx.quick or True:
        ctx.notes.append(f'_get_deleted: every graph on <= {n_exh} labelled vertices x every D/R/U role assignment enumerated')


# ------------------------------------------------------------------------------------------------
# Reactor: fix_mapping_overlap, _single_stage (union, patch, collision remap), public call
# ------------------------------------------------------------------------------------------------

BLOCKS = ['CC(=O)O', 'OC(=O)c1ccccc1', 'CN', 'CCNCC', 'Nc1ccccc1', 'C1CCNCC1', 'Brc1ccccc1', 'Clc1ccncc1', 'Ic1ccc(C)cc1',
          'OB(O)c1ccccc1', 'CC1(C)OB(OC1(C)C)c1ccccc1', 'C#Cc1ccccc1', 'CC#C', 'O=C=Nc1ccccc1', 'CN=C=O', 'CS(=O)(=O)Cl',
          'O=S(=O)(Cl)c1ccccc1', 'CC=O', 'O=Cc1ccccc1', 'CC(C)=O', 'CCO', 'OCc1ccccc1', 'CC(C)O', 'NCC(=O)O',
          'OC(=O)CCC(=O)O', 'NCCN', 'C=CCBr', 'CCCBr', 'BrCC(=O)OC', 'OC(=O)C(F)(F)F', 'CC(N)C(=O)O',
          'FC(F)(F)c1ccc(Br)cc1', 'Nc1ccc(Br)cc1', 'OB(O)C1CC1', 'CC(C)(C)OC(=O)NCCN', 'O=C1CCCCC1', 'CNC',
          'c1ccc(Nc2ccccc2)cc1', 'CNc1ccccc1', 'C1CNCO1', 'CNOC', 'CNNC(C)=O', 'BrC=C', 'CC=CBr', 'CC(Cl)=O', 'OB(O)C=C',
          'OB(O)C#CC', 'OB(O)C=CC', 'CCl', 'CCCl', 'CCBr', 'BrCCCBr', 'O=CCC=O', 'C[C@H](Br)CC',
          # several reactive sites in one molecule (one match of a pattern is combined with several matches of another)
          'OCCO', 'NCC(C)CCN', 'OB(O)c1ccc(cc1)B(O)O', 'Brc1ccc(Br)cc1', 'Nc1ccc(N)cc1', 'C#CCCC#C', 'O=C=NCCN=C=O',
          'ClS(=O)(=O)CCS(Cl)(=O)=O', 'OC(=O)c1ccc(cc1)C(O)=O', 'CNCCNC', 'O=CCCC(C)=O',
          'NCC1=C2C=CN=C2C=CN1', 'OC(=O)CC1=C2C=CN=C2C=CN1', 'OCC1=C2C=CN=C2C=CN1', '[Na+].[Cl-]', 'O',
          # Round 5: charged / radical / isotopically labelled building blocks
          'CC(=O)[O-]', '[O-]C(=O)c1ccccc1', 'CC[NH3+]', 'C[NH2+]C', 'CC[O] |^1:2|', 'C[CH2] |^1:1|', '[13CH3]C(=O)[O-]',
          '[13CH3]CC', '[13CH3]C(C)=O', '[Na+]']

SYNTH_REACTORS = [
    # (name, patterns, products, kwargs)
    ('ester', ['[C:1](=[O:2])[O;D1:3]', '[C;z1:4][O;D1:5]'], ['[A:1](=[A:2])[A:5][A:4]'], {}),
    ('alkylation-salt', ['[C;z1:1][Cl,Br;D1:2]', '[N;D1:3][C:4]'], ['[A:1][A:3][A:4]', '[A-:2]'], {}),
    ('single-pattern', ['[C:1]=[O:2]'], ['[A:1]-[A:2]'], {}),
    ('single-pattern-multi', ['[C;z1:1][Br;D1:2]'], ['[A:1][O:2]'], {'one_shot': False, 'polymerise_limit': 3}),
    ('new-atoms-two-reactants', ['[C:1][N;D1:2]', '[C:3][O;D1:4]'], ['[A:1][A:2][C:7](=[O:8])[A:4][A:3]'], {}),
    ('keep-all', ['[N;D1:1]', '[O;D1:2]'], ['[A:1].[A:2]'], {'delete_atoms': False}),
    # Round 5: pattern atoms that are charged / radical / isotopic, named by the products with other (or neutral) attributes
    ('carboxylate-protonate', ['[O;-:1]-[C:2]=[O:3]'], ['[A:1]-[A:2]=[A:3]'], {}),
    ('ammonium-to-amine-Q', ['[N;+:1][C:2]'], ['[N:1][A:2]'], {}),
    ('ammonium-acylation', ['[N;+:1][C:2]', '[C:3](=[O:4])[Cl;D1:5]'], ['[A:2][A:1][A:3]=[A:4]', '[A-:5]'], {}),
    ('carboxylate-alkylation', ['[O;-:1][C:2]=[O:3]', '[C;z1:4][Br;D1:5]'], ['[A:3]=[A:2][A:1][A:4]', '[A-:5]'], {}),
    ('radical-recombination', ['[C:1][O:2] |^1:1|', '[C:3][C;D1:4] |^1:1|'], ['[A:1][A:2][A:4][A:3]'], {}),
    ('label-scramble', ['[13C;D1:1][C:2]', '[C;D1:3][O:4]'], ['[C:1][A:2]', '[13C:3][A:4]'], {}),
]


def blocks():
    if 'blocks' not in _tpl_cache:
        from chython import smiles
        _tpl_cache['blocks'] = [(b, smiles(b)) for b in BLOCKS]
    return _tpl_cache['blocks']


def infer_remap_order(before, after):
    """`after` = `before` with some atoms renumbered by dict(zip(<set order>, count(start))), dict order preserved:
    returns the renumbered old ids in the order the set was iterated (ascending new number)."""
    ch = [(b, a) for b, a in zip(before._atoms, after._atoms) if a != b]
    return [b for b, a in sorted(ch, key=lambda p: p[1])]


def add_overlap_case(cases, tag, mols):
    from chython.reactor.reactor import fix_mapping_overlap
    try:
        fixed = fix_mapping_overlap(mols)
        exp = 'ok ' + ' ; '.join(render_mol(f) for f in fixed)
        orders = [infer_remap_order(m, f) for m, f in zip(mols, fixed)]
    except Exception as e:
        exp, orders, fixed = err_text(e), [[] for _ in mols], None
    req = [len(mols)]
    for o in orders:
        req += [len(o)] + o
    for m in mols:
        req += wire.mol_to_ints(m)
    cases.add('overlap', tag, 'overlap ' + ' '.join(map(str, req)), exp, nontrivial=any(orders))
    return fixed


def add_union_cases(cases, ctx, pool):
    """K `union2`: the real `a.union(b, remap=flag)` (both flags; `a | b` is flag=True) vs the model `unionR`, on pairs with
    fully colliding numbers (as parsed), partially colliding, shuffled and disjoint numbers; the MappingError branch included"""
    rng = ctx.rng
    pairs = []
    for _ in range(40 if ctx.quick else 400):
        (ta, a), (tb, b) = rng.choice(pool), rng.choice(pool)
        a, b = a.copy(), b.copy()
        mode = rng.choice(['collide', 'collide', 'partial', 'shuffled', 'disjoint', 'disjoint-below', 'gap'])
        if mode == 'partial':
            sh = max(len(a) - rng.randint(1, 2), 0)
            b.remap({n: n + sh for n in list(b)[::-1]} if sh else {})
        elif mode == 'shuffled':
            a, b = molgen.renumber(rng, a)[0], molgen.renumber(rng, b)[0]
        elif mode == 'disjoint':
            sh = max(a) + rng.randint(0, 3)
            b.remap({n: n + sh for n in list(b)})
        elif mode == 'disjoint-below':
            sh = max(b) + 1
            a.remap({n: n + sh for n in list(a)})
        elif mode == 'gap':      # sparse numbers: max(a) is not len(a)
            a.remap({n: 3 * n + 7 for n in list(a)})
            b.remap({n: 2 * n for n in list(b)})
        pairs.append((f'{ta}|{tb} {mode}', a, b))
    for tag, a, b in pairs:
        for flag in (1, 0):
            try:
                exp = 'ok ' + render_mol(a.union(b, remap=bool(flag)))
            except Exception as e:
                exp = err_text(e)
            ctx.dist('union:' + ('ok' if exp.startswith('ok') else exp))
            line = 'union2 ' + ' '.join(map(str, [flag] + wire.mol_to_ints(a) + wire.mol_to_ints(b)))
            cases.add('union', f'{tag} remap={flag}', line, exp, nontrivial=bool(set(a) & set(b)) or not flag)


# exhaustive mode (`one_shot=False`): templates that can fire several times, (name, patterns, products, molecules, limits)
WORKLIST_CASES = [
    ('halide-hydrolysis', ['[C;z1:1][Cl,Br;D1:2]'], ['[A:1][O:2]'],
     [['BrCCCBr'], ['BrCC(Br)CBr'], ['ClCCl', 'CCO'], ['BrCCBr', 'ClCCCl'], ['CCBr', 'CCBr'], ['CCO']], (0, 1, 2, 3)),
    ('aryl-halide', ['[C;a:1][Cl,Br;D1:2]'], ['[A:1][O:2]'], [['Brc1ccc(Br)cc1'], ['Brc1ccc(Cl)cc1', 'c1ccccc1Cl']], (2, 3)),
    ('methyl-ester-cleave', ['[C;z2:1][O:2][C;D1]'], ['[A:1][A:2]'], [['COC(=O)CCC(=O)OC'], ['COC(=O)c1ccc(cc1)C(=O)OC', 'CO']], (1, 2, 3)),
    ('methyl-ether-cleave', ['[C;z1:1][O:2][C;D1]'], ['[A:1][A:2]'], [['COCCOC'], ['COCC(OC)COC']], (2, 3)),
    ('bis-acetate', ['[C:1][O:2][C](=[O])[C;D1]'], ['[A:1][A:2]'], [['CC(=O)OCCOC(C)=O'], ['CC(=O)OCC(OC(C)=O)COC(C)=O']], (2, 3)),
    ('bis-boc', ['[N:1][C](=[O])[O][C]([C;D1])([C;D1])[C;D1]'], ['[A:1]'], [['CC(C)(C)OC(=O)NCCNC(=O)OC(C)(C)C']], (1, 2, 3)),
    ('bis-tms', ['[O:1][Si]([C;D1])([C;D1])[C;D1]'], ['[A:1]'], [['C[Si](C)(C)OCCO[Si](C)(C)C', 'CCO']], (2, 3)),
    ('carbonyl-reduce', ['[C:1]=[O:2]'], ['[A:1]-[A:2]'], [['O=CCC=O'], ['O=CCCC(C)=O', 'CC=O']], (2, 3)),
    ('ester', ['[C:1](=[O:2])[O;D1:3]', '[C;z1:4][O;D1:5]'], ['[A:1](=[A:2])[A:5][A:4]'],
     [['OC(=O)CCC(=O)O', 'OCCO'], ['CC(=O)O', 'OCCO'], ['OC(=O)CCC(=O)O', 'CCO', 'CO']], (1, 2)),
    ('alkylation-salt', ['[C;z1:1][Cl,Br;D1:2]', '[N;D1:3][C:4]'], ['[A:1][A:3][A:4]', '[A-:2]'],
     [['BrCCCBr', 'CN'], ['CCBr', 'NCCN'], ['CCBr', 'CN', '[Na+]']], (1, 2)),
    ('ammonium-acylation', ['[N;+:1][C:2]', '[C:3](=[O:4])[Cl;D1:5]'], ['[A:2][A:1][A:3]=[A:4]', '[A-:5]'],
     [['CC[NH3+]', 'CC(Cl)=O', 'C[NH2+]C'], ['C[NH2+]C', 'ClC(=O)CCC(Cl)=O']], (2,)),
]


def step_system(R, mols, limit, cap_items=400):
    """the un-deduplicated step system of the exhaustive mode, computed with the real `_single_stage`, `ReactionContainer`,
    `contract_ions`, `str` and `fix_mapping_overlap`: a tree of queue items (chosen, ignored, depth); per item the reactions it
    yields with their `str`, the 'ambiguous' flag and the items the code would append. No queue, no `seen`, no depth test —
    those are the model's part. Returns (init ids, rows, key ids) or None when the tree is too large."""
    from chython import ReactionContainer
    from chython.reactor.reactor import fix_mapping_overlap
    from itertools import permutations, combinations
    k = len(R._patterns)
    structures = fix_mapping_overlap([m.copy() for m in mols])
    n = len(structures)
    items, init, rows, keyid = [], [], {}, {}
    for ch in permutations(range(n), k):
        init.append(len(items))
        items.append(([structures[x] for x in ch], [structures[x] for x in range(n) if x not in ch], 0))
    levels = max(limit, 1)
    rid = 0
    i = 0
    while i < len(items):
        chosen, ignored, depth = items[i]
        if depth < levels:
            row = []
            for new in R._single_stage(chosen, {x for m in ignored for x in m}):
                r = ReactionContainer([x.copy() for x in structures], new + [x.copy() for x in ignored])
                stop = False
                if len(new) > 1:
                    r.contract_ions()
                    stop = len(r.products) != len(ignored) + len(R._products_atoms)
                key = keyid.setdefault(str(r), len(keyid) + 1)
                rid += 1
                ids = []
                if not stop:
                    prod = r.products
                    if k == 1:
                        succ = [([prod[j]], [*prod[:j], *prod[j + 1:]]) for j in range(len(prod))]
                    else:
                        succ = [(list(ch), [*prod[:j], *prod[j + 1:]]) for chp in combinations(chosen, k - 1)
                                for j in range(len(prod)) for ch in permutations(fix_mapping_overlap((prod[j], *chp)), k)]
                    for c, ig in succ:
                        ids.append(len(items))
                        items.append((c, ig, depth + 1))
                row.append((rid, key, int(stop), ids))
            rows[i] = row
        i += 1
        if len(items) > cap_items:
            return None
    return init, rows, keyid


# ------------------------------------------------------------------------------------------------
# public entry points of the built-in collections (R): PreparedReactor.__call__, deprotection functions, copy_metadata
# ------------------------------------------------------------------------------------------------

def prepared_reactor_clauses(pr, mols, cap=80):
    """`PreparedReactor.__call__` against its parts (real code only): one-shot without alerts = the reactions of its one-shot
    template Reactors in template order, each string once; with alerts = nothing when a global alert matches a reactant, else
    the same with the alerted templates left out; multistage mode: product numbers unique, and every one-shot product state
    is delivered."""
    try:
        return _prepared_reactor_clauses(pr, mols, cap)
    except Exception as e:
        return [('prepared-reactor', f'{pr!r} raised {type(e).__name__}: {e} on {[str(m) for m in mols]}')]


def _prepared_reactor_clauses(pr, mols, cap):
    from chython.reactor.reactor import fix_mapping_overlap
    bad = []
    hits = lambda a, m: next(iter(a.get_mapping(m)), None) is not None

    def expected(skip_alerted):
        if skip_alerted and any(hits(a, m) for a in pr.global_alerts for m in mols):
            return []
        out, seen = [], set()
        ms = fix_mapping_overlap([m.copy() for m in mols])
        for rx, al in zip(pr.rxn_os, pr.alerts):
            if skip_alerted and any(hits(a, m) for a in al for m in mols):
                continue
            for r in itertools.islice(rx(*[m.copy() for m in ms]), cap + 1):
                if str(r) not in seen:
                    seen.add(str(r))
                    out.append(r)
        return out

    for ca in (False, True):
        exp = expected(ca)
        if len(exp) > cap:
            return bad
        got = list(itertools.islice(pr(*[m.copy() for m in mols], check_alerts=ca), cap + 2))
        if [str(r) for r in got] != [str(r) for r in exp]:
            bad.append(('one-product-per-match', f'{pr!r}(check_alerts={ca}) on {[str(m) for m in mols]} delivers '
                                                 f'{[str(r) for r in got][:4]} but its templates deliver {[str(r) for r in exp][:4]}'))
    one = expected(True)
    multi = list(itertools.islice(pr(*[m.copy() for m in mols], one_shot=False), cap + 1))
    if len(multi) <= cap:
        # (the multistage mode de-duplicates by the string of the INNER reaction, whose reactants differ from stage to stage:
        #  two routes to the same overall products are two deliveries — not required to be merged by the property)
        for r in multi:
            nums = [n for p_ in r.products for n in p_]
            if len(nums) != len(set(nums)):
                bad.append(('unique-numbers', f'{pr!r}(one_shot=False): product atom numbers repeat in {r}'))
                break
        if all(string_stable(m) for m in mols):
            have = {state_key(r.products) for r in multi}
            for r in one:
                if state_key(r.products) not in have and all(string_stable(m) for m in r.products):
                    bad.append(('exhaustive-complete', f'{pr!r}(one_shot=False) does not deliver the one-shot product state '
                                                       f'{list(state_key(r.products))} on {[str(m) for m in mols]}'))
                    break
    return bad


def deprotection_group_clauses(name, mol, limit=40):
    """the public deprotection function of a group against its parts: apply the group's rules in order, each until it no longer
    matches, always taking the first product of `Transformer(rule)` — and the result must not match the last applied rule"""
    import chython.reactor.deprotection as dep
    from chython import smarts, Transformer
    try:
        rules = getattr(dep, '_' + name)
        exp, steps = mol.copy(), 0
        for r, p, *_ in rules:
            T = Transformer(smarts(r), smarts(p))
            while steps < limit:
                nxt = next(T(exp), None)
                if nxt is None:
                    break
                exp, steps = nxt, steps + 1
        if steps >= limit:
            return []
        got = getattr(dep, name)(mol.copy())
        if sig_str(got) != sig_str(exp) or sorted(got) != sorted(exp):
            return [('one-product-per-match', f'deprotection.{name}({mol}) gives {got} (atoms {sorted(got)}) but applying its rules '
                                              f'one match at a time gives {exp} (atoms {sorted(exp)})')]
    except Exception as e:
        return [('prepared-reactor', f'deprotection.{name}({mol}) raised {type(e).__name__}: {e}')]
    return []


def apply_all_clauses(mol):
    """`deprotection.apply_all` = the group functions chained in the collection's order"""
    import chython.reactor.deprotection as dep
    try:
        exp = mol.copy()
        for name in dep._groups:
            exp = getattr(dep, name)(exp)
        got = dep.apply_all(mol.copy())
        if sig_str(got) != sig_str(exp) or sorted(got) != sorted(exp):
            return [('one-product-per-match', f'deprotection.apply_all({mol}) gives {got} but chaining the group functions gives {exp}')]
    except Exception as e:
        return [('prepared-reactor', f'deprotection.apply_all({mol}) raised {type(e).__name__}: {e}')]
    return []


def metadata_clauses(q, r, mol):
    """`copy_metadata`: with True every product carries the reactant's metadata, with False (default) none of it"""
    from chython import Transformer
    m = mol.copy()
    m.meta.update({'source': 'c16', 'n': 7})
    bad = []
    for flag in (True, False):
        try:
            for p_ in itertools.islice(Transformer(q, r, copy_metadata=flag)(m), 3):
                if dict(p_.meta) != (dict(m.meta) if flag else {}):
                    bad.append(('frame-atoms', f'copy_metadata={flag}: product metadata {dict(p_.meta)} for reactant metadata {dict(m.meta)}'))
        except Exception:
            pass
    if dict(m.meta) != {'source': 'c16', 'n': 7}:
        bad.append(('frame-atoms', 'the reactant metadata was modified'))
    return bad


def probe_public(inp):
    import chython.reactor.reactions as rx
    from chython import smarts
    if inp['what'] == 'prepared':
        mols = [wire.ints_to_mol(w, calc=True)[0] for w in inp['wires']]
        bad = prepared_reactor_clauses(getattr(rx, inp['name']), mols)
    elif inp['what'] == 'deprotection':
        mol = wire.ints_to_mol(inp['wire'], calc=True)[0]
        bad = apply_all_clauses(mol) if inp['name'] == 'apply_all' else deprotection_group_clauses(inp['name'], mol)
    else:
        mol = wire.ints_to_mol(inp['wire'], calc=True)[0]
        bad = metadata_clauses(smarts(inp['pattern']), parse_repl(inp['replacement']), mol)
    return bool(bad), '; '.join(f'{c}: {d}' for c, d in bad[:3]) or 'public entry point clauses hold'


def add_public_clauses(ctx):
    import chython.reactor.reactions as rx
    import chython.reactor.deprotection as dep
    from chython import smiles, smarts
    rng = ctx.rng
    # prepared reactors: the first input set of two of their templates, and one set with an alerted molecule added
    for name in rx.__all__:
        if name in ('PreparedReactor', 'prepare_reactor'):
            continue
        pr = getattr(rx, name)
        idx = [0] + ([rng.randrange(1, len(pr.rxn_os))] if len(pr.rxn_os) > 1 else []) + \
              (list(range(1, len(pr.rxn_os))) if not ctx.quick else [])
        done = set()
        for i in idx:
            if i in done:
                continue
            done.add(i)
            sets = reactor_inputs(ctx, list(pr.rxn_os[i]._patterns), 0)[:1]
            alerts = list(pr.global_alerts) + [a for al in pr.alerts for a in al]
            extra = [m for _, m in blocks() if any(a < m for a in alerts)][:1]
            for tag, ms in sets + [(tag + '+alerted', ms + [e.copy()]) for tag, ms in sets for e in extra]:
                if sum(len(m) for m in ms) > 40:
                    continue
                ctx.count(('prepared', name, tag))
                ctx.dist('prepared-reactor-checked')
                for cl, det in prepared_reactor_clauses(pr, ms):
                    ctx.fail(f'C16/{cl}', det, {'kind': 'public', 'what': 'prepared', 'name': name, 'wires': [wire.mol_to_ints(m) for m in ms]})
    # deprotection functions on their rules' own test molecules; apply_all on a sample
    allt = []
    for name in dep._groups:
        tests = [t for rule in getattr(dep, '_' + name) for t in rule[2:]]
        # each test molecule, and two copies of the first one in ONE molecule (two protective groups of the same kind: the rule
        # has to be applied twice)
        for t in (tests[:2] if ctx.quick else tests) + [f'{x}.{x}' for x in tests[:1]]:
            try:
                mol = smiles(t)
            except Exception:
                continue
            allt.append(mol)
            ctx.count(('deprotection-public', name, t))
            ctx.dist('deprotection-function-checked')
            for cl, det in deprotection_group_clauses(name, mol):
                ctx.fail(f'C16/{cl}', det, {'kind': 'public', 'what': 'deprotection', 'name': name, 'wire': wire.mol_to_ints(mol)})
    for mol in rng.sample(allt, min(len(allt), 6 if ctx.quick else 60)) + [smiles('CC(C)(C)OC(=O)NCCOC(C)=O'), smiles('CCO')]:
        ctx.count(('apply_all', str(mol)))
        ctx.dist('apply-all-checked')
        for cl, det in apply_all_clauses(mol):
            ctx.fail(f'C16/{cl}', det, {'kind': 'public', 'what': 'deprotection', 'name': 'apply_all', 'wire': wire.mol_to_ints(mol)})
    # copy_metadata
    for qs, rs, ms in (('[C:1][O;D1:2]', '[A:1][S:2]', 'CCO'), ('[C;D1:1]', '[A:1][N;h2:7]', 'CC'), ('[C:1]=[O:2]', '[A:1]-[A:2]', 'CC(C)=O')):
        mol = smiles(ms)
        ctx.count(('metadata', qs, ms))
        for cl, det in metadata_clauses(smarts(qs), parse_repl(rs), mol):
            ctx.fail(f'C16/{cl}', det, {'kind': 'public', 'what': 'metadata', 'pattern': qs, 'replacement': rs, 'wire': wire.mol_to_ints(mol)})


ION_POOL = ['[Na+]', '[K+]', '[Cl-]', '[Br-]', '[Ca+2]', '[Mg+2]', 'CC(=O)[O-]', 'C[NH3+]', '[O-]S(=O)(=O)[O-]', '[NH4+]', '[OH-]', '[Al+3]',
            'O', 'CCO', '[O-]C(=O)CC(=O)[O-]', 'C[N+](C)(C)C', '[NH3+]CC(=O)[O-]', '[Cl-]', '[Na+]', '[O-]P(=O)([O-])[O-]']


def add_ions_cases(cases, ctx):
    """K `ions`: the real `ReactionContainer.contract_ions()` (reactants and products side, incl. the ordering of product ions
    by their position among the reactants') vs the model `contractSide` / `contractProducts`. Molecules carry disjoint
    numbers, so the molecules united into a salt, and the union order, are read off the salt's atom dict."""
    from chython import smiles, ReactionContainer
    rng = ctx.rng
    pool = [smiles(x) for x in ION_POOL]
    for case in range(60 if ctx.quick else 600):
        nxt = [1]

        def fresh(m):
            m = m.copy()
            m.remap({n: nxt[0] + i for i, n in enumerate(list(m))})
            nxt[0] += len(m)
            return m
        reactants = [fresh(rng.choice(pool)) for _ in range(rng.choice([0, 1, 2, 2, 3, 3, 4, 5, 6]))]
        if rng.random() < 0.5:
            # products: the reactants' molecules again (same numbers) in another order, some dropped, some new
            products = [m.copy() for m in reactants if rng.random() < 0.8]
            rng.shuffle(products)
            products += [fresh(rng.choice(pool)) for _ in range(rng.choice([0, 0, 1, 2]))]
        else:
            products = [fresh(rng.choice(pool)) for _ in range(rng.choice([0, 1, 2, 3, 4, 5]))]
        if not reactants and not products:     # an empty ReactionContainer cannot be built
            reactants = [fresh(rng.choice(pool))]
        clsid = {}
        sides = []
        for side in (reactants, products):
            ions, owner = [], {}
            for i, m in enumerate(side, 1):
                ions.append((i, clsid.setdefault(m, len(clsid) + 1), int(m), frozenset(m)))
                for n in m:
                    owner[n] = i
            sides.append((ions, owner))
        try:
            r = ReactionContainer([m.copy() for m in reactants], [m.copy() for m in products])
            r.contract_ions()
            got = []
            for (ions, owner), mols in zip(sides, (r.reactants, r.products)):
                groups = []
                for m in mols:
                    g = []
                    for n in m:
                        if owner[n] not in g:
                            g.append(owner[n])
                    groups.append(' '.join(map(str, g)))
                got.append('ok ' + ' ; '.join(groups))
        except Exception as e:
            got = [err_text(e), err_text(e)]
        # keys of the product ions: position of the same atom set among the reactants' anions / cations, when the reactants'
        # side was contracted (`anions_order` / `cations_order` of `contract_ions`), else -1
        rions = sides[0][0]
        contracted = len(r.reactants) != len(reactants) if not got[0].startswith('err') else False
        an_order = {fs: k for k, (_, _, c, fs) in enumerate(x for x in rions if x[2] < 0)} if contracted else {}
        ct_order = {fs: k for k, (_, _, c, fs) in enumerate(x for x in rions if x[2] > 0)} if contracted else {}
        for mode, (ions, _), exp in ((0, sides[0], got[0]), (1, sides[1], got[1])):
            req = [mode, len(ions)]
            for i, cls, c, fs in ions:
                req += [i, cls, c, an_order.get(fs, -1) if mode else -1, ct_order.get(fs, -1) if mode else -1]
            ctx.dist('ions:' + ('contracted' if exp.startswith('ok') and exp.count(';') + 1 < len(ions) else
                                'unchanged' if exp.startswith('ok') else exp))
            cases.add('ions', f'case {case} side {mode}', 'ions ' + ' '.join(map(str, req)), exp,
                      nontrivial=any(c for _, _, c, _ in ions))


def add_oneshot_case(cases, name, patterns, products, kw, mols, tag):
    """K `oneshot`: the sequence of `str(r)` the real one-shot `Reactor.__call__` yields vs the model's `oneShot` over the
    reactions recorded per choice of reactants (real `_single_stage`, `ReactionContainer`, `contract_ions`, `str`)"""
    from chython import Reactor, ReactionContainer
    from chython.reactor.reactor import fix_mapping_overlap
    from itertools import permutations
    ctx = cases.ctx
    kw2 = {k: v for k, v in dict(kw).items() if k in ('delete_atoms', 'automorphism_filter')}
    try:
        R = Reactor(patterns, products, one_shot=True, fix_aromatic_rings=False, **kw2)
        real = [str(r) for r in itertools.islice(R(*[m.copy() for m in mols]), 400)]
        structures = fix_mapping_overlap([m.copy() for m in mols])
        n, k = len(structures), len(patterns)
        rows, keyid, rid = [], {}, 0
        for i, ch in enumerate(permutations(range(n), k)):
            chosen = [structures[x] for x in ch]
            ignored = [structures[x] for x in range(n) if x not in ch]
            row = []
            for new in R._single_stage(chosen, {x for m in ignored for x in m}):
                r = ReactionContainer([x.copy() for x in chosen] + [x.copy() for x in ignored], new + [x.copy() for x in ignored])
                if len(new) > 1:
                    r.contract_ions()
                rid += 1
                row.append((rid, keyid.setdefault(str(r), len(keyid) + 1)))
            rows.append((i, row))
    except Exception as e:
        ctx.dist('oneshot-raises:' + type(e).__name__)
        return
    if len(real) >= 400:
        return
    req = [len(rows)] + [i for i, _ in rows] + [len(rows)]
    for i, row in rows:
        req += [i, len(row)]
        for rid, key in row:
            req += [rid, key, 0, 0]
    ks = ' '.join(str(keyid.get(s_, 900000 + j)) for j, s_ in enumerate(real))
    ctx.dist('oneshot-deduplicated', sum(len(r) for _, r in rows) > len(real))
    cases.add('oneshot', f'{name} on {tag}', 'oneshot ' + ' '.join(map(str, req)), norm(f'ok {ks}'), nontrivial=len(real) > 0,
              replay=reactor_replay(name, patterns, products, kw2, mols))


def add_worklist_case(cases, name, patterns, products, kw, mols, limit, tag):
    """K `worklist`: the sequence of `str(r)` the real exhaustive `Reactor.__call__` yields vs the model's FIFO worklist (and
    its level-by-level form) run over the step system recorded by `step_system`"""
    from chython import Reactor
    ctx = cases.ctx
    kw2 = {k: v for k, v in dict(kw).items() if k in ('delete_atoms', 'automorphism_filter')}
    try:
        R = Reactor(patterns, products, one_shot=False, polymerise_limit=limit, fix_aromatic_rings=False, **kw2)
        real = [str(r) for r in itertools.islice(R(*[m.copy() for m in mols]), 400)]
        sysd = step_system(R, mols, limit)
    except Exception as e:
        ctx.dist('worklist-raises:' + type(e).__name__)
        return
    if sysd is None or len(real) >= 400:
        ctx.dist('worklist-too-large')
        return
    init, rows, keyid = sysd
    ks = ' '.join(str(keyid.get(s_, 900000 + j)) for j, s_ in enumerate(real))
    req = [limit, len(init)] + init + [len(rows)]
    nstop = 0
    for it, row in rows.items():
        req += [it, len(row)]
        for rid, key, stop, ids in row:
            req += [rid, key, stop, len(ids)] + ids
            nstop += stop
    nreact = sum(len(r) for r in rows.values())
    ctx.dist('worklist-yielded', len(real))
    ctx.dist('worklist-deduplicated', nreact > len(real))
    if nstop:
        ctx.dist('worklist-ambiguous-stop')
    cases.add('worklist', f'{name} on {tag} limit {limit}', 'worklist ' + ' '.join(map(str, req)), f'ok {ks} | {ks}',
              nontrivial=len(real) > 1, replay=reactor_replay(name, patterns, products, dict(kw2, one_shot=False, polymerise_limit=limit), mols))


def add_reactor_cases(cases, name, patterns, products, kw, mols, tag, limit=4):
    """K: fix_mapping_overlap and every match of `_single_stage` for every choice of reactants; returns #matches"""
    from functools import reduce
    from operator import or_
    from itertools import permutations
    from chython import Reactor
    from chython._functions import lazy_product
    ctx = cases.ctx
    kw = dict(kw)
    try:
        R = Reactor(patterns, products, fix_aromatic_rings=False, **kw)
    except Exception as e:
        ctx.notes.append(f'reactor {name} not constructible: {type(e).__name__}')
        return 0
    fixed = add_overlap_case(cases, f'{name} on {tag}', mols)
    if fixed is None:
        return 0
    upat = reduce(or_, patterns)
    tenc = enc_template(upat, R._replacement, kw.get('delete_atoms', True))
    total = 0
    idx = list(range(len(fixed)))
    for chosen_i in permutations(idx, len(patterns)):
        chosen = [fixed[i] for i in chosen_i]
        ignored_m = [fixed[i] for i in idx if i not in chosen_i]
        ignored = {x for m in ignored_m for x in m}
        matches = list(itertools.islice(lazy_product(*(x.get_mapping(y, automorphism_filter=R._automorphism_filter)
                                                       for x, y in zip(patterns, chosen))), limit))
        if not matches:
            continue
        try:
            outs = list(itertools.islice(R._single_stage(chosen, ignored), limit))
            err = None
        except Exception as e:
            outs, err = [], err_text(e)
        united = reduce(or_, chosen)
        for k, match in enumerate(matches):
            mapping = dict(match[0])
            for m in match[1:]:
                mapping.update(m)
            try:
                pre = R._patcher(united, dict(mapping))
                order = list(set(pre).intersection(ignored))
            except Exception:
                order = []
            req = tenc + enc_mapping(mapping) + [len(chosen)]
            for m in chosen:
                req += wire.mol_to_ints(m)
            req += [len(ignored)] + sorted(ignored) + [len(order)] + order
            if err is not None:
                exp, stream = err, 'single_stage'
            elif k >= len(outs):
                exp, stream = 'missing product', 'single_stage'
            elif len(R._products_atoms) > 1:
                # split(): components as separate molecules — compare the order-free union
                texts = [render_mol(p) for p in outs[k]]
                n = sum(int(t.split()[0]) for t in texts)
                exp = 'ok ' + canon_mol_text(str(n) + ' ' + ' '.join(t.split(' ', 1)[1] for t in texts if ' ' in t))
                stream = 'single_stage_split'
            else:
                exp, stream = 'ok ' + render_mol(outs[k][0]), 'single_stage'
            cases.add(stream, f'{name} on {tag} chosen {chosen_i} match {mapping}', 'stage ' + ' '.join(map(str, req)), exp,
                      replay=reactor_replay(name, patterns, products, kw, mols))
            total += 1
            if err is not None:
                break
    return total


def reactor_clauses(patterns, products, kw, mols, rng, builtin=False, limit=20):
    try:
        return _reactor_clauses(patterns, products, kw, mols, rng, builtin, limit)
    except Exception as e:
        return [('product-graph', f'the reactor oracle could not handle a product: {type(e).__name__}: {e}')]


def _reactor_clauses(patterns, products, kw, mols, rng, builtin=False, limit=20):
    """property-level clauses on the public `Reactor.__call__` (real code only)"""
    from chython import Reactor
    kw = dict(kw)
    R = Reactor(patterns, products, **kw)
    # independence clauses without aromaticity repair (see numbering_clauses)
    R_plain = Reactor(patterns, products, **dict(kw, fix_aromatic_rings=False))
    bad = []

    def run(ms, R=R):
        out = []
        for rxn in itertools.islice(R(*ms), limit):
            out.append(rxn)
        return out

    try:
        base = run([m.copy() for m in mols])
    except Exception as e:
        # a template that builds an impossible product raises from kekule()/thiele(); only for the built-in collections on
        # valence-valid reactants is that a failure of the property
        if builtin and all(not m.check_valence() for m in mols):
            return [('valence-valid', f'reactor raised {type(e).__name__}: {e}')]
        return []
    for rxn in base:
        nums = [n for p in rxn.products for n in p]
        if len(nums) != len(set(nums)):
            bad.append(('unique-numbers', f'product atom numbers repeat in {rxn}: {sorted(nums)}'))
        if builtin and all(not m.check_valence() for m in mols):
            for p in rxn.products:
                if p.check_valence():
                    bad.append(('valence-valid', f'product {p} of {rxn} has valence errors at {p.check_valence()}'))
    key = lambda rs: sorted({'.'.join(sorted(sig_str(p) for p in r.products)) for r in rs})
    if not all(string_stable(m) for m in mols):
        return bad   # canonical strings of these reactants are not renumbering-stable (C01): nothing to compare
    try:
        base = run([m.copy() for m in mols], R_plain)
    except Exception:
        return bad
    kb = key(base)
    run = (lambda f: (lambda ms: f(ms, R_plain)))(run)
    if len(base) < limit:
        # reactant order
        if len(mols) > 1:
            ms = [m.copy() for m in mols]
            rng.shuffle(ms)
            try:
                other = key(run(ms))
                if other != kb:
                    bad.append(('order-independence', f'products {kb} vs {other} for reactant order {[str(m) for m in ms]}'))
            except Exception as e:
                bad.append(('order-independence', f'permuted reactants raised {type(e).__name__}: {e}'))
        # reactant numbering / insertion order
        ms = []
        for m in mols:
            m2 = molgen.renumber(rng, m)[0]
            ms.append(m2 if sig_str(m2) == sig_str(m) else m.copy())
        try:
            other = key(run(ms))
            if other != kb:
                bad.append(('numbering-independence', f'products {kb} vs {other} after renumbering '
                                                      f'{[wire.mol_to_ints(m) for m in ms]}'))
        except Exception as e:
            bad.append(('numbering-independence', f'renumbered reactants raised {type(e).__name__}: {e}'))
    return bad


def template_marks(r):
    return any(getattr(a, 'stereo', None) is not None for _, a in r.atoms())


def has_stereo(mol):
    return any(a._stereo is not None for a in mol._atoms.values()) or any(b._stereo is not None for _, _, b in mol.bonds())


def stereo_clauses(q, r, mol, kw=None, fix_rings=True, limit=8):
    """"... keep their numbers, attributes, neighbours and **stereo**" / "an identity template returns the input", on the real
    Transformer output. Product atoms keep the reactant's numbers, so configurations are compared centre by centre with the
    sign-translation functions of chython.algorithms.stereo (property C12's, not reactor code) for ONE fixed neighbour order
    taken from the reactant — no canonical strings involved. A centre is compared when its neighbour set is unchanged, the
    replacement gives no stereo mark for it, and it is labelled on both sides; when the product graph equals the input graph
    (identity application) every label must survive."""
    try:
        return _stereo_clauses(q, r, mol, kw, fix_rings, limit)
    except Exception as e:
        import traceback
        return [('product-graph', f'the stereo oracle could not read the product: {type(e).__name__}: {e} '
                                  f'({traceback.format_exc().splitlines()[-3].strip()})')]


def _stereo_clauses(q, r, mol, kw, fix_rings, limit):
    from chython import Transformer
    kw = dict(kw or {})
    af = kw.get('automorphism_filter', True)
    t = Transformer(q, r, fix_aromatic_rings=fix_rings, **kw)
    mappings = list(itertools.islice(q.get_mapping(mol, automorphism_filter=af), limit))
    try:
        prods = list(itertools.islice(t(mol), limit))
    except Exception:
        return []
    if len(prods) != len(mappings):
        return []
    over_atoms = {n for n, a in r.atoms() if getattr(a, 'stereo', None) is not None}
    over_bonds = any(getattr(b, 'stereo', None) is not None for _, _, b in r.bonds())
    bad = []
    base_text = canon_mol_text(render_mol(mol))
    tm, am, cm = mol.stereogenic_tetrahedrons, mol.stereogenic_allenes, mol.stereogenic_cis_trans
    for mp, p in zip(mappings, prods):
        overridden = {mp[n] for n in over_atoms if n in mp}
        same_graph = canon_mol_text(render_mol(p)) == base_text
        tp, ap, cp = p.stereogenic_tetrahedrons, p.stereogenic_allenes, p.stereogenic_cis_trans
        # stereo override, absolute: a mark on a replacement atom is a sign relative to THAT atom's neighbour order in the
        # replacement (query: `_bonds[n]` order, the convention the matcher uses for query marks; molecule: its own
        # sign translation). When all neighbours of the product centre are the images of the replacement neighbours, the
        # product read in the mapped order must carry exactly that sign.
        if over_atoms:
            named, nxt = {}, max(mol._atoms)
            for n in r:
                if n in mp:
                    named[n] = mp[n]
                else:
                    nxt += 1
                    named[n] = nxt
            for n in over_atoms:
                c = named[n]
                renv = list(r._bonds[n])
                if c not in p._atoms or c not in tp or len(renv) < 3 or set(p._bonds[c]) != {named[x] for x in renv}:
                    continue
                if p._atoms[c].stereo is None:
                    continue
                if hasattr(r, 'stereogenic_tetrahedrons'):      # molecule as replacement
                    if n not in r.stereogenic_tetrahedrons:
                        continue
                    want = r._translate_tetrahedron_sign(n, renv)
                else:
                    want = r._atoms[n].stereo
                got = p._translate_tetrahedron_sign(c, [named[x] for x in renv])
                if want != got:
                    bad.append(('stereo-override', f'match {mp}: replacement atom {n} carries a stereo mark; read in the replacement\'s '
                                                   f'neighbour order {renv} the product centre {c} has the opposite configuration'))
        for n, env in tm.items():
            if mol._atoms[n].stereo is None or n in overridden or n not in p._atoms:
                continue
            if set(mol._bonds[n]) != set(p._bonds[n]) or n not in tp:
                continue
            if p._atoms[n].stereo is None:
                if same_graph:
                    bad.append(('frame-stereo', f'match {mp}: product graph equals the input but tetrahedral label of atom {n} is lost'))
                continue
            if mol._translate_tetrahedron_sign(n, env) != p._translate_tetrahedron_sign(n, env):
                bad.append(('frame-stereo', f'match {mp}: configuration of atom {n} (neighbours {env}) is inverted in the product'))
        for c, env in am.items():
            if mol._atoms[c].stereo is None or c in overridden or c not in p._atoms or c not in ap or set(ap[c]) != set(env):
                continue
            if p._atoms[c].stereo is None:
                if same_graph:
                    bad.append(('frame-stereo', f'match {mp}: product graph equals the input but allene label of atom {c} is lost'))
                continue
            if mol._translate_allene_sign(c, env[0], env[1]) != p._translate_allene_sign(c, env[0], env[1]):
                bad.append(('frame-stereo', f'match {mp}: configuration of allene {c} is inverted in the product'))
        if not over_bonds:
            for (a1, a2), env in cm.items():
                try:
                    s_in = mol._translate_cis_trans_sign(a1, a2, env[0], env[1])
                except KeyError:
                    continue
                penv = cp.get((a1, a2)) or cp.get((a2, a1))
                if penv is None or set(penv) != set(env):
                    continue
                try:
                    s_out = p._translate_cis_trans_sign(a1, a2, env[0], env[1])
                except KeyError:
                    if same_graph:
                        bad.append(('frame-stereo', f'match {mp}: product graph equals the input but cis-trans label of {a1}={a2} is lost'))
                    continue
                if s_in != s_out:
                    bad.append(('frame-stereo', f'match {mp}: cis-trans configuration of {a1}={a2} is inverted in the product'))
    return bad


OVERRIDE_PAIRS = [
    # (name, pattern, replacement with @, the same with @@, replacement atom carrying the mark)
    ('override-3', '[C;D3;z1:1]([O:2])[C:3]', '[A;@:1]([A:2])[A:3]', '[A;@@:1]([A:2])[A:3]', 1),
    ('override-4', '[C;D4;z1:1]([C:2])([C:3])[C:4]', '[A;@:1]([A:2])([A:3])[A:4]', '[A;@@:1]([A:2])([A:3])[A:4]', 1),
    ('override-retype', '[C;D3;z1:1]([O;D1:2])[C:3]', '[C;@:1]([S:2])[A:3]', '[C;@@:1]([S:2])[A:3]', 1),
]


def override_clauses(q, r1, r2, k, mol, limit=6):
    """"stereo override": a stereo mark in the replacement decides the configuration — the two marks give opposite
    configurations at that centre (same fixed neighbour order), whatever configuration the reactant had there."""
    try:
        return _override_clauses(q, r1, r2, k, mol, limit)
    except Exception as e:
        return [('product-graph', f'the override oracle could not read the product: {type(e).__name__}: {e}')]


def _override_clauses(q, r1, r2, k, mol, limit):
    from chython import Transformer
    bad = []
    mappings = list(itertools.islice(q.get_mapping(mol), limit))
    if not mappings:
        return []
    t1, t2 = Transformer(q, r1), Transformer(q, r2)

    def signs(m):
        out = []
        for mp, pa, pb in zip(mappings, itertools.islice(t1(m), limit), itertools.islice(t2(m), limit)):
            c = mp[k]
            if c not in pa.stereogenic_tetrahedrons or c not in pb.stereogenic_tetrahedrons:
                out.append(None)
                continue
            env = pa.stereogenic_tetrahedrons[c]
            if set(env) != set(pb.stereogenic_tetrahedrons[c]):
                out.append(None)
                continue
            sa, sb = pa._atoms[c].stereo, pb._atoms[c].stereo
            if (sa is None) != (sb is None):
                bad.append(('stereo-override', f'match {mp}: centre {c} is labelled with one mark of the replacement but not with the other'))
                out.append(None)
                continue
            if sa is None:
                out.append(None)
                continue
            x, y = pa._translate_tetrahedron_sign(c, env), pb._translate_tetrahedron_sign(c, env)
            if x == y:
                bad.append(('stereo-override', f'match {mp}: @ and @@ in the replacement give the same configuration at centre {c}'))
            out.append((env, x))
        return out

    base = signs(mol)
    # the reactant's own configuration at the centre must not matter
    for i, mp in enumerate(mappings):
        c = mp[k]
        if mol._atoms[c].stereo is None or base[i] is None:
            continue
        m2 = mol.copy()
        m2._atoms[c]._stereo = not mol._atoms[c].stereo
        m2.flush_cache()
        other = signs(m2)
        if i < len(other) and other[i] is not None and other[i] != base[i]:
            bad.append(('stereo-override', f'match {mp}: the overriding mark gives a configuration at centre {c} that depends on '
                                           f'the configuration the reactant had'))
    return bad


def string_stable(m, rounds=3):
    """is the canonical string used by the oracles invariant under renumbering for this molecule? (when it is not — Kekule
    benzene, symmetric cages — comparing strings says nothing about the template machinery; that is C01's subject)"""
    import random
    rng = random.Random(len(m) * 7919 + 13)
    s0 = sig_str(m)
    try:
        return all(sig_str(molgen.renumber(rng, m)[0]) == s0 for _ in range(rounds))
    except Exception:
        return False


def reactor_match_clauses(patterns, products, kw, mols, cap=80):
    """"one product per distinct match" for multi-reactant templates, real code only: the one-shot `Reactor` (matcher filter
    off) must deliver exactly the states obtained by applying the UNITED template (`reduce(or_, patterns)` ->
    `reduce(or_, products)`) with `Transformer` to the union of every ordered choice of reactant molecules, keeping the matches
    that send pattern i into molecule i. A Reactor that raises while the united template applies cleanly is a failure."""
    try:
        return _reactor_match_clauses(patterns, products, kw, mols, cap)
    except Exception as e:
        return [('product-graph', f'the reactor match oracle could not handle a product: {type(e).__name__}: {e}')]


def _reactor_match_clauses(patterns, products, kw, mols, cap):
    from functools import reduce
    from operator import or_
    from chython import Reactor, Transformer
    if len(products) != 1 or len(patterns) < 2 or len(mols) < len(patterns) or not all(string_stable(m) for m in mols):
        return []
    kw2 = {k: v for k, v in dict(kw).items() if k in ('delete_atoms', 'fix_aromatic_rings', 'fix_tautomers')}
    uq, ur = reduce(or_, patterns), products[0]
    pat_atoms = [set(p) for p in patterns]
    if sum(len(a) for a in pat_atoms) != len(uq) or set(uq) != set().union(*pat_atoms):
        return []     # colliding template numbers: out of the domain
    T = Transformer(uq, ur, automorphism_filter=False, **kw2)
    exp, objs = set(), {}
    for idx in itertools.permutations(range(len(mols)), len(patterns)):
        u, owner = None, []
        for i in idx:
            before = set(u) if u is not None else set()
            u = mols[i].copy() if u is None else u | mols[i]
            owner.append(set(u) - before)
        ignored = [mols[i] for i in range(len(mols)) if i not in idx]
        try:
            mps = list(itertools.islice(uq.get_mapping(u, automorphism_filter=False), cap + 1))
            prods = list(itertools.islice(T(u), cap + 1))
        except Exception:
            return []   # the template builds an impossible product: not a question of match enumeration
        if len(mps) > cap or len(mps) != len(prods):
            return []
        for mp, pr in zip(mps, prods):
            if all(all(mp[a] in own for a in atoms) for atoms, own in zip(pat_atoms, owner)):
                st = state_key([pr] + ignored)
                exp.add(st)
                objs.setdefault(st, [pr] + ignored)
    R = Reactor(patterns, products, one_shot=True, automorphism_filter=False, **kw2)
    got = set()
    try:
        for i, rxn in enumerate(R(*[m.copy() for m in mols])):
            if i > cap:
                return []
            st = state_key(rxn.products)
            got.add(st)
            objs.setdefault(st, list(rxn.products))
    except Exception as e:
        return [('one-product-per-match', f'Reactor raised {type(e).__name__}: {e} after {len(got)} of {len(exp)} distinct products '
                                          f'(reactants {[sig_str(m) for m in mols]})')]
    bad = []
    for st in sorted(exp - got)[:3]:
        if all(string_stable(m) for m in objs[st]):
            bad.append(('one-product-per-match', f'product state {list(st)} of a match of the united template is not delivered by '
                                                 f'the Reactor (reactants {[sig_str(m) for m in mols]})'))
    for st in sorted(got - exp)[:3]:
        if all(string_stable(m) for m in objs[st]):
            bad.append(('one-product-per-match', f'Reactor delivers {list(st)} which no match of the united template produces '
                                                 f'(reactants {[sig_str(m) for m in mols]})'))
    return bad


def reactor_named_clauses(patterns, products, kw, mols, cap=40, mcap=200):
    """named atoms as requested, on the PUBLIC one-shot `Reactor` output (real code only): for every reaction delivered there
    must be a choice of reactants and a match of the patterns (matcher = C07, trusted) such that every product-template atom
    that the match maps appears in the products under the matched atom's number with the requested charge and radical state,
    the requested element / isotope (any-atom: those of the matched atom). The reactants are renumbered to disjoint ranges
    first, so neither `fix_mapping_overlap` nor the collision remap moves a matched atom."""
    try:
        return _reactor_named_clauses(patterns, products, kw, mols, cap, mcap)
    except Exception as e:
        return [('product-graph', f'the reactor named-atom oracle could not handle a product: {type(e).__name__}: {e}')]


def _reactor_named_clauses(patterns, products, kw, mols, cap, mcap):
    from chython import Reactor
    from chython.periodictable import AnyElement
    kw2 = {k: v for k, v in dict(kw).items() if k in ('delete_atoms', 'automorphism_filter')}
    af = kw2.get('automorphism_filter', True)
    ms, off = [], 0
    for m in mols:
        m2 = m.copy()
        m2.remap({n: off + i for i, n in enumerate(list(m2), 1)})
        off += len(m2)
        ms.append(m2)
    ratoms = [(n, ra) for pr in products for n, ra in pr.atoms()]
    R = Reactor(patterns, products, one_shot=True, fix_aromatic_rings=False, **kw2)
    try:
        rxns = list(itertools.islice(R(*[m.copy() for m in ms]), cap))
    except Exception:
        return []     # a raising template is judged by the other reactor clauses
    if not rxns:
        return []
    cands = []
    for idx in itertools.permutations(range(len(ms)), len(patterns)):
        per = [list(itertools.islice(p.get_mapping(ms[i], automorphism_filter=af), 12)) for p, i in zip(patterns, idx)]
        for combo in itertools.islice(itertools.product(*per), mcap):
            mp = {}
            for c in combo:
                mp.update(c)
            src = {n: a for i in idx for n, a in ms[i].atoms()}
            cands.append((mp, src))
    bad = []
    for rxn in rxns:
        patoms = {n: a for p in rxn.products for n, a in p.atoms()}
        ok, why = False, ''
        for mp, src in cands:
            good = True
            for n, ra in ratoms:
                if n not in mp:
                    continue
                a = patoms.get(mp[n])
                if a is None:
                    good = False
                    break
                sa = src[mp[n]]
                want = ((sa.atomic_number, sa.isotope) if isinstance(ra, AnyElement) else (ra.atomic_number, ra.isotope)) + \
                       (ra.charge, ra.is_radical)
                if (a.atomic_number, a.isotope, a.charge, a.is_radical) != want:
                    good = False
                    why = f'atom {mp[n]} (template atom {n}) is {(a.atomic_number, a.isotope, a.charge, a.is_radical)}, requested {want}'
                    break
            if good:
                ok = True
                break
        if not ok:
            bad.append(('named-atoms', f'reaction {rxn}: no choice of reactants and match gives every named atom its requested '
                                       f'element / isotope / charge / radical state (e.g. {why})'))
            break
    return bad


def switch_clauses(q, r, mol, kw=None, limit=6):
    """the post-processing switches mean what they say (real code only): for either value of `fix_tautomers`, the products
    built with `fix_aromatic_rings=True` are exactly the products built with `fix_aromatic_rings=False` followed by
    `kekule(); thiele(fix_tautomers=…)` done here by hand on a copy. (That the `fix_aromatic_rings=False` product is the
    plain edit is the frame / named clauses' business.)"""
    try:
        return _switch_clauses(q, r, mol, kw, limit)
    except Exception as e:
        return [('product-graph', f'the switch oracle could not handle a product: {type(e).__name__}: {e}')]


def _post(ms, ft):
    out = []
    for m in ms:
        c = m.copy()
        c.kekule()
        c.thiele(fix_tautomers=ft)
        out.append(c)
    return out


def kekulized(m):
    """the same molecule in Kekule form (None when it has no aromatic bond or kekule() refuses)"""
    if not any(int(b) == 4 for _, _, b in m.bonds()):
        return None
    c = m.copy()
    try:
        c.kekule()
    except Exception:
        return None
    return c


def has_aromatic(m):
    return any(int(b) == 4 for _, _, b in m.bonds())


def _switch_clauses(q, r, mol, kw, limit):
    bad = _switch_clauses1(q, r, mol, kw, limit)
    mk = kekulized(mol)
    if mk is not None and q < mk:
        bad += [(c, 'Kekule-form input: ' + d) for c, d in _switch_clauses1(q, r, mk, kw, limit, no_arom=not has_aromatic(r))]
    return bad


def _switch_clauses1(q, r, mol, kw, limit, no_arom=False):
    from chython import Transformer
    kw = {k: v for k, v in dict(kw or {}).items() if k in ('delete_atoms', 'automorphism_filter')}
    bad = []
    for ft in (True, False):
        try:
            raw = list(itertools.islice(Transformer(q, r, fix_aromatic_rings=False, fix_tautomers=ft, **kw)(mol), limit))
        except Exception as e:
            bad.append(('switches', f'fix_aromatic_rings=False, fix_tautomers={ft}: Transformer raised {type(e).__name__}: {e}'))
            continue
        if no_arom and any(has_aromatic(p) for p in raw):
            bad.append(('switches', f'fix_aromatic_rings=False (fix_tautomers={ft}): neither the input nor the replacement has an '
                                    f'aromatic bond but the product {sig_str(next(p for p in raw if has_aromatic(p)))} has'))
        try:
            want = [canon_mol_text(render_mol(c)) for c in _post(raw, ft)]
        except Exception:
            want = None     # the plain edit cannot be aromatised (impossible ring): the repairing variant must refuse too
        try:
            fixed = list(itertools.islice(Transformer(q, r, fix_aromatic_rings=True, fix_tautomers=ft, **kw)(mol), limit))
            got = [canon_mol_text(render_mol(c)) for c in fixed]
        except Exception:
            got = None
        if want != got:
            i = next((i for i, (a, b) in enumerate(zip(want or [], got or [])) if a != b), 0)
            bad.append(('switches', f'fix_tautomers={ft}: product {i} with fix_aromatic_rings=True is '
                                    f'{(got or ["<raises>"])[min(i, len(got or [1]) - 1)][:160] if got else "<raises>"} but kekule()+thiele() of the '
                                    f'fix_aromatic_rings=False product is {(want[i][:160] if want and i < len(want) else "<raises>")}'))
    return bad


def reactor_switch_clauses(patterns, products, kw, mols, cap=30):
    """same relation for the public one-shot `Reactor`, on product states"""
    try:
        from chython import Reactor
        kw = {k: v for k, v in dict(kw or {}).items() if k in ('delete_atoms', 'automorphism_filter')}
        bad = []
        variants = [(mols, False)]
        kms = [kekulized(m) or m for m in mols]
        if any(has_aromatic(m) for m in mols) and not any(has_aromatic(m) for m in kms):
            variants.append((kms, not any(has_aromatic(p) for p in products)))
        for (mols, no_arom), ft in itertools.product(variants, (True, False)):
            def run(fix):
                R = Reactor(patterns, products, fix_aromatic_rings=fix, fix_tautomers=ft, **kw)
                out = []
                for rx in itertools.islice(R(*[m.copy() for m in mols]), cap + 1):
                    same = {render_mol(x) for x in rx.reactants}
                    out.append([(p, render_mol(p) in same) for p in rx.products])    # (molecule, is an untouched spectator)
                return out
            try:
                raw = run(False)
            except Exception as e:
                bad.append(('switches', f'Reactor fix_aromatic_rings=False, fix_tautomers={ft} raised {type(e).__name__}: {e}'))
                continue
            if len(raw) > cap:
                continue
            if no_arom and any(has_aromatic(p) for ps in raw for p, _ in ps):
                bad.append(('switches', f'Reactor fix_aromatic_rings=False (fix_tautomers={ft}): Kekule-form reactants '
                                        f'{[sig_str(m) for m in mols]} and a replacement without aromatic bonds give an aromatic product'))
            try:   # spectator molecules are handed through as they came; only what the template produced is repaired
                want = {state_key([p if sp else _post([p], ft)[0] for p, sp in ps]) for ps in raw}
            except Exception:
                want = None
            try:
                got = {state_key([p for p, _ in ps]) for ps in run(True)}
            except Exception:
                got = None
            if want != got:
                bad.append(('switches', f'Reactor fix_tautomers={ft}: states with fix_aromatic_rings=True {sorted(got)[:2] if got else got} differ '
                                        f'from kekule()+thiele() of the fix_aromatic_rings=False states {sorted(want)[:2] if want else want} '
                                        f'(reactants {[sig_str(m) for m in mols]})'))
        return bad
    except Exception as e:
        return [('product-graph', f'the reactor switch oracle could not handle a product: {type(e).__name__}: {e}')]


def state_key(ms):
    return tuple(sorted(sig_str(m) for m in ms))


def exhaustive_clauses(patterns, products, kw, mols, depth=2, cap=300):
    """exhaustive mode (`one_shot=False`) on the public `Reactor.__call__`, real code only:
      * every state the one-shot mode produces is also produced by the exhaustive mode (any number of patterns);
      * for a single-pattern, single-product template the exhaustive mode yields exactly the closure (<= `depth` steps) of
        single-match edits, computed here independently by breadth-first search with `Transformer` on one molecule at a time.
    A state = multiset of stereo-free canonical strings of the product molecules."""
    try:
        return _exhaustive_clauses(patterns, products, kw, mols, depth, cap)
    except Exception as e:
        return [('product-graph', f'the exhaustive-mode oracle could not handle a product: {type(e).__name__}: {e}')]


def _exhaustive_clauses(patterns, products, kw, mols, depth, cap):
    from chython import Reactor, Transformer
    kw2 = {k: v for k, v in dict(kw).items() if k in ('delete_atoms', 'automorphism_filter', 'fix_aromatic_rings', 'fix_tautomers')}
    bad = []
    if not all(string_stable(m) for m in mols):
        return []
    objs = {}

    def run(one_shot):
        R = Reactor(patterns, products, one_shot=one_shot, polymerise_limit=depth, **kw2)
        out = set()
        strs = set()
        for i, rxn in enumerate(R(*[m.copy() for m in mols])):
            if i > cap:
                return None
            k = state_key(rxn.products)
            out.add(k)
            objs.setdefault(k, list(rxn.products))
            if str(rxn) in strs and not dup:
                # each reaction is reported once (the `seen` strings of `Reactor.__call__`), in either mode
                dup.append(('one-product-per-match', f'reaction {rxn} is delivered twice by the '
                                                     f'{"one-shot" if one_shot else "exhaustive"} mode (reactants {[sig_str(m) for m in mols]})'))
            strs.add(str(rxn))
        return out

    def report(cl, st, text):
        # a state is only reported when the strings of its molecules are renumbering-stable
        if all(string_stable(m) for m in objs.get(st, [])):
            bad.append((cl, text))

    dup = []
    try:
        got = run(False)
        one = run(True)
    except Exception:
        return []      # a raising template (impossible product) is not an exhaustive-mode question
    if got is None or one is None:
        return []
    bad += dup
    for st in sorted(one - got)[:3]:
        report('exhaustive-complete', st, f'state {list(st)} is produced by the one-shot mode but not by the exhaustive mode '
                                          f'(reactants {[sig_str(m) for m in mols]})')
    if len(patterns) == 2 and len(mols) >= 3 and depth >= 2:
        # "all possible combinations of reactions": two reactions that share one reactant molecule (the reagent in excess) and
        # consume two DIFFERENT other molecules can both happen; the state with both products must be delivered
        R1 = Reactor(patterns, products, one_shot=True, **kw2)
        single = {}
        for i, j in itertools.permutations(range(len(mols)), 2):
            try:
                rs = list(itertools.islice(R1(mols[i].copy(), mols[j].copy()), 6))
            except Exception:
                rs = []
            if rs:
                single[(i, j)] = [list(rx.products) for rx in rs]
        done = 0
        for (i, j), (a, b) in itertools.permutations(single, 2):
            shared = {i, j} & {a, b}
            if len(shared) != 1 or {i, j} == {a, b} or done >= 12:
                continue
            (x,) = shared
            # same role of the shared molecule in both reactions (it matches the same pattern)
            if (i == x) != (a == x):
                continue
            rest = [m for k, m in enumerate(mols) if k not in {i, j, a, b}]
            for p1 in single[(i, j)][:2]:
                for p2 in single[(a, b)][:2]:
                    done += 1
                    if len(products) > 1 and any(int(m) for m in list(mols) + p1 + p2):
                        # ions among several product molecules: `contract_ions()` may merge them into salts, the code then
                        # logs 'ambiguous multicomponent structures. skip multistage processing' and (documented) does not
                        # continue from that state
                        continue
                    st = state_key(p1 + p2 + rest)
                    if st not in got:
                        objs.setdefault(st, p1 + p2 + rest)
                        report('exhaustive-complete', st, f'state {list(st)} (reactant {x} reacting once with each of two other '
                                                          f'molecules) is not produced by the exhaustive mode '
                                                          f'(reactants {[sig_str(m) for m in mols]})')
        bad = bad[:4]
    if len(patterns) == 1 and len(products) == 1:
        T = Transformer(patterns[0], products[0], **kw2)
        exp, frontier = set(), [[m.copy() for m in mols]]
        for _ in range(depth):
            nxt = []
            for state in frontier:
                for i, m in enumerate(state):
                    for pr in T(m):
                        ns = state[:i] + [pr] + state[i + 1:]
                        k = state_key(ns)
                        if k in exp:
                            continue
                        exp.add(k)
                        objs.setdefault(k, ns)
                        nxt.append(ns)
                        if len(exp) > cap:
                            return bad
            frontier = nxt
        for st in sorted(exp - got)[:3]:
            report('exhaustive-complete', st, f'state {list(st)} is reachable by <= {depth} single-match edits but is not '
                                              f'produced by the exhaustive mode (reactants {[sig_str(m) for m in mols]})')
        for st in sorted(got - exp)[:3]:
            report('exhaustive-sound', st, f'state {list(st)} is produced by the exhaustive mode but is not reachable by '
                                           f'<= {depth} single-match edits (reactants {[sig_str(m) for m in mols]})')
    return bad


def reactor_replay(name, patterns, products, kw, mols):
    return {'kind': 'reactor', 'template': name, 'patterns': [str(p) for p in patterns],
            'products': [repl_text(p) for p in products], 'kwargs': kw, 'wires': [wire.mol_to_ints(m) for m in mols]}


def probe_reactor(inp):
    import random
    from chython import smarts
    pats = [smarts(p) for p in inp['patterns']]
    prods = [parse_repl(p) for p in inp['products']]
    mols = [wire.ints_to_mol(w, calc=True)[0] for w in inp['wires']]
    bad = []
    for seed in range(3):
        bad += reactor_clauses(pats, prods, inp.get('kwargs') or {}, mols, random.Random(seed),
                               builtin=inp.get('template', '').startswith('reactions'))
    bad += exhaustive_clauses(pats, prods, inp.get('kwargs') or {}, mols)
    bad += reactor_match_clauses(pats, prods, inp.get('kwargs') or {}, mols)
    bad += reactor_switch_clauses(pats, prods, inp.get('kwargs') or {}, mols)
    bad += reactor_named_clauses(pats, prods, inp.get('kwargs') or {}, mols)
    if bad:
        return True, '; '.join(f'{c}: {d}' for c, d in bad[:4])
    return False, 'all reactor clauses hold'


def reactor_inputs(ctx, patterns, n_sets):
    """tuples of building blocks matching the patterns (plus one spectator molecule), numbers colliding as parsed"""
    cands = [[(b, m) for b, m in blocks() if p < m] for p in patterns]
    if not all(cands):
        return []
    out = []
    # deterministic sets: a spectator molecule last (its numbers end up above the reactants') and first
    from chython import smiles
    first = [c[0] for c in cands]
    for spect, pos in (('CNCC', 'last'), ('CCOCC', 'first')):
        ms = first + [(spect, smiles(spect))] if pos == 'last' else [(spect, smiles(spect))] + first
        out.append(('+'.join(b for b, _ in ms), [m.copy() for _, m in ms]))
    # multi-site set: for every pattern the candidate with the most matches, so that one match of a pattern is combined with
    # several matches of the others (state kept between the combinations of `lazy_product` shows up here), both orders
    def nmatch(p, m):
        return len(list(itertools.islice(p.get_mapping(m, automorphism_filter=False), 6)))
    multi = [max(c, key=lambda bm, p=p: nmatch(p, bm[1])) for p, c in zip(patterns, cands)]
    if len(patterns) > 1 and any(nmatch(p, bm[1]) > 1 for p, bm in zip(patterns, multi)):
        for ms in (multi, multi[::-1]):
            out.append(('+'.join(b for b, _ in ms), [m.copy() for _, m in ms]))
    # two different molecules for one of the patterns (both can react with the same partner)
    for pi, c in enumerate(cands):
        if len(c) >= 2 and len(patterns) > 1:
            two = c[:2] if pi % 2 == 0 else ctx.rng.sample(c, 2)
            ms = [first[k] for k in range(len(cands)) if k != pi] + two
            out.append(('+'.join(b for b, _ in ms), [m.copy() for _, m in ms]))
            break
    for _ in range(n_sets):
        pick = [ctx.rng.choice(c) for c in cands]
        extra = [ctx.rng.choice(blocks())] if ctx.rng.random() < 0.6 else []
        ms = pick + extra
        ctx.rng.shuffle(ms)
        out.append(('+'.join(b for b, _ in ms), [m.copy() for _, m in ms]))
    return out


# ------------------------------------------------------------------------------------------------
# correspondence
# ------------------------------------------------------------------------------------------------

EXTRA_MOLS = ['CCCCC', 'CC(C)CCC', 'CCCCO', 'OCCCC', 'COC', 'CCOCC', 'CN(C)C', 'C1CN1C', 'C1CCN(C)C1', 'C1COCC1', 'C1CCOCC1',
              'CC(C)OC', 'COC(C)=O', 'CC(C)OC(C)=O', 'ClCCl', 'FC(F)F', 'BrCCBr', 'CC=CC', 'C=CC=C', 'CC(=O)C', 'CNCC', 'CCN',
              'C[NH3+]', 'C1CC2CCC1N2C', 'CN1CC1', 'C1CCC2(CC1)OCCO2', 'CC1(C)OCC(CO)O1', 'c1ccccc1Cl', 'Brc1ccc(Cl)cc1',
              'OCC1CCCO1', 'C1OC1', 'CN1C2CCC1CC2', '[Na+].CC(=O)[O-]', 'CCO.O', 'N12CCC(CC1)CC2',
              # chiral inputs: centres / double bonds / allenes that templates name, sit next to, or leave alone
              'C[C@H](OC)CBr', 'C[C@@H](OC)CBr', 'C[C@@H](O)CC', 'C[C@H](N)C(=O)O', 'C[C@](O)(CC)C(C)C', 'O[C@H]1CCCC[C@@H]1C',
              'C/C=C/CO', 'C/C=C\\CO', 'OC/C=C/C(C)O', 'CC=[C@]=CCO', 'CC=[C@@]=CCO', 'C[C@H](Cl)/C=C/C', 'Br[C@H](C)CCBr',
              'O1C[C@H]1N', 'O1C[C@@H]1N', 'NC1CO1', 'CC1(N)CO1', 'OC1CC1C', 'C[C@H]1C[C@@H]1O', 'OC1CCC1', 'N[C@H]1CC[C@@H]1C',
              'CC(N)O', 'C[C@H](N)O', 'C[C@@H](N)O',
              'CC(CO)=[C@]=CC', 'CC(CO)=[C@@]=C(C)CC', 'C/C(CO)=C/C', 'CC/C(C)=C(/C)CO', 'C/C(CO)=C(\\C)CC',
              'BrCCc1cnc[nH]1', 'BrCCc1c[nH]cn1', 'Cc1cc[nH]n1', 'OCc1nnn[nH]1', 'BrCCc1ccncc1',
              # condensed pyrrole tautomers: thiele(fix_tautomers=True) moves the hydrogen, fix_tautomers=False does not
              'BrCC1=C2C=CN=C2C=CN1', 'OCC1=C2C=CN=C2C=CN1', 'CC(O)C1=C2C=CN=C2C=CN1']


def molecules_for(ctx, n_corpus):
    from chython import smiles
    mols = [(s, m) for s, m in molgen.handmade()]
    mols += [(s, smiles(s)) for s in EXTRA_MOLS]
    mols += [(s, smiles(s)) for s in ATTR_MOLS]
    mols += molgen.corpus(ctx.rng, n_corpus)
    return mols


def strip_stereo(mol):
    return mol


def correspond(ctx):
    from chython import smarts, smiles
    ctx.disagree = []
    ctx.cov['programs'] = len(PROGRAMS)
    cases = Cases(ctx)
    rng = ctx.rng

    add_del_cases(cases, ctx)

    # rejected templates (error branches of __init__ / _patcher)
    probe_mols = [smiles('CCO'), smiles('CC(C)N')]
    for name, qs, rs, kw in REJECTED:
        try:
            q, r = smarts(qs), parse_repl(rs)
        except Exception as e:
            ctx.notes.append(f'rejected template {name} does not parse: {type(e).__name__}')
            continue
        for m in probe_mols:
            add_transformer_cases(cases, 'rejected.' + name, q, r, m, str(m), kw)

    # synthetic templates x handmade + corpus sample (+ renumbered variants)
    mols = molecules_for(ctx, 60 if ctx.quick else 480)
    synth = []
    for name, qs, rs, kw in SYNTHETIC:
        try:
            synth.append((name, smarts(qs), parse_repl(rs), kw))
        except Exception as e:
            ctx.broke('correspondence', 'synthetic-template-parse', f'{name}: {type(e).__name__}: {e}')
    hit = {}
    for tag, mol in mols:
        variants = [(tag, mol)]
        try:
            variants.append((tag + '~renum', molgen.renumber(rng, mol)[0]))
        except Exception:
            pass
        for name, q, r, kw in synth:
            for vtag, vm in variants:
                k = add_transformer_cases(cases, 'synthetic.' + name, q, r, vm, vtag, kw, limit=4 if ctx.quick else 12)
                if k:
                    hit[name] = hit.get(name, 0) + 1
                    for cl, det in clauses(q, r, vm, kw, fix_rings=False, limit=4 if ctx.quick else 12):
                        ctx.fail(f'C16/{cl}', f'{name} on {vtag}: {det}', replay_input(name, q, r, kw, vm))
                    if vm is mol:   # the public default (aromaticity repair on)
                        for cl, det in clauses(q, r, vm, kw, fix_rings=True, limit=4 if ctx.quick else 12):
                            ctx.fail(f'C16/{cl}', f'{name} on {vtag} (fix_rings=True): {det}', replay_input(name, q, r, kw, vm, True))
                    if vm is mol and mol.rings_count and hit[name] <= (10 if ctx.quick else 40):
                        ctx.dist('switches-checked')
                        for cl, det in switch_clauses(q, r, vm, kw, limit=3 if ctx.quick else 5):
                            ctx.fail(f'C16/{cl}', f'{name} on {vtag}: {det}', replay_input(name, q, r, kw, vm))
                    if has_stereo(vm) or template_marks(r):
                        ctx.dist('stereo-checked')
                        for fr in ((True,) if ctx.quick else (True, False)):
                            for cl, det in stereo_clauses(q, r, vm, kw, fix_rings=fr, limit=4 if ctx.quick else 12):
                                ctx.fail(f'C16/{cl}', f'{name} on {vtag} (fix_rings={fr}): {det}', replay_input(name, q, r, kw, vm, fr))
                    if vm is mol and (not ctx.quick or hit[name] <= 8):
                        ctx.dist('numbering-independence-checked')
                        for cl, det, *extra in numbering_clauses(q, r, vm, kw, rng, rounds=1):
                            ctx.fail(f'C16/{cl}', f'{name} on {vtag}: {det}', extra[0] if extra else replay_input(name, q, r, kw, vm))
    for name, *_ in synth:
        ctx.dist('template-hit:' + name, hit.get(name, 0))
        if not hit.get(name):
            ctx.notes.append(f'synthetic template {name} matched no molecule of this run')

    # Round 5: attribute matrix (charge / radical / isotope: pattern value x way of naming x requested value) on the molecules
    # that carry those attributes, each also renumbered; K (`init`, `patch`, `trans`) + the clause oracle with and without ring repair
    amols = [(s_, smiles(s_)) for s_ in ATTR_MOLS]
    ahit = 0
    for name, qs, rs, kw in ATTR_TEMPLATES:
        try:
            q, r = smarts(qs), parse_repl(rs)
        except Exception as e:
            ctx.broke('correspondence', 'synthetic-template-parse', f'{name}: {type(e).__name__}: {e}')
            continue
        for tag, mol in amols:
            if not (q < mol):
                continue
            for vtag, vm in ((tag, mol), (tag + '~renum', molgen.renumber(rng, mol)[0])):
                if add_transformer_cases(cases, 'synthetic.' + name, q, r, vm, vtag, kw, limit=4, qs=qs, rs=rs):
                    ahit += 1
                    for fr in ((False, True) if vm is mol or not ctx.quick else (False,)):
                        for cl, det in clauses(q, r, vm, kw, fix_rings=fr, limit=4):
                            ctx.fail(f'C16/{cl}', f'{name} on {vtag} (fix_rings={fr}): {det}', replay_input(name, q, r, kw, vm, fr))
    ctx.dist('attr-template-hits', ahit)

    # built-in deprotection rules x their own test molecules (+ corpus in thorough)
    for name, qs, rs, tests in builtin_deprotection():
        try:
            q, r = smarts(qs), smarts(rs)
        except Exception as e:
            ctx.broke('correspondence', 'builtin-template-parse', f'{name}: {type(e).__name__}: {e}')
            continue
        tmols = []
        for s in tests:
            try:
                tmols.append((s, smiles(s)))
            except Exception:
                pass
        if not ctx.quick:
            tmols += mols[:150]
        for tag, mol in tmols:
            k = add_transformer_cases(cases, name, q, r, mol, tag, {}, limit=6)
            if k:
                ctx.dist('deprotection-hit')
                for fr in (False, True):
                    for cl, det in clauses(q, r, mol, {}, fix_rings=fr, limit=6, builtin=True):
                        ctx.fail(f'C16/{cl}', f'{name} on {tag} (fix_rings={fr}): {det}', replay_input(name, q, r, {}, mol, fr))
                    if has_stereo(mol):
                        for cl, det in stereo_clauses(q, r, mol, {}, fix_rings=fr, limit=6):
                            ctx.fail(f'C16/{cl}', f'{name} on {tag} (fix_rings={fr}): {det}', replay_input(name, q, r, {}, mol, fr))

    # stereo override: the two marks of the replacement give opposite configurations, whatever the reactant had
    for name, qs, r1s, r2s, k in OVERRIDE_PAIRS:
        try:
            q, r1, r2 = smarts(qs), smarts(r1s), smarts(r2s)
        except Exception as e:
            ctx.broke('correspondence', 'synthetic-template-parse', f'{name}: {type(e).__name__}: {e}')
            continue
        nhit = 0
        for tag, mol in mols:
            if not (q < mol) or (ctx.quick and nhit >= 25):
                continue
            nhit += 1
            ctx.count(('override', name, tag))
            for cl, det in override_clauses(q, r1, r2, k, mol):
                ctx.fail(f'C16/{cl}', f'{name} on {tag}: {det}',
                         {'kind': 'override', 'pattern': qs, 'r1': r1s, 'r2': r2s, 'atom': k, 'wire': wire.mol_to_ints(mol)})
        ctx.dist('override-hit:' + name, nhit)

    # Reactor: built-in reaction templates and synthetic multi-reactant templates
    from chython import smarts as _sm
    rxs = []
    for name, R in builtin_reactions():
        rxs.append((name, list(R._patterns), list(R._products), {'automorphism_filter': False}, True))
    for name, ps, rs, kw in SYNTH_REACTORS:
        try:
            rxs.append(('synthetic.' + name, [_sm(p) for p in ps], [parse_repl(x) for x in rs], kw, False))
        except Exception as e:
            ctx.broke('correspondence', 'synthetic-template-parse', f'{name}: {type(e).__name__}: {e}')
    for name, pats, prods, kw, builtin in rxs:
        sets = reactor_inputs(ctx, pats, 1 if ctx.quick else 6)
        if not sets:
            ctx.dist('reactor-no-input')
            ctx.notes.append(f'no building block matches reactor {name}')
            continue
        for tag, ms in sets:
            k = add_reactor_cases(cases, name, pats, prods, kw, ms, tag)
            ctx.dist('reactor-matches', k)
            if k:
                for cl, det in reactor_clauses(pats, prods, kw, ms, rng, builtin=builtin):
                    ctx.fail(f'C16/{cl}', f'{name} on {tag}: {det}', reactor_replay(name, pats, prods, kw, ms))
                if not builtin or tag == sets[0][0]:
                    ctx.dist('reactor-named-checked')
                    for cl, det in reactor_named_clauses(pats, prods, kw, ms):
                        ctx.fail(f'C16/{cl}', f'{name} on {tag}: {det}', reactor_replay(name, pats, prods, kw, ms))
                if any(m.rings_count for m in ms):
                    for cl, det in reactor_switch_clauses(pats, prods, kw, ms):
                        ctx.fail(f'C16/{cl}', f'{name} on {tag}: {det}', reactor_replay(name, pats, prods, kw, ms))
                if sum(len(m) for m in ms) <= 45:
                    ctx.dist('reactor-match-checked')
                    for cl, det in reactor_match_clauses(pats, prods, kw, ms):
                        ctx.fail(f'C16/{cl}', f'{name} on {tag}: {det}', reactor_replay(name, pats, prods, kw, ms))
        # exhaustive mode (one_shot=False): superset of the one-shot mode; closure of single edits for one-pattern templates
        for tag, ms in (sets[:3] if ctx.quick and builtin else sets):
            if sum(len(m) for m in ms) > 40:
                continue
            ctx.dist('exhaustive-checked')
            ctx.count(('exhaustive', name, tag))
            for cl, det in exhaustive_clauses(pats, prods, kw, ms):
                ctx.fail(f'C16/{cl}', f'{name} on {tag}: {det}', reactor_replay(name, pats, prods, kw, ms))

    # K: Graph.union(remap=True/False) and the exhaustive-mode worklist
    upool = [(t, m) for t, m in mols if 0 < len(m) <= 14][:80] + [(b, m) for b, m in blocks() if len(m) <= 12]
    add_union_cases(cases, ctx, upool)
    add_ions_cases(cases, ctx)
    add_public_clauses(ctx)
    for name, ps, rs, msets, limits in WORKLIST_CASES:
        try:
            pats, prods = [_sm(p) for p in ps], [parse_repl(x) for x in rs]
        except Exception as e:
            ctx.broke('correspondence', 'synthetic-template-parse', f'{name}: {type(e).__name__}: {e}')
            continue
        for mset in msets:
            add_oneshot_case(cases, 'worklist.' + name, pats, prods, {}, [smiles(x) for x in mset], '+'.join(mset))
            for lim in (limits if not ctx.quick else limits[-2:]):
                add_worklist_case(cases, 'worklist.' + name, pats, prods, {}, [smiles(x) for x in mset], lim, '+'.join(mset))
    for name, pats, prods, kw, builtin in rxs:
        sets = reactor_inputs(ctx, pats, 0)
        for tag, ms in sets[:1] if ctx.quick else sets[:3]:
            if sum(len(m) for m in ms) <= 36:
                add_worklist_case(cases, name, pats, prods, kw, ms, 2, tag)
        for tag, ms in sets[:1] if ctx.quick else sets:
            add_oneshot_case(cases, name, pats, prods, kw, ms, tag)

    # single-pattern templates as exhaustive Reactors on SEVERAL matching molecules (each synthetic Transformer template is one)
    single = [('synthetic.' + n, [q], [r], kw) for n, q, r, kw in synth if kw.get('delete_atoms', True) is True]
    single += [(n, p, pr, kw) for n, p, pr, kw, _ in rxs if len(p) == 1 and len(pr) == 1]
    small = [(t, m) for t, m in mols if len(m) <= 9][:60] + [(b, m) for b, m in blocks() if len(m) <= 9]
    for name, pats, prods, kw in single:
        cand = [(t, m) for t, m in small if pats[0] < m]
        if len(cand) < 2:
            continue
        for _ in range(2 if ctx.quick else 6):
            pick = rng.sample(cand, min(len(cand), rng.choice([2, 2, 3])))
            if rng.random() < 0.5:
                pick.append(rng.choice(small))
            ms = [m.copy() for _, m in pick]
            tag = '+'.join(t for t, _ in pick)
            ctx.dist('exhaustive-checked')
            ctx.count(('exhaustive', name, tag))
            kw1 = {k: v for k, v in kw.items() if k in ('automorphism_filter',)}
            for cl, det in exhaustive_clauses(pats, prods, kw1, ms):
                ctx.fail(f'C16/{cl}', f'{name} on {tag}: {det}', reactor_replay(name, pats, prods, kw1, ms))

    cases.run()


def replay_input(name, q, r, kw, mol, fix_rings=False):
    return {'kind': 'transform', 'template': name, 'pattern': str(q), 'replacement': repl_text(r), 'kwargs': kw,
            'fix_rings': fix_rings, 'wire': wire.mol_to_ints(mol)}


def repl_text(r):
    from chython import MoleculeContainer
    if isinstance(r, MoleculeContainer):
        return 'mol:' + format(r, 'm')
    return str(r)


# ------------------------------------------------------------------------------------------------
# failing-input search and probe
# ------------------------------------------------------------------------------------------------

def build_mol(atoms, bonds):
    """molecule through the public API with exactly this atom / bond insertion order"""
    from chython import MoleculeContainer
    from chython.periodictable import Element
    m = MoleculeContainer()
    for n, sym in atoms:
        m.add_atom(Element.from_symbol(sym)(), n)
    for a, b, *o in bonds:
        m.add_bond(a, b, o[0] if o else 1)
    return m


def probe_orders(inp, cap=1000):
    """every bond insertion order (and both orientations of each bond, capped) must give the expected product strings"""
    from chython import smarts, Transformer
    import random
    q, r = smarts(inp['pattern']), parse_repl(inp['replacement'])
    t = Transformer(q, r)
    expect = sorted(inp['expect'])
    bonds = [tuple(b) for b in inp['bonds']]
    perms = list(itertools.permutations(bonds))
    rng = random.Random(0)
    seen_bad = None
    n = 0
    for perm in perms:
        flips = [0, (1 << len(bonds)) - 1] + [rng.getrandbits(len(bonds)) for _ in range(max(0, cap // len(perms) - 2))]
        for f in flips:
            bs = [(b[1], b[0]) + tuple(b[2:]) if f >> i & 1 else b for i, b in enumerate(perm)]
            m = build_mol(inp['atoms'], bs)
            got = sorted(str(p) for p in t(m))
            n += 1
            if got != expect and seen_bad is None:
                seen_bad = (bs, got)
    if seen_bad:
        return True, f'bond insertion order {seen_bad[0]} gives products {seen_bad[1]}, expected {expect} ({n} orders tried)'
    return False, f'all {n} bond insertion orders give {expect}'


def transform_failures(inp, numbering=True):
    """all clause failures of one (template, molecule) replay input on the real code"""
    from chython import smarts
    mol = wire.ints_to_mol(inp['wire'], calc=True)[0]
    q, r = smarts(inp['pattern']), parse_repl(inp['replacement'])
    kw = inp.get('kwargs') or {}
    builtin = inp.get('template', '').startswith(('deprotection', 'reactions'))
    bad = clauses(q, r, mol, kw, fix_rings=bool(inp.get('fix_rings')), limit=50, builtin=builtin)
    if not inp.get('fix_rings'):
        bad += clauses(q, r, mol, kw, fix_rings=True, limit=50, builtin=builtin)
    if has_stereo(mol) or template_marks(r):
        for fr in (True, False):
            bad += stereo_clauses(q, r, mol, kw, fix_rings=fr, limit=50)
    bad += switch_clauses(q, r, mol, kw, limit=12)
    if numbering:
        bad += numbering_clauses(q, r, mol, kw)
    return bad


def probe_transform(inp):
    bad = transform_failures(inp)
    if bad:
        return True, '; '.join(f'{b[0]}: {b[1]}' for b in bad[:4])
    return False, 'all clauses hold'


def sig_str(m):
    """canonical string used for the independence clauses: hydrogens shown, stereo marks dropped (the canonical ordering of
    symmetric stereo systems is a recorded gap of C01 and the stereo translation is outside this check's model)"""
    return format(m, 'h!s')


def numbering_clauses(q, r, mol, kw=None, rng=None, rounds=2):
    try:
        return _numbering_clauses(q, r, mol, kw, rng, rounds)
    except Exception as e:
        return [('product-graph', f'the independence oracle could not handle a product: {type(e).__name__}: {e}')]


def _numbering_clauses(q, r, mol, kw=None, rng=None, rounds=2):
    """the product set (canonical strings) does not depend on reactant numbering / insertion order"""
    import random
    from chython import Transformer
    rng = rng or random.Random(0)
    kw = dict(kw or {})
    if template_marks(q):
        # molgen.renumber carries stereo signs over without translating them to the new neighbour order (it may hand back the
        # enantiomer); a pattern that matches by configuration cannot be compared across such renumberings
        return []
    # aromaticity repair is switched off here: where kekule()/thiele(fix_tautomers) put the hydrogen of an under-specified
    # aromatic ring (e.g. an imidazole N that lost its substituent) is a heuristic choice that belongs to C05, not to the
    # template machinery; the products are compared as the patcher leaves them
    kw.setdefault('fix_aromatic_rings', False)
    t = Transformer(q, r, **kw)
    bad = []
    cap = 60
    try:
        prods = list(itertools.islice(t(mol), cap + 1))
        if len(prods) > cap:
            return []   # too many matches to enumerate completely: a truncated enumeration is order dependent by construction
        base = sorted({sig_str(p) for p in prods})
    except Exception as e:
        # the template makes a chemically impossible product here (e.g. kekule() fails): not a numbering question, but the
        # renumbered input must then fail the same way
        prods, base = [], 'raises:' + type(e).__name__
    # the canonical strings of the products themselves must be renumbering-stable, otherwise the comparison says nothing
    for p in prods[:6]:
        if sig_str(molgen.renumber(rng, p)[0]) != sig_str(p):
            return []
    for _ in range(rounds):
        m2 = molgen.renumber(rng, mol)[0]
        if sig_str(m2) != sig_str(mol):
            continue   # canonical string itself not invariant here: that is C01's business, not a template defect
        try:
            others = list(itertools.islice(t(m2), cap + 1))
            if len(others) > cap:
                continue
            other = sorted({sig_str(p) for p in others})
        except Exception as e:
            other = 'raises:' + type(e).__name__
        if other != base:
            cl = 'numbering-independence'
            if kw.get('automorphism_filter', True) and isinstance(base, list) and isinstance(other, list):
                # Is the difference explained by the documented automorphism filter ("skip matches to the same atoms":
                # which of the matches onto one atom set survives depends on the enumeration order)? Then every product
                # of either numbering is among the products of the unfiltered enumeration, which itself is
                # numbering-independent. Recorded as a known finding with its own signature.
                kw2 = dict(kw, automorphism_filter=False)
                t2 = Transformer(q, r, **kw2)
                try:
                    full1 = {sig_str(p) for p in itertools.islice(t2(mol), 400)}
                    full2 = {sig_str(p) for p in itertools.islice(t2(m2), 400)}
                    if full1 == full2 and set(base) <= full1 and set(other) <= full1:
                        cl = 'numbering-independence/automorphism-filter'
                except Exception:
                    pass
            bad.append((cl, f'products {base} vs {other} after renumbering {wire.mol_to_ints(m2)}',
                        {'kind': 'numbering-pair', 'pattern': str(q), 'replacement': repl_text(r),
                         'kwargs': dict(kw),
                         'wire_a': wire.mol_to_ints(mol), 'wire_b': wire.mol_to_ints(m2)}))
    return bad


def probe_numbering_pair(inp):
    from chython import smarts, Transformer
    q, r = smarts(inp['pattern']), parse_repl(inp['replacement'])
    t = Transformer(q, r, **(inp.get('kwargs') or {}))
    a = wire.ints_to_mol(inp['wire_a'], calc=True)[0]
    b = wire.ints_to_mol(inp['wire_b'], calc=True)[0]
    if sig_str(a) != sig_str(b):
        return None, 'the two inputs are not the same structure'
    pa = sorted({sig_str(p) for p in t(a)})
    pb = sorted({sig_str(p) for p in t(b)})
    return pa != pb, f'same molecule {sig_str(a)} in two numberings gives product sets {pa} and {pb}'


def search(ctx):
    """Failing-input search: property-level oracle (`clauses`, `numbering_clauses`, `reactor_clauses`, `deleted_spec`) on the
    real code only, starting from the disagreeing cases, then their neighbourhood (same templates on more molecules)."""
    import time
    from chython import smarts, smiles
    t0 = time.time()
    budget = 60 if ctx.quick else 600
    rng = ctx.rng
    seen = set()

    def report(bad, what_prefix, inp):
        for cl, det, *extra in bad:
            sig = f'C16/{cl}'
            if sig not in seen:
                seen.add(sig)
                ctx.fail(sig, f'{what_prefix}: {det}', extra[0] if extra else inp)

    # 1. the disagreeing cases themselves
    templates = {}
    for d in getattr(ctx, 'disagree', [])[:300]:
        rp = d.get('replay')
        if time.time() - t0 > budget / 3:
            break
        if d['stream'] == 'del':
            xs = list(map(int, d['request'].split()[1:]))
            it = iter(xs)
            tpl = [next(it) for _ in range(next(it))]
            mapping = {}
            for _ in range(next(it)):
                k = next(it)
                mapping[k] = next(it)
            bonds = {}
            for _ in range(next(it)):
                n = next(it)
                bonds[n] = {next(it): 1 for _ in range(next(it))}
            got = impl_del(bonds, tpl, mapping)
            try:
                spec = 'ok ' + ' '.join(map(str, sorted(spec_del(bonds, tpl, mapping))))
            except KeyError:
                continue
            if got.startswith('ok') and got != spec:
                report([('deleted-exact', f'_get_deleted returned {got}, spec {spec}')], d['tag'],
                       {'kind': 'del', 'bonds': {str(k): list(v) for k, v in bonds.items()}, 'tpl': tpl,
                        'mapping': {str(k): v for k, v in mapping.items()}})
        elif rp and rp.get('kind') == 'transform':
            templates[rp['template']] = rp
            try:
                report(transform_failures(rp), f"{rp['template']} on {d['tag']}", rp)
            except Exception as e:
                ctx.notes.append(f'search: replay of {d["tag"]} raised {type(e).__name__}: {e}')
        elif rp and rp.get('kind') == 'reactor':
            try:
                fails, what = probe_reactor(rp)
                if fails:
                    report([(what.split(':')[0], what)], rp['template'], rp)
            except Exception as e:
                ctx.notes.append(f'search: reactor replay raised {type(e).__name__}: {e}')
    if ctx.failures:
        return
    # 2. neighbourhood: the implicated templates (or all, when a theorem / translator broke) on more molecules
    pool = []
    for name, qs, rs, kw in SYNTHETIC + ATTR_TEMPLATES:
        if not templates or ('synthetic.' + name) in templates:
            pool.append(('synthetic.' + name, qs, rs, kw))
    for name, qs, rs, tests in builtin_deprotection():
        if not templates or name in templates:
            pool.append((name, qs, rs, {}))
    mols = molecules_for(ctx, 250 if ctx.quick else 1500)
    rng.shuffle(mols)
    for tag, mol in mols:
        if time.time() - t0 > budget or ctx.failures:
            break
        for name, qs, rs, kw in pool:
            try:
                q, r = smarts(qs), parse_repl(rs)
                if not (q < mol):
                    continue
                rp = {'kind': 'transform', 'template': name, 'pattern': qs, 'replacement': rs, 'kwargs': kw,
                      'fix_rings': False, 'wire': wire.mol_to_ints(mol)}
                report(transform_failures(rp, numbering=True), f'{name} on {tag}', rp)
            except Exception as e:
                ctx.notes.append(f'search: {name} on {tag} raised {type(e).__name__}: {e}')
                continue
    # 3. reactors
    if not ctx.failures:
        for name, R in builtin_reactions():
            if time.time() - t0 > budget:
                break
            pats, prods = list(R._patterns), list(R._products)
            for tag, ms in reactor_inputs(ctx, pats, 3):
                try:
                    report(reactor_clauses(pats, prods, {'automorphism_filter': False}, ms, rng, builtin=True), f'{name} on {tag}',
                           reactor_replay(name, pats, prods, {'automorphism_filter': False}, ms))
                except Exception as e:
                    ctx.notes.append(f'search: reactor {name} raised {type(e).__name__}: {e}')
    ctx.notes.append(f'search: {time.time() - t0:.0f}s, {len(seen)} failing clause(s) found')


def probe(inp):
    if inp.get('kind') == 'del':
        bonds = {int(k): {m: 1 for m in v} for k, v in inp['bonds'].items()}
        mapping = {int(k): v for k, v in inp['mapping'].items()}
        got = impl_del(bonds, inp['tpl'], mapping)
        spec = 'ok ' + ' '.join(map(str, sorted(spec_del(bonds, inp['tpl'], mapping))))
        return got != spec, f'_get_deleted -> {got}; spec -> {spec}'
    if inp.get('kind') == 'orders':
        return probe_orders(inp)
    if inp.get('kind') == 'transform':
        return probe_transform(inp)
    if inp.get('kind') == 'reactor':
        return probe_reactor(inp)
    if inp.get('kind') == 'numbering-pair':
        return probe_numbering_pair(inp)
    if inp.get('kind') == 'public':
        return probe_public(inp)
    if inp.get('kind') == 'override':
        from chython import smarts
        mol = wire.ints_to_mol(inp['wire'], calc=True)[0]
        bad = override_clauses(smarts(inp['pattern']), smarts(inp['r1']), smarts(inp['r2']), inp['atom'], mol)
        return bool(bad), '; '.join(f'{c}: {d}' for c, d in bad[:3]) or 'override clauses hold'
    return None, 'unknown probe kind'
