"""C20 — RDKit bridge preserves structure and configuration in both directions (translation validation, partial proofs).

G  Gen/C20Tables.lean regenerated from the live `chython.utils.rdkit` (bond-type maps by enum NAME, the enum members behind
   `_chiral_cw/_chiral_ccw/_cis/_trans`, `_inorganic`) and RDKit's enum name tables.
P  Props/C20.lean: bond maps inverse, attribute transfer round trip, chiral-tag / E-Z round trip for every pair of neighbour
   orders (C12 parity algebra), dative direction, coordinates, agreement with the documented RDKit conventions (Spec).
K  the executable Lean model (Drivers/C20.lean) against the real code, observed from outside:
     env   `stereogenic_tetrahedrons`, `_stereo_cis_trans_centers`, `stereogenic_cis_trans` of the real molecule
     to    the RWMol exactly as `to_rdkit_molecule` hands it to `SanitizeMol` (captured by wrapping the module-level name)
     from  the molecule exactly as `from_rdkit_molecule` hands it to `fix_structure` (captured by wrapping the method)
   field by field (atoms, bonds with direction, tags, stereo atoms, map numbers, coordinates, dict orders).
R  property-level judges on the real code that never consult the Lean model (also the failing-input search):
     A   chython -> RDKit -> chython: canonical string equal after kekule()+thiele(); attributes, bonds, configuration,
         map numbers and coordinates equal under the position map (own parity judge)
     B   RDKit -> chython -> RDKit: RDKit canonical SMILES equal (after re-parse), map numbers, coordinates
     X   cross toolkit: RDKit's reading of a SMILES vs to(chython's reading) and chython's reading vs from(RDKit's reading),
         on inputs both readers interpret identically atom by atom
   under renumbering on both sides (own configuration-preserving renumbering; RDKit RenumberAtoms / random SMILES order).
"""
import itertools
import re
from contextlib import contextmanager

from .. import core, molgen, wire
from ..gen import gen_c20

LEVEL = 'translation_validation'
LEVEL_TEXT = ('RDKit is a black box, so "the round trip through RDKit preserves the molecule" cannot be a theorem about RDKit. '
              'What is proved (Lean, universally quantified): the bridge\'s own share — bond-type maps are mutually inverse on '
              'the documented orders, the atom attribute transfer is lossless, the chiral tag / E-Z label written for ANY '
              'neighbour order is read back as the same configuration from ANY other neighbour order provided RDKit '
              're-expresses tags by permutation parity (the documented convention), the dative direction rule, coordinates. '
              'What is validated on every run: the Lean model equals the real code field by field at the two RDKit '
              'boundaries (before SanitizeMol, before fix_structure) and at both return values (to-final, from-final with fix_stereo '
              'over the real chiral_* sets as oracle), conformers included, and the real round trips A/B/X hold on corpus and '
              'generator molecules with RDKit in the loop. That is the right level: the decisive step is run-time comparison '
              'of real outputs, backed by theorems about the modelled part.')
LEVEL_NOTE = ('Lean kernel; gen_c20 translator; hand-written model Model/C20Bridge.lean tied by correspondence; the C12 sign '
              'model; RDKit 2026.3 as a black box whose conventions (tag relative to bond order, implicit hydrogen last; '
              'STEREOZ/E relative to the stereo atoms; GetNeighbors in bond order) are recorded assumptions, exercised by '
              'the K/R streams but not proved.')
TECHNIQUE = 'Lean 4 theorems over regenerated tables + C12 parity algebra; model-vs-code correspondence at both RDKit boundaries; real round trips judged by canonical SMILES of both toolkits'
HAS_DRIVER = True
FINDINGS_MODULE = 'ChythonModel.Findings.C20'
RULE = ('corpus sample + handmade + stereo templates (all label combinations for <= 3 stereo elements, explicit/implicit H, '
        'incl. the ring-axis family: stereo elements chython accepts and RDKit\'s perception does not; '
        'Kekule and aromatic form) x configuration-preserving renumbering (new numbers, new atom and bond insertion order) x '
        'keep_mapping on/off; RDKit side: RenumberAtoms and random-order SMILES re-reads; a case is non-trivial when the '
        'molecule carries a stereo label, charge, isotope, radical, aromatic or order-8 bond; distinct by request line')
TRUSTED = ['gen_c20 translator (reads the live module constants and RDKit enum name tables)',
           'hand-written Lean model Model/C20Bridge.lean (validated by correspondence, not derived from the Python text)',
           'C12 model Model/Stereo.lean + Gen/StereoTables.lean (imported)',
           'C12 model Model/StereoFix.lean of fix_stereo (imported by Model/C20FromFinal.lean); its chiral_* oracle is answered by the real code',
           'capture wrappers around chython.utils.rdkit.SanitizeMol and MoleculeContainer.fix_structure (observation only)',
           'own RDKit-side configuration judge rd_configuration and the carried-label input builder rd_carried (RDKit functions only)',
           'own parity / configuration judge and configuration-preserving renumbering in harness/props/c20.py',
           'RDKit 2026.3 (black box on the path under test and as the judge of one side, as the property states)']
ASSUMPTIONS = ['RDKit: a chiral tag is relative to the atom\'s neighbour (bond) order with an implicit hydrogen last; reordering '
               'neighbours re-expresses the tag by permutation parity',
               'RDKit: STEREOZ/STEREOE are relative to the two stereo atoms; choosing the other substituent at one end inverts the label',
               'RDKit: GetNeighbors() follows bond insertion order; SanitizeMol adds no implicit hydrogen on valence-valid input',
               'domain: molecules both toolkits accept and read identically; carbon stereocentres with >= 3 non-hydrogen '
               'neighbours (D/T count as hydrogen in chython), simple (non-cumulated) stereo double bonds; at most one radical '
               'electron per atom; RDKit bond types in the image of _bond_map (ZERO/UNSPECIFIED collapse to order 8)',
               'coordinates are multiples of 1/16 (exact in binary floating point)']

Q = 16
_state = {}


def generate(ctx):
    path, t = gen_c20.generate()
    _state['tables'] = t
    # the sign tables of chython/algorithms/stereo.py are anchored by C20 as well (same generator as C12, same file)
    from ..gen import gen_stereo
    spath = gen_stereo.generate()[0]
    return [path, spath]


def tables():
    if 'tables' not in _state:
        _state['tables'] = gen_c20.tables()
    return _state['tables']


# ------------------------------------------------------------------------------------------------
# wire helpers
# ------------------------------------------------------------------------------------------------

def q16(v):
    i = round(v * Q)
    if i / Q != v:
        raise ValueError(f'coordinate {v!r} is not a multiple of 1/{Q}')
    return i


def cmol_ints(mol):
    out = wire.mol_to_ints(mol)
    out += [getattr(a, '_parsed_mapping', None) or 0 for a in mol._atoms.values()]
    for a in mol._atoms.values():
        out += [q16(a.x), q16(a.y)]
    return out


def enum_index(kind, member):
    return tables()['enums'][kind].index(member.name)


def rmol_ints(rd, implicit=True):
    """fields of an RDKit molecule the bridge reads/writes. `implicit=False` for an unsanitised RWMol (no implicit-H cache)."""
    out = [rd.GetNumAtoms()]
    for a in rd.GetAtoms():
        out += [a.GetAtomicNum(), a.GetNumExplicitHs(), a.GetNumImplicitHs() if implicit else 0, a.GetFormalCharge(),
                a.GetIsotope(), a.GetNumRadicalElectrons(), a.GetAtomMapNum(), enum_index('RdChiral', a.GetChiralTag())]
    out.append(rd.GetNumBonds())
    for b in rd.GetBonds():
        sa = list(b.GetStereoAtoms())
        out += [b.GetBeginAtomIdx(), b.GetEndAtomIdx(), enum_index('RdBondType', b.GetBondType()),
                enum_index('RdStereo', b.GetStereo())] + (sa if len(sa) == 2 else [-1, -1])
    cs = rd.GetConformers()
    if cs:
        out.append(1)
        for x, y, _ in cs[0].GetPositions():
            out += [q16(float(x)), q16(float(y))]
    else:
        out.append(0)
    return out


def nbrs_ints(rd):
    out = []
    for a in rd.GetAtoms():
        nb = [x.GetIdx() for x in a.GetNeighbors()]
        out += [len(nb)] + nb
    return out


def env_ints(mol):
    st = mol.stereogenic_tetrahedrons
    ce = mol._stereo_cis_trans_centers
    sc = mol.stereogenic_cis_trans
    out = [len(st)]
    for n, o in st.items():
        out += [n, len(o), *o]
    out.append(len(ce))
    for n, (a, b) in ce.items():
        out += [n, a, b]
    out.append(len(sc))
    for (n, m), (n0, n1, n2, n3) in sc.items():
        out += [n, m, n0, n1, -1 if n2 is None else n2, -1 if n3 is None else n3]
    return out


def canon_rmol(text):
    """`ok RMOL` with the begin/end of every non-dative bond put in ascending order (stereo atoms exchanged with them):
    RDKit gives a direction meaning only to dative bonds, so the direction of the others is not compared."""
    if not text.startswith('ok '):
        return text
    xs = list(map(int, text.split()[1:]))
    n = xs[0]
    i = 1 + 8 * n
    m = xs[i]
    dative = tables()['enums']['RdBondType'].index('DATIVE')
    for k in range(m):
        o = i + 1 + 6 * k
        b, e, t, st, s0, s1 = xs[o:o + 6]
        if t != dative and b > e:
            xs[o:o + 6] = [e, b, t, st, s1, s0]
    return 'ok ' + ' '.join(map(str, xs))


def line(op, *parts):
    return op + ' ' + ' '.join(str(x) for p in parts for x in (p if isinstance(p, (list, tuple)) else [p]))


def outcome(f):
    try:
        return 'ok ' + ' '.join(map(str, f()))
    except Exception as e:
        return 'err ' + type(e).__name__


# ------------------------------------------------------------------------------------------------
# observation of the two RDKit boundaries (no source change: module-level names / a method are wrapped)
# ------------------------------------------------------------------------------------------------

@contextmanager
def capture_to():
    """records the RWMol fields at the moment `to_rdkit_molecule` calls `SanitizeMol`."""
    import chython.utils.rdkit as R
    box = {}
    orig = R.SanitizeMol

    def spy(mol, *a, **k):
        box['pre'] = rmol_ints(mol, implicit=False)
        return orig(mol, *a, **k)
    R.SanitizeMol = spy
    try:
        yield box
    finally:
        R.SanitizeMol = orig


@contextmanager
def capture_from():
    """records the molecule at the moment `from_rdkit_molecule` calls `fix_structure` (labels moved, not yet filtered)."""
    from chython import MoleculeContainer
    box = {}
    orig = MoleculeContainer.fix_structure

    def spy(self, *a, **k):
        if 'pre' not in box:
            box['pre'] = cmol_ints(self)
            box['labels'] = ({n: a._stereo for n, a in self._atoms.items() if a._stereo is not None},
                             {(n, m): b._stereo for n, m, b in self.bonds() if b._stereo is not None})
            try:
                box['env'] = env_ints(self)
            except Exception as e:  # the dictionaries themselves raised
                box['env'] = 'err ' + type(e).__name__
        return orig(self, *a, **k)
    MoleculeContainer.fix_structure = spy
    try:
        yield box
    finally:
        MoleculeContainer.fix_structure = orig


def real_to(mol, keep=True):
    from chython.utils.rdkit import to_rdkit_molecule
    with capture_to() as box:
        rd = to_rdkit_molecule(mol, keep_mapping=keep)
    return rd, box.get('pre')


def real_from(rd, box_out=None):
    from chython.utils.rdkit import from_rdkit_molecule
    with capture_from() as box:
        mol = from_rdkit_molecule(rd)
    if box_out is not None:
        box_out.update(box)
    return mol, box.get('pre'), box.get('env')


def chiral_for(mol, labels):
    """the three `chiral_*` sets the real code reports for `mol`'s constitution when exactly `labels` = [(kind, a, b, sign)] are
    present (scratch copy, fresh caches): the oracle of the `fix_stereo` model."""
    c = mol.copy()
    for a in c._atoms.values():
        a._stereo = None
    for *_x, b in c.bonds():
        b._stereo = None
    c.flush_cache()
    for k, a, b, sg in labels:
        if k == 2:
            i, j = c._stereo_cis_trans_centers[a]
            c._bonds[i][j]._stereo = bool(sg)
        else:
            c._atoms[a]._stereo = bool(sg)
    c.flush_cache()
    return ([(0, n, 0) for n in sorted(c.chiral_tetrahedrons)] + [(1, n, 0) for n in sorted(c.chiral_allenes)] +
            [(2, n, m) for n, m in sorted(c.chiral_cis_trans)])


def oracle_table(back, labels):
    """label sets a restore loop over the labels moved by `from_rdkit_molecule` can ask about (initial segments in queue order:
    atoms(), then bonds()), each answered by the real `chiral_*` sets. The table only ANSWERS; which labels survive is decided
    by the model (which reports `oracle-missing` when it asks anything else)."""
    al, bl = labels
    st, sa, term = back.stereogenic_tetrahedrons, back.stereogenic_allenes, back._stereo_cis_trans_terminals
    pend = [(0, n, 0, int(al[n])) for n in back._atoms if n in al and n in st]
    pend += [(1, n, 0, int(al[n])) for n in back._atoms if n in al and n not in st and n in sa]
    for n, m, b in back.bonds():
        sg = bl.get((n, m), bl.get((m, n)))
        if sg is not None and int(b) == 2 and term.get(n) and term.get(m) == term.get(n):
            pend.append((2,) + tuple(term[n]) + (int(sg),))
    restored, table = [], []
    for _ in range(len(pend) + 1):
        if not pend:
            break
        ch = chiral_for(back, restored)
        table.append((list(restored), ch))
        units = set(ch)
        ok = [l for l in pend if l[:3] in units]
        if not ok:
            break
        restored = restored + ok
        pend = [l for l in pend if l[:3] not in units]
    out = [len(table)]
    for ls, us in table:
        out += [len(ls)] + [x for l in ls for x in l] + [len(us)] + [x for u in us for x in u]
    return out


def canon_final(text):
    return text.split(' | ')[0]


# ------------------------------------------------------------------------------------------------
# own configuration judge (independent of the tables and of the Lean model)
# ------------------------------------------------------------------------------------------------

def odd(seq, ref):
    """True iff `seq` is an odd arrangement of `ref` (inversion count)."""
    idx = [ref.index(x) for x in seq]
    return sum(1 for i in range(len(idx)) for j in range(i + 1, len(idx)) if idx[i] > idx[j]) % 2 == 1


def configuration(mol, number_of=None):
    """numbering- and dict-order-independent description of the labelled stereo elements the bridge supports.
    tetrahedron n with label s relative to order o  ->  ('t', n, s xor odd(o, sorted o))        (hydrogen last on both sides)
    double bond (a, b) with label s relative to (n0, n1) -> ('c', a, b, s xor [n0 not the smaller nbr] xor [n1 not ...])
    `number_of` maps atom numbers first (for comparison under a known atom correspondence)."""
    f = (lambda x: x) if number_of is None else (lambda x: number_of[x])
    out = set()
    st = mol.stereogenic_tetrahedrons
    for n, a in mol._atoms.items():
        if a._stereo is not None and n in st:
            o = [f(x) for x in st[n]]
            out.add(('t', f(n), a._stereo ^ odd(o, sorted(o))))
    ce = mol._stereo_cis_trans_centers
    for (a, b), (n0, n1, n2, n3) in mol.stereogenic_cis_trans.items():
        c = ce[a]
        if set(c) != {a, b}:
            continue  # cumulated chain: not transferable through RDKit
        if len(mol._bonds[a]) > 3 or len(mol._bonds[b]) > 3:
            continue  # hypervalent hub (S(VI)=N, P(V)=C …): RDKit has no double-bond stereo for atoms with more than 3 neighbours
        s = mol._bonds[a][b]._stereo
        if s is None:
            continue
        ea = sorted(f(x) for x in (n0, n2) if x is not None)
        eb = sorted(f(x) for x in (n1, n3) if x is not None)
        s = s ^ (f(n0) != ea[0]) ^ (f(n1) != eb[0])
        out.add(('c',) + tuple(sorted((f(a), f(b)))) + (s,))
    return out


def unsupported_labels(mol):
    """labels the bridge does not transfer by design: allenes, cumulated cis-trans."""
    k = 0
    st = mol.stereogenic_tetrahedrons
    for n, a in mol._atoms.items():
        if a._stereo is not None and n not in st:
            k += 1
    ce = mol._stereo_cis_trans_centers
    for n, m, b in mol.bonds():
        if b._stereo is not None:
            c = ce.get(n)
            if c is None or n not in c or m not in c or len(mol._bonds[n]) > 3 or len(mol._bonds[m]) > 3:
                k += 1
    return k


def rd_configuration(rd):
    """the labelled stereo elements of an RDKit molecule in the terms of `configuration` (atom INDICES), by own parity, from RDKit's
    documented conventions only: a chiral tag is relative to the atom's neighbour order with an implicit hydrogen last (an explicit
    hydrogen atom — any isotope, chython counts D/T as hydrogen — is moved to the end, one transposition per step); STEREOZ/E are
    relative to the stereo atoms (a stereo atom that is not the smaller heavy substituent of its end inverts the label). Bonds with an
    end of more than three neighbours are skipped like in `configuration` (recorded domain). Independent of both conversions."""
    out = set()
    for a in rd.GetAtoms():
        t = a.GetChiralTag().name
        if t not in ('CHI_TETRAHEDRAL_CW', 'CHI_TETRAHEDRAL_CCW'):
            continue
        nb = list(a.GetNeighbors())
        heavy = [x.GetIdx() for x in nb if x.GetAtomicNum() != 1]
        hs = [i for i, x in enumerate(nb) if x.GetAtomicNum() == 1]
        if len(hs) > 1 or len(heavy) < 3:
            out.add(('t?', a.GetIdx()))
            continue
        s = t.endswith('CCW')
        if hs:
            s ^= (len(nb) - 1 - hs[0]) % 2 == 1
        out.add(('t', a.GetIdx(), s ^ odd(heavy, sorted(heavy))))
    for b in rd.GetBonds():
        st = b.GetStereo().name
        if st not in ('STEREOE', 'STEREOZ'):
            continue
        sa = list(b.GetStereoAtoms())
        ends = (b.GetBeginAtom(), b.GetEndAtom())
        if len(sa) != 2 or ends[0].GetDegree() > 3 or ends[1].GetDegree() > 3:
            continue
        s = st == 'STEREOZ'
        ok = True
        for e, o, x in ((ends[0], ends[1], sa[0]), (ends[1], ends[0], sa[1])):
            heavy = sorted(y.GetIdx() for y in e.GetNeighbors() if y.GetIdx() != o.GetIdx() and y.GetAtomicNum() != 1)
            if not heavy:
                ok = False
                break
            if x != heavy[0]:       # the other heavy substituent, or a hydrogen standing opposite the only heavy one
                s = not s
        if ok:
            out.add(('c',) + tuple(sorted((ends[0].GetIdx(), ends[1].GetIdx()))) + (s,))
        else:
            out.add(('c?', b.GetIdx()))
    return out


def label_fields(ints):
    """projection of an RMOL int list on what the tail of `to_rdkit_molecule` (SanitizeMol, AssignStereochemistry,
    SetDoubleBondNeighborDirections) has to leave alone: per atom Z, explicit H, charge, isotope, map number, chiral tag; per bond
    ends, stereo, stereo atoms; first conformer. (Bond types change by aromatisation, radical electrons / implicit H by sanitisation.)"""
    n = ints[0]
    out = [n]
    for i in range(n):
        z, eh, ih, ch, iso, rad, mp, tag = ints[1 + 8 * i: 9 + 8 * i]
        out += [z, eh, ch, iso, mp, tag]
    o = 1 + 8 * n
    m = ints[o]
    out.append(m)
    for k in range(m):
        b, e, t, st, s0, s1 = ints[o + 1 + 6 * k: o + 7 + 6 * k]
        if b > e:
            b, e, s0, s1 = e, b, s1, s0
        out += [b, e, st, s0, s1]
    out += ints[o + 1 + 6 * m:]
    return out


def canon_labels(text):
    if not text.startswith('ok '):
        return text
    return 'ok ' + ' '.join(map(str, label_fields(list(map(int, text.split()[1:])))))


def renumber_keep(rng, mol):
    """molgen.renumber (new numbers, shuffled atom and bond insertion order) with the labels re-expressed for the new
    neighbour orders so that the *configuration* is unchanged (labels are relative to dict order). Own parity, no table."""
    old_t = {n: (mol._atoms[n]._stereo, mol.stereogenic_tetrahedrons[n]) for n in mol.stereogenic_tetrahedrons
             if mol._atoms[n]._stereo is not None}
    old_c = {}
    ce = mol._stereo_cis_trans_centers
    for (a, b), env in mol.stereogenic_cis_trans.items():
        i, j = ce[a]
        s = mol._bonds[i][j]._stereo
        if s is not None:
            old_c[(a, b)] = (s, env, (i, j))
    c, mp = molgen.renumber(rng, mol)
    for n, (s, o) in old_t.items():
        o2 = c.stereogenic_tetrahedrons[mp[n]]
        c._atoms[mp[n]]._stereo = s ^ odd([mp[x] for x in o], list(o2))
    sc = c.stereogenic_cis_trans
    for (a, b), (s, (n0, n1, n2, n3), (i, j)) in old_c.items():
        if (mp[a], mp[b]) in sc:
            e = sc[(mp[a], mp[b])]
            fa, fb = e[0], e[1]
        else:
            e = sc[(mp[b], mp[a])]
            fa, fb = e[1], e[0]
        c._bonds[mp[i]][mp[j]]._stereo = s ^ (mp[n0] != fa) ^ (mp[n1] != fb)
    c.flush_cache()
    c.calc_labels()
    return c, mp


def norm(m):
    m = m.copy()
    m.kekule()
    m.thiele()
    return m


def rdcan(rd, keep_maps=False):
    from rdkit import Chem
    rd = Chem.Mol(rd)
    if not keep_maps:
        for a in rd.GetAtoms():
            a.SetAtomMapNum(0)
    return Chem.CanonSmiles(Chem.MolToSmiles(rd))


def set_coords(rng, mol):
    for a in mol._atoms.values():
        a.xy = (rng.randint(-160, 160) / Q, rng.randint(-160, 160) / Q)


def nontrivial(mol):
    return (any(a._stereo is not None or a._charge or a._isotope or a._is_radical for a in mol._atoms.values())
            or any(int(b) in (4, 8) or b._stereo is not None for *_, b in mol.bonds()))


# ------------------------------------------------------------------------------------------------
# property-level judges (R) — real code only
# ------------------------------------------------------------------------------------------------

def kekule_valences(m):
    """per-atom sum of bond orders of a Kekule form (order 8 ignored): the same for every Kekule structure of one molecule."""
    k = m.copy()
    try:
        k.kekule()
    except Exception:
        pass
    return {n: sum(int(b) for b in nb.values() if int(b) != 8) for n, nb in k._bonds.items()}, \
        any(int(b) == 4 for *_, b in k.bonds())


def graph_diff(m1, m2, pos):
    """bond-level comparison of two chython molecules under the atom map `pos` (numbers of m1 -> numbers of m2), insensitive to
    the Kekule / aromatic spelling: same edges, same special (order 8) bonds, same triple bonds, same per-atom Kekule valence."""
    bad = []
    e1 = {frozenset((pos[n], pos[m])): int(b) for n, m, b in m1.bonds()}
    e2 = {frozenset((n, m)): int(b) for n, m, b in m2.bonds()}
    if set(e1) != set(e2):
        return [('bonds', f'edge sets differ: {sorted(map(sorted, set(e1) ^ set(e2)))}')]
    for k in e1:
        if e1[k] != e2[k] and not (e1[k] in (1, 2, 4) and e2[k] in (1, 2, 4)):
            bad.append(('bond-order', f'{sorted(k)}: {e1[k]} -> {e2[k]}'))
    (v1, left1), (v2, left2) = kekule_valences(m1), kekule_valences(m2)
    if not left1 and not left2:
        for n, v in v1.items():
            if v != v2[pos[n]]:
                bad.append(('bond-order', f'atom {n}: Kekule valence {v} -> {v2[pos[n]]}'))
                break
    return bad


def judge_A(mol, keep=True):
    """chython -> RDKit -> chython on the real code. Returns list of (what-kind, detail); empty = holds."""
    from chython.utils.rdkit import to_rdkit_molecule, from_rdkit_molecule
    bad = []
    rd = to_rdkit_molecule(mol, keep_mapping=keep)
    back = from_rdkit_molecule(rd)
    nums = list(mol._atoms)
    if len(back._atoms) != len(nums):
        return [('atom-count', f'{len(nums)} -> {len(back._atoms)}')]
    bad += stale_values(back)
    pos = dict(zip(nums, back._atoms))       # position map: i-th atom <-> i-th atom
    idx = {n: i for i, n in enumerate(nums)}
    donors = set(donor_elements())
    dative_end = set()                        # donor atoms that RDKit was handed as the RECEIVING end of a metal's dative bond
    for b in rd.GetBonds():
        if str(b.GetBondType()) == 'DATIVE' and is_metal(mol._atoms[nums[b.GetBeginAtomIdx()]]) and \
                mol._atoms[nums[b.GetEndAtomIdx()]].atomic_symbol in donors:
            dative_end.add(b.GetEndAtomIdx())
    for n, m, b in mol.bonds():
        if int(b) != 8:
            continue
        a1, a2 = mol._atoms[n], mol._atoms[m]
        for d, mt in ((n, m), (m, n)):
            if mol._atoms[d].atomic_symbol in donors and is_metal(mol._atoms[mt]):
                rb = rd.GetBondBetweenAtoms(idx[d], idx[mt])
                if rb is None or str(rb.GetBondType()) != 'DATIVE' or rb.GetEndAtomIdx() != idx[mt]:
                    bad.append(('dative-direction', f'coordination bond {mol._atoms[d].atomic_symbol}{d}~{mol._atoms[mt].atomic_symbol}{mt} is not a '
                                                    f'dative bond ending at the metal'))
    for i, (n, a) in enumerate(mol._atoms.items()):
        b = back._atoms[pos[n]]
        for what, x, y in (('element', a.atomic_number, b.atomic_number), ('isotope', a._isotope, b._isotope),
                           ('charge', a._charge, b._charge), ('radical', a._is_radical, b._is_radical),
                           ('hydrogens', a._implicit_hydrogens, b._implicit_hydrogens),
                           ('mapping', n if keep else 0, getattr(b, '_parsed_mapping', None) or 0),
                           ('coordinates', (a.x, a.y), (b.x, b.y))):
            if x != y:
                if what == 'hydrogens' and y > x and rd.GetAtomWithIdx(i).GetNumImplicitHs() == y - x \
                        and rd.GetAtomWithIdx(i).GetNumExplicitHs() == x and i not in dative_end:
                    # the bridge wrote chython's count; RDKit's valence model then filled the atom up (known finding)
                    what = 'hydrogens/rdkit-adds-implicit-H'
                bad.append((what, f'atom {n}: {x!r} -> {y!r}'))
    gd = graph_diff(mol, back, pos)
    if gd:   # with different bonds a hydrogen difference is a consequence, not the known RDKit fill-up
        bad = [(w.split('/')[0], d) for w, d in bad]
    bad += gd
    c1, c2 = configuration(mol, pos), configuration(back)
    if c1 != c2:
        bad.append(('configuration', f'{sorted(c1 ^ c2)}'))
    # the first half on its own: the RDKit molecule handed out must hold every supported label chython holds, in the same
    # configuration (own parity on RDKit's documented conventions), whether or not RDKit's own perception would have found the
    # stereo element — and nothing more
    ci, cr = configuration(mol, idx), rd_configuration(rd)
    if ci != cr:
        bad.append(('configuration-to-rdkit', f'labels of the molecule vs labels of the RDKit molecule (by index): {sorted(ci ^ cr, key=str)}'))
    try:
        s1, s2 = str(norm(mol)), str(norm(back))
    except Exception as e:
        return bad + [('normalise', type(e).__name__)]
    if s1 != s2:
        if bad:
            pass    # already explained by an attribute / bond / configuration difference above
        else:
            # every attribute, bond and configuration agrees under the position map: a string difference can then only be a
            # numbering dependence of the canonical writer (C01's recorded gap), not a bridge defect
            _state.setdefault('c01gap' if unsupported_labels(mol) == 0 else 'unsupported-dropped', []).append((s1, s2))
    return bad


def stale_values(mol):
    """the molecule an API call returns must answer like a fresh copy of itself: canonical string, hash, stereo-aware order,
    chiral sets. A difference is a cache left over from an intermediate state of the call (per-object history)."""
    fresh = mol.copy()
    bad = []
    for name, f in (('canonical-string', str), ('hash', hash), ('_chiral_morgan', lambda m: m._chiral_morgan),
                    ('chiral_tetrahedrons', lambda m: m.chiral_tetrahedrons), ('chiral_cis_trans', lambda m: m.chiral_cis_trans),
                    ('stereogenic_tetrahedrons', lambda m: m.stereogenic_tetrahedrons),
                    ('stereogenic_cis_trans', lambda m: m.stereogenic_cis_trans), ('atoms_order', lambda m: m.atoms_order)):
        try:
            x, y = f(mol), f(fresh)
        except Exception as e:
            bad.append(('stale-cache', f'{name}: raised {type(e).__name__}'))
            continue
        if x != y:
            bad.append(('stale-cache', f'{name} of the returned molecule {x!r} != that of its fresh copy {y!r}'))
    return bad[:2]


def judge_B(rd, ref=None):
    """RDKit -> chython -> RDKit on the real code. `ref`: what must come back (default: `rd` itself)."""
    from chython.utils.rdkit import to_rdkit_molecule, from_rdkit_molecule
    bad = []
    mol = from_rdkit_molecule(rd)
    bad += stale_values(mol)
    back = to_rdkit_molecule(mol, keep_mapping=False)
    src, rd = rd, (rd if ref is None else ref)
    for ra, rb in zip(rd.GetAtoms(), back.GetAtoms()):       # atom order is preserved by both conversions
        for what, x, y in (('element', ra.GetAtomicNum(), rb.GetAtomicNum()), ('charge', ra.GetFormalCharge(), rb.GetFormalCharge()),
                           ('isotope', ra.GetIsotope(), rb.GetIsotope()),
                           ('radical', ra.GetNumRadicalElectrons(), rb.GetNumRadicalElectrons()),
                           ('hydrogens', ra.GetTotalNumHs(), rb.GetTotalNumHs())):
            if x != y:
                if what == 'hydrogens' and y > x and rb.GetNumExplicitHs() == x and rb.GetNumImplicitHs() == y - x:
                    what = 'hydrogens/rdkit-adds-implicit-H'     # known finding: `to` does not forbid implicit hydrogens
                bad.append((what, f'atom {ra.GetIdx()} ({ra.GetSymbol()}): {x!r} -> {y!r}'))
    gd = rd_graph_diff(rd, back)
    if gd:
        bad = [(w.split('/')[0], d) for w, d in bad]
    bad += gd
    a, b = rdcan(rd), rdcan(back)
    if a != b and not bad:
        bad.append(('rdkit-canonical', f'{a} -> {b}'))
    # labels directly (RDKit's canonical SMILES above goes through a re-parse, which re-perceives stereo and would hide the loss
    # of a label RDKit's own perception does not find): what the RDKit molecule holds on units chython supports has to arrive in
    # the chython molecule (first half) and come back (whole trip), same configuration by own parity
    cr, cm, cb = rd_configuration(rd), configuration(mol, {n: i for i, n in enumerate(mol._atoms)}), rd_configuration(back)
    if cr != cm:
        bad.append(('configuration-from-rdkit', f'labels of the RDKit molecule vs labels of the molecule (by index): {sorted(cr ^ cm, key=str)}'))
    if cr != cb:
        bad.append(('configuration', f'labels of the RDKit molecule before vs after (by index): {sorted(cr ^ cb, key=str)}'))
    for ra, (n, ca) in zip(src.GetAtoms(), mol.atoms()):
        if (getattr(ca, '_parsed_mapping', None) or 0) != ra.GetAtomMapNum():
            bad.append(('mapping', f'atom {ra.GetIdx()}: map {ra.GetAtomMapNum()} -> parsed_mapping {ca._parsed_mapping}'))
    if rd.GetNumConformers():
        p1 = [(float(x), float(y)) for x, y, _ in rd.GetConformer(0).GetPositions()]
        p2 = [(float(x), float(y)) for x, y, _ in back.GetConformer(0).GetPositions()]
        if p1 != p2:
            bad.append(('coordinates', 'first conformer x,y differ'))
    return bad


def raise_kind(mol, e):
    """class of a raising conversion: the recorded one (order-8 bond between two non-metals becomes DATIVE, which RDKit counts in
    the acceptor's valence) or a plain `raises`."""
    if type(e).__name__ == 'AtomValenceException' and any(
            int(b) == 8 and mol._atoms[n].is_forming_single_bonds and mol._atoms[m].is_forming_single_bonds
            for n, m, b in mol.bonds()):
        return 'raises/special-bond-between-non-metals'
    return 'raises'


def rdkit_accepts(mol):
    """does RDKit itself accept this molecule (judged on chython's own SMILES of it; order-8 bonds written as dative)?"""
    from rdkit import Chem
    try:
        smi = str(mol).split(' |')[0]      # RDKit reads `~` (no valence contribution); CX radical block dropped
    except Exception:
        return False
    return Chem.MolFromSmiles(smi) is not None


def chython_accepts(smi):
    m = parse(smi)
    return m is not None


def rd_graph_diff(r1, r2):
    """bond-level comparison of two RDKit molecules with the same atom order, on Kekule forms."""
    from rdkit import Chem
    ks = []
    for r in (r1, r2):
        k = Chem.Mol(r)
        try:
            Chem.Kekulize(k, clearAromaticFlags=True)
        except Exception:
            return []
        ks.append(k)
    e = [{frozenset((b.GetBeginAtomIdx(), b.GetEndAtomIdx())): b.GetBondType() for b in k.GetBonds()} for k in ks]
    if set(e[0]) != set(e[1]):
        return [('bonds', f'edge sets differ: {sorted(map(sorted, set(e[0]) ^ set(e[1])))}')]
    v = [[sum(b.GetBondTypeAsDouble() for b in a.GetBonds() if str(b.GetBondType()) not in ('DATIVE', 'ZERO', 'UNSPECIFIED'))
          for a in k.GetAtoms()] for k in ks]
    for i, (x, y) in enumerate(zip(*v)):
        if x != y:
            return [('bond-order', f'atom {i}: Kekule valence {x} -> {y}')]
    return []


def readers_agree(mol, rd):
    """both SMILES readers number atoms in text order; the cross-toolkit judge applies where they built the same atoms."""
    if rd is None or mol is None or len(mol._atoms) != rd.GetNumAtoms():
        return False
    for (n, a), ra in zip(mol.atoms(), rd.GetAtoms()):
        if (a.atomic_number, a._charge, a._isotope or 0, int(a._is_radical), a._implicit_hydrogens) != \
                (ra.GetAtomicNum(), ra.GetFormalCharge(), ra.GetIsotope(), ra.GetNumRadicalElectrons(), ra.GetTotalNumHs()):
            return False
    return True


def strip_unsupported(rd):
    """copy of an RDKit molecule WITHOUT the stereo labels chython has no stereogenic unit for (recorded domain): chiral tags on
    non-carbon atoms, on charged / radical carbons, on carbons bonded to a metal, on carbons with fewer than three non-hydrogen
    (any isotope) neighbours or with double / aromatic bonds; E/Z on bonds with an end of more than three neighbours or an end whose
    substituents are all hydrogen isotopes. Returns (molecule, number of labels removed). Everything chython CAN hold stays and
    must survive the bridge — whatever the atom order puts before or after the removed ones."""
    from rdkit import Chem
    from rdkit.Chem import ChiralType, BondStereo
    from chython.periodictable import Element
    r = Chem.RWMol(rd)
    k = 0

    def metal(a):
        try:
            return is_metal(Element.from_atomic_number(a.GetAtomicNum())())
        except Exception:
            return False
    for a in r.GetAtoms():
        if a.GetChiralTag() == ChiralType.CHI_UNSPECIFIED:
            continue
        nb = list(a.GetNeighbors())
        heavy = sum(1 for x in nb if x.GetAtomicNum() != 1)
        ok = (a.GetAtomicNum() == 6 and a.GetFormalCharge() == 0 and a.GetNumRadicalElectrons() == 0 and heavy >= 3
              and not any(metal(x) for x in nb) and all(str(b.GetBondType()) == 'SINGLE' for b in a.GetBonds()))
        if not ok:
            a.SetChiralTag(ChiralType.CHI_UNSPECIFIED)
            k += 1
    for b in r.GetBonds():
        if b.GetStereo() == BondStereo.STEREONONE:
            continue
        ends = (b.GetBeginAtom(), b.GetEndAtom())
        ok = True
        for e, o in (ends, ends[::-1]):
            subs = [x for x in e.GetNeighbors() if x.GetIdx() != o.GetIdx()]
            if e.GetDegree() > 3 or not subs or all(x.GetAtomicNum() == 1 for x in subs) or any(metal(x) for x in subs):
                ok = False
        if not ok:
            b.SetStereo(BondStereo.STEREONONE)
            for e in ends:       # direction marks that only served this bond
                for nbb in e.GetBonds():
                    if nbb.GetIdx() != b.GetIdx() and not any(
                            x.GetStereo() != BondStereo.STEREONONE for a2 in (nbb.GetBeginAtom(), nbb.GetEndAtom())
                            for x in a2.GetBonds() if x.GetIdx() not in (b.GetIdx(), nbb.GetIdx())):
                        nbb.SetBondDir(Chem.BondDir.NONE)
            k += 1
    return r.GetMol(), k


def rd_representable(rd):
    """atoms and bonds chython can hold at all (labels aside): at most one radical electron, no dummy atom, bond types `_bond_map` writes."""
    from rdkit.Chem import BondType
    ok_types = {getattr(BondType, n) for _, n in tables()['bond_map']}
    for a in rd.GetAtoms():
        if a.GetNumRadicalElectrons() > 1 or a.GetAtomicNum() == 0:
            return False
    return all(b.GetBondType() in ok_types for b in rd.GetBonds())


def rd_in_domain(rd):
    """RDKit molecule wholly inside the recorded domain of the bridge (nothing has to be left behind)."""
    return rd_representable(rd) and strip_unsupported(rd)[1] == 0


def judge_B_any(rd):
    """B for a molecule inside the domain; M ("mixed") when it also carries labels chython cannot hold: then what must come back
    is the molecule without exactly those labels — every other label has to survive, wherever it stands in the atom order."""
    ref, k = strip_unsupported(rd)
    if k == 0:
        return 'B', judge_B(rd)
    return 'M', judge_B(rd, ref)


def judge_X(smi):
    """cross toolkit on one SMILES both readers interpret identically."""
    from chython import smiles
    from chython.utils.rdkit import to_rdkit_molecule, from_rdkit_molecule
    from rdkit import Chem
    p = Chem.SmilesParserParams()
    p.removeHs = False
    rd = Chem.MolFromSmiles(smi, p)
    try:
        mol = smiles(smi)
    except Exception:
        mol = None
    if not readers_agree(mol, rd) or not rd_in_domain(rd) or unsupported_labels(mol):
        return None
    if len(configuration(mol)) != len(rd_configuration(rd)):
        # the two READERS already differ in which stereo elements they accept (RDKit's legacy perception knows no axial pair
        # ring centre / exocyclic double bond, no spiro atom between two substituted rings): nothing to compare across toolkits;
        # these molecules are judged by A, B and the carried-label variants
        _state['x-readers-differ-stereo'] = _state.get('x-readers-differ-stereo', 0) + 1
        return None
    bad = []
    try:
        a, b = rdcan(to_rdkit_molecule(mol)), rdcan(rd)
    except Exception as e:
        return [('raises', f'to_rdkit_molecule raised {type(e).__name__}: {str(e)[:120]}')]
    if a != b:
        bad.append(('to-vs-rdkit-reader', f'to(chython reading) {a} != RDKit reading {b}'))
    try:
        back = from_rdkit_molecule(rd)
    except Exception as e:
        return bad + [('raises', f'from_rdkit_molecule raised {type(e).__name__}: {str(e)[:120]}')]
    bad += stale_values(back)
    try:
        s1, s2 = str(norm(back)), str(norm(mol))
    except Exception as e:
        return bad + [('normalise', type(e).__name__)]
    if s1 != s2:
        ident = dict(zip(mol._atoms, back._atoms))
        if configuration(mol, ident) != configuration(back) or graph_diff(mol, back, ident) or \
                [(x.atomic_number, x._charge, x._implicit_hydrogens) for x in back._atoms.values()] != \
                [(x.atomic_number, x._charge, x._implicit_hydrogens) for x in mol._atoms.values()]:
            bad.append(('from-vs-chython-reader', f'from(RDKit reading) {s1} != chython reading {s2}'))
        else:
            _state.setdefault('c01gap', []).append((s1, s2))
    return bad


# ------------------------------------------------------------------------------------------------
# generators
# ------------------------------------------------------------------------------------------------

STEREO = [
    'N[C@@H](C)C(=O)O', 'F[C@](Cl)(Br)I', 'C[C@H](O)CC', 'C[C@@H](O)[C@H](O)[C@H](C)O', 'C[C@H]1CC[C@@H](C)CC1',
    'OC[C@H]1OC(O)[C@H](O)[C@@H](O)[C@@H]1O', 'C[C@]12CC[C@H]1C2', 'C[C@H]1C[C@@H]1C', 'C[C@@](F)(Cl)[C@](C)(F)Cl',
    'OC(=O)[C@H](O)[C@@H](O)C(=O)O', 'c1ccccc1[C@H](F)Cl', 'C[C@H](N)c1ccncc1', '[O-]C(=O)[C@@H]([NH3+])CS',
    '[13CH3][C@H](O)CC', 'C[C@@H](Cl)[CH2] |^1:3|', '[H][C@](F)(Cl)Br', '[2H][C@](F)(Cl)Br', '[H][C@@](C)(N)C(=O)O',
    'C/C=C/C', 'C/C=C\\C', 'F/C(Cl)=C(/Br)I', 'F/C(Cl)=C/Br', 'C/C=N/O', 'C/N=N/C', 'CC/C(C)=C(/C)CO', 'C/C=C/C=C\\C',
    'C/C=C/C=C/C', 'F/C=C/C=C/C=C\\Cl', 'C1CCCC/C=C/C1', 'C1CCC/C=C\\CC1', 'C/C=C/[C@H](F)Cl', '[H]/C(F)=C(/[H])Cl',
    'C\\C=C/O[C@@H]1OC[C@@H](Oc2ccccc2)[C@@H](O)[C@H]1O\\C=C\\C', 'C/C(=N\\O)c1ccccc1', 'O=C(/C=C/c1ccccc1)O',
    'C[C@H](/C=C/Cl)N', 'CC(C)[C@@H](C(=O)N1CCC[C@H]1C(=O)O)N', 'C[C@@H]1CC[C@H](CC1)C(C)C', 'C[C@H]1CCCC[C@@H]1C',
    'C/C=C(/C)[C@@H](C)O', 'Cl/C=C/[C@@H]1CC[C@H](Br)CC1', 'C[N+](C)(C)C[C@@H](O)CC([O-])=O', 'N[C@@H](Cc1c[nH]cn1)C(O)=O',
    'C[C@@]1(O)CC[C@H](C(C)=C)CC1', 'CC[C@H](C)[C@H](N)C(O)=O', 'C(/F)(\\Cl)=C(/Br)\\I', 'C(=C/Cl)\\F',
    # double bonds whose first atom is outside `_inorganic` (B) or whose hub atom precedes its terminal (hypervalent S, P)
    'C/B=C/C', 'C/C=B/C', 'C/B=N/C', 'C/C(F)=B/C', 'CC/S(C)(=O)=N/C', 'C/S(CC)(=O)=C/C', 'C/N=S(/C)(=O)CC', 'C/P(C)(CC)=N/C',
    'C/C=[N+](/C)[O-]', 'C/[N+]([O-])=C/C', 'C/S(CC)=C/C', 'C/C=S(/C)CC',
]
# an isotope label — also one EQUAL to the element's common isotope — is the only difference between two substituents
ISO_STEREO = ['[12CH3][C@H](C)O', '[12CH3][C@@H](C)O', '[13CH3][C@H](C)O', '[12CH3][C@@H]([13CH3])O', 'C[C@H]([12CH3])N',
              '[35Cl][C@H](Cl)C', '[35Cl][C@@H]([37Cl])C', '[16OH][C@H](O)C', '[14NH2][C@H](N)C', '[19F][C@](F)(Cl)Br',
              '[127I][C@H](I)C', '[12CH3]/C(C)=C/F', '[35Cl]/C(Cl)=C/C', 'C/C([12CH3])=C(/C)[12CH3]', '[12CH3]C[C@H](CC)O',
              '[1H][C@](F)(Cl)Br', '[12CH3][C@]1(C)CC[C@H](O)CC1', 'O[C@H]([12CH3])[C@@H](C)O']
# stereo elements that are stereogenic only THROUGH the labels of other stereo elements (no other labelled element of the
# other kind anywhere in the molecule): centre between two E/Z branches, double bond between two E/Z branches / two centres,
# centre between two centres, several equivalent double bonds with different labels, ring cis/trans pairs
DEPENDENT = ['C/C=C/[C@H](O)/C=C\\C', 'C/C=C/[C@@H](O)/C=C\\C', 'CC/C=C/[C@](C)(N)/C=C\\CC', 'CC/C=C/[C@@](C)(N)/C=C\\CC',
             'C/C=C\\[C@H](Cl)/C=C/C', 'F/C=C/[C@H](C)/C=C\\F', 'C/C=C/C(/C=C\\C)=N/O', 'C/C=C/C(/C=C\\C)=N\\O',
             'C/C=C/C(/C=C\\C)=C/C', 'C/C=C/CC/C=C\\C', 'C/C=C/CC/C=C/C', 'C/C=C\\CC/C=C\\C', 'C/C=C\\c1ccc(/C=C/C)cc1',
             'C/C=C\\C(/C=C/C)=C(C)C', 'C/C=C([C@H](C)O)/[C@@H](C)O', 'C/C=C([C@H](C)O)\\[C@@H](C)O',
             'C[C@H](O)[C@H](F)[C@@H](C)O', 'C[C@H](O)[C@@H](F)[C@@H](C)O', 'C[C@H]1C[C@@H](C)C1', 'C[C@H]1C[C@H](C)C1',
             'O[C@H]1C[C@@H](O)C[C@H](O)C1', 'C/C=C/[C@H]1C[C@@H](/C=C\\C)C1', 'C/C=C/C1CC(/C=C\\C)C1',
             'C/C=C/[C@H](O)/C=C\\C.[Na+].[Cl-]', 'C/C=C/[C@H](O)/C=C\\CC[C@H](C)O']
# a label chython cannot hold next to labels it can, in both orders (RDKit renumbering and random-order re-reads shuffle further)
_UNSUP = ['C[S@](=O)', 'C[S@@](=O)', 'C[P@](=O)(OC)', 'C[Si@](F)(Cl)', 'C[N@+](CC)(CCC)', '[2H][C@H](F)', '[Fe][C@H](Cl)', '[2H]/C=C/C',
          'C/N=S(/C)(=O)', 'C[S@](=O)C[P@](=O)(OC)']
_SUP = ['C[C@H](C)O', 'C[C@@H](N)C(=O)O', 'C/C=C/C', 'C/C=C\\CC', 'C[C@H](O)/C=C/C', 'C[C@H](F)C[C@@H](C)Cl']
MIXED = [u + sp for u in _UNSUP for sp in _SUP] + \
        [sp + u[1:] + 'C' for u in _UNSUP[:5] for sp in ('O[C@H](C)C', 'C/C=C/C', 'C[C@H](F)C[C@@H](Cl)C', 'N[C@@H](C(=O)O)C')]
# constitutionally equivalent stereo elements told apart only by their labels (meso / unlike pairs), acyclic
MESO = ['C[C@H](F)[C@H](F)C', 'C[C@H](F)[C@@H](F)C', 'C[C@H](O)C[C@@H](C)O', 'C[C@H](O)C[C@H](C)O', 'F[C@H](Cl)CC[C@@H](F)Cl',
        'F[C@H](Cl)CC[C@H](F)Cl', 'OC(=O)[C@H](O)[C@H](O)C(=O)O', 'C/C=C/C=C\\C', 'C/C=C\\C=C/C', 'C/C=C/CC/C=C\\C',
        'C[C@H](Cl)/C=C/[C@@H](C)Cl', 'C[C@H](Cl)/C=C\\[C@H](C)Cl', 'N[C@@H](C)C(=O)N[C@H](C)C(=O)O']
# RDKit molecules below RDKit's own default valence (accepted by both toolkits): the known finding seen from the RDKit side
LOWVAL_RD = ['C[Si-](C)(C)C', 'C[PH-](C)(C)C', 'C[Cl+](C)C', 'C[SiH2-]C']
OTHER = [
    'Cl[Pt](Cl)(N)N', 'N~[Cu]', '[NH3]~[Cu]~[NH3]', 'O~[Fe]', 'C[Mg]Br', '[Na+].[Cl-]', 'C[N+](=O)[O-]', '[13CH4]', '[2H]O[2H]',
    'C[CH2] |^1:1|', 'C[N]C |^1:1|', '[OH] |^1:0|', 'c1ccccc1', 'c1ccncc1', 'c1cc[nH]c1', 'C1=CC=CC=C1', 'O=c1cc[nH]cc1',
    'c1ccc2ccccc2c1', '[O-][n+]1ccccc1', '[cH-]1cccc1', 'C[Si](C)(C)C', 'B(O)(O)c1ccccc1', 'CS(=O)(=O)C', 'OP(=O)(O)O',
    '[Fe+2]', 'O=C=O', '[C-]#[O+]', 'C=C=C', 'CC=[C@]=CC', 'C/C=C=C=C/C', '[H][H]', '[H]C([H])([H])[H]', 'N#N', 'CN=[N+]=[N-]',
    'C[S+](C)C', '[O-]S(=O)(=O)[O-].[Mg+2]', 'F[B-](F)(F)F', 'C[Al](C)C', 'c1ccccc1~[Cr]', 'CO~[Ti](~OC)(Cl)Cl',
    # lone neutral atoms: chython reads them as non-radical atoms without hydrogens
    '[Zn]', '[Pd]', '[Fe]', '[Na]', '[Mg]', '[Al]', '[S]', '[Si]', '[H]', 'Cl[Sn]Cl', 'CC(=O)O[Na]', '[LiH]', '[AlH3]',
    # order-8 bonds with every kind of partner (metal acceptor, two metals, two non-metals)
    'CN(C)(C)~O', 'O~N(C)(C)C', 'N~B', 'C~[Fe]~C', '[Fe]~[Fe]', 'CP(C)(C)~[Pd]~P(C)(C)C', 'CCO~[Li]', '[Li]~OCC', 'C[O-]~[Na+]',
]


# ---- stereo elements chython accepts and RDKit's (legacy) perception does not --------------------------------------------
# two ends on a ring axis: 1,3 on a four-ring, 1,4 on a six-ring, or across one spiro atom (which then is a centre itself).
# An end is a ring centre or an exocyclic double bond. centre/centre on ONE ring is the ordinary ring cis/trans pair (RDKit finds
# it: the control group); every other combination is found by chython only. RDKit carries such labels when they are SET on the
# molecule (tags, stereo atoms + STEREOZ/E) — which is all the bridge may rely on.
_AX_START = {'CH': 'C[C@H]1', 'Cq': 'C[C@]1(O)', '=C': 'C/C=C1/', '=N': 'O/N=C1/', '=Cq': 'CC/C(C)=C1/'}
_AX_MID = {'CH': '[C@H](C)', 'Cq': '[C@@](C)(O)', '=C': '/C(=C\\C)', '=N': '/C(=N/O)', '=Cq': '/C(=C(/C)CC)'}
_AX_SKEL = {'ring4': '{A}C{B}C1', 'ring6': '{A}CC{B}CC1', 'spiro44': '{A}C[C@]2(C1)C{B}C2', 'spiro66': '{A}CC[C@@]2(CC1)CC{B}CC2',
            'spiro64': '{A}CC[C@]2(CC1)C{B}C2', 'dispiro': '{A}C[C@]2(C1)C[C@@]3(C2)C{B}C3'}
AXIAL_EXTRA = ['C[C@H]1CCC(CC1)=C1CC[C@H](C)CC1', 'C[C@H]1CCC(CC1)=C1CC[C@@H](C)CC1', 'C[C@H]1CC(C1)=C1C[C@H](C)C1',
               'C/C=C1/CC[C@H](C)CC1.[Na+].[Cl-]', 'C/C=C1/CC[C@H](CC1)[C@H](C)O', 'C/C=C1/CC[C@H](CC1)/C=C/C',
               'C1C[C@]2(CC[C@H](C)CC2)CC[C@H]1C', 'C/C=C1/CC[C@@H](CC1)c1ccccc1', 'O[C@H]1CC[C@@]2(CC1)CC[C@H](N)CC2',
               'C/C=C1/CN(C)C/C(=C\\C)C1']


def slash_flip(rng, smi):
    """the other configuration of one double bond: the LAST direction mark of the string is inverted."""
    i = max(smi.rfind('/'), smi.rfind('\\'))
    if i < 0:
        return smi
    return smi[:i] + ('\\' if smi[i] == '/' else '/') + smi[i + 1:]


def axial_smiles(ctx):
    """every end kind x end kind x skeleton (150) + extras, each in a random configuration; sampled in the quick tier."""
    rng = ctx.rng
    out = []
    for sk, pat in _AX_SKEL.items():
        for ka, a in _AX_START.items():
            for kb, b in _AX_MID.items():
                smi = flip_marks(rng, pat.format(A=a, B=b))
                if rng.random() < 0.5:
                    smi = slash_flip(rng, smi)
                out.append((f'axial[{sk},{ka},{kb}]', smi))
    if ctx.quick:
        out = rng.sample(out, 40)
    out += [(f'axial-extra[{i}]', x) for i, x in enumerate(AXIAL_EXTRA)]
    return out


def flip_marks(rng, smi):
    """another stereoisomer of the same constitution: toggle a random subset of @/@@ marks and of double-bond mark pairs."""
    out, i = [], 0
    while i < len(smi):
        if smi.startswith('@@', i):
            out.append('@' if rng.random() < 0.5 else '@@')
            i += 2
        elif smi[i] == '@':
            out.append('@@' if rng.random() < 0.5 else '@')
            i += 1
        else:
            out.append(smi[i])
            i += 1
    return ''.join(out)


def parse(smi):
    from chython import smiles
    try:
        return smiles(smi)
    except Exception:
        return None


def source_smiles(ctx):
    """(tag, smiles) pairs: templates, their other stereoisomers, corpus sample."""
    rng = ctx.rng
    out = [(f'stereo[{i}]', s) for i, s in enumerate(STEREO)] + [(f'other[{i}]', s) for i, s in enumerate(OTHER)]
    for i, s in enumerate(STEREO):
        for k in range(2 if ctx.quick else 6):
            t = flip_marks(rng, s)
            if t != s:
                out.append((f'stereo[{i}]~{k}', t))
    out += [(f'lowval[{i}]', s) for i, s in enumerate(LOWVAL_RD)]
    out += [(f'isostereo[{i}]', s) for i, s in enumerate(ISO_STEREO)]
    out += [(f'dependent[{i}]', s) for i, s in enumerate(DEPENDENT)]
    out += [(f'mixed[{i}]', s) for i, s in enumerate(MIXED)]
    out += [(f'meso[{i}]', s) for i, s in enumerate(MESO)]
    out += axial_smiles(ctx)
    out += donor_smiles(ctx)
    out += isotope_smiles(ctx)
    smis = molgen.corpus_smiles()
    k = 150 if ctx.quick else 1500
    stereo_idx = [i for i, s in enumerate(smis) if '@' in s or '/' in s or '\\' in s]
    idx = rng.sample(stereo_idx, min(k // 2, len(stereo_idx))) + rng.sample(range(len(smis)), k // 2)
    out += [(f'corpus[{i}]', smis[i]) for i in idx]
    out += [(f'handmade[{i}]', s) for i, s in enumerate(molgen.HANDMADE)]
    return out


# Lewis acids / not donors although chython lists them as forming single bonds (boron accepts: N->B; astatine: no chemistry)
NOT_DONORS = {'B', 'At'}
METALS_SAMPLE = ['Pd', 'Pt', 'Cu', 'Fe', 'Li', 'Mg', 'Al', 'Zn', 'Ti', 'Sn']


def donor_elements():
    """every element chython classifies as a non-metal (forms single bonds) except the recorded acceptors: the atoms that can
    donate an electron pair to a metal. Independent of `_inorganic`."""
    from chython.periodictable import Element
    out = []
    for cls in Element.__subclasses__():
        try:
            a = cls()
            if a.is_forming_single_bonds and cls.__name__ not in NOT_DONORS:
                out.append(cls.__name__)
        except Exception:
            continue
    return out


def is_metal(atom):
    return not atom.is_forming_single_bonds and atom.atomic_number not in (2, 10, 18, 36, 54, 86, 118)


def donor_smiles(ctx):
    """coordination (order 8) bonds from EVERY donor element to metals, written donor-first and metal-first (the atom order decides
    which end `bonds()` yields first), saturated with methyl groups where the donor needs them."""
    rng = ctx.rng
    subst = {'H': 0, 'C': 3, 'N': 3, 'O': 2, 'F': 1, 'Si': 3, 'P': 3, 'S': 2, 'Cl': 1, 'Ge': 3, 'As': 3, 'Se': 2, 'Br': 1, 'Sb': 3, 'Te': 2, 'I': 1}
    out = []
    for x in donor_elements():
        k = subst.get(x)
        if k is None:
            continue
        metals = METALS_SAMPLE if not ctx.quick else rng.sample(METALS_SAMPLE, 3)
        for mt in metals:
            tail = '(C)' * max(k - 1, 0)
            if k == 0:
                donor_first, metal_first = f'[{x}]~[{mt}]', f'[{mt}]~[{x}]'
            else:
                donor_first, metal_first = f'C[{x}]{tail}~[{mt}]', f'[{mt}]~[{x}]{tail}C'
            out.append((f'donor[{x}->{mt}:donor-first]', donor_first))
            out.append((f'donor[{x}->{mt}:metal-first]', metal_first))
            if k and mt in ('Pd', 'Pt', 'Cu', 'Fe', 'Zn', 'Ti') and rng.random() < 0.5:   # RDKit caps the valence of main-group metals
                out.append((f'donor[{x}->{mt}:bis]', f'C[{x}]{tail}~[{mt}](Cl)(Cl)~[{x}]{tail}C'))
    return out


ISO_TEMPLATES = {'H': '[{i}H]C', 'B': '[{i}BH2]C', 'C': '[{i}CH3]C', 'N': '[{i}NH2]C', 'O': '[{i}OH]C', 'F': '[{i}F]C', 'Si': '[{i}SiH3]C',
                 'P': '[{i}PH2]C', 'S': '[{i}SH]C', 'Cl': '[{i}Cl]C', 'Br': '[{i}Br]C', 'I': '[{i}I]C', 'Se': '[{i}SeH]C', 'As': '[{i}AsH2]C'}


def isotope_smiles(ctx):
    """every tabulated isotope (the keys of `isotopes_distribution`, INCLUDING the one equal to `mdl_isotope`) of the organic
    elements inside a small molecule both readers accept, and of every other element as a lone bracket atom (thorough: all
    elements, quick: a sample). These run through all streams and judges like any other source SMILES."""
    from chython.periodictable import Element
    out = []
    others = []
    for cls in Element.__subclasses__():
        try:
            sym, dist, mdl = cls.__name__, cls.isotopes_distribution.fget(None), cls.mdl_isotope.fget(None)
        except Exception:
            continue
        for iso in dist:
            tag = f'isotope[{sym}{iso}{"=mdl" if iso == mdl else ""}]'
            if sym in ISO_TEMPLATES:
                out.append((tag, ISO_TEMPLATES[sym].format(i=iso)))
            else:
                others.append((tag, f'[{iso}{sym}+]' if sym in ('Li', 'Na', 'K', 'Rb', 'Cs') else f'[{iso}{sym}]'))
    if ctx.quick:
        mdl_first = [x for x in others if '=mdl' in x[0]]
        others = ctx.rng.sample(mdl_first, min(25, len(mdl_first))) + ctx.rng.sample(others, min(25, len(others)))
    return out + others


def variants(ctx, tag, mol):
    """the molecule as read, Kekule / aromatic forms, explicit hydrogens, renumbered — all with exact coordinates."""
    rng = ctx.rng
    out = [(tag, mol)]
    try:
        k = mol.copy()
        if k.kekule():
            out.append((tag + ':kekule', k))
        t = k.copy()
        if t.thiele():
            out.append((tag + ':thiele', t))
    except Exception:
        pass
    if rng.random() < 0.25 and len(mol._atoms) <= 30:
        try:
            e = mol.copy()
            e.explicify_hydrogens()
            out.append((tag + ':explicitH', e))
        except Exception:
            pass
    res = []
    for t, m in out:
        set_coords(rng, m)
        res.append((t, m))
        if unsupported_labels(m) == 0:
            for j in range(1 if ctx.quick else 3):
                try:
                    r, _ = renumber_keep(rng, m)
                except Exception as e:
                    ctx.dist('renumber-failed:' + type(e).__name__)
                    continue
                res.append((f'{t}:renum{j}', r))
    return res


def rd_variants(ctx, rd):
    """RDKit-side re-expressions of one molecule: atom renumbering, random-order SMILES re-read (new bond order)."""
    from rdkit import Chem
    rng = ctx.rng
    out = [('as-read', rd)]
    perm = list(range(rd.GetNumAtoms()))
    rng.shuffle(perm)
    out.append(('renumbered', Chem.RenumberAtoms(rd, perm)))
    try:
        smi = Chem.MolToSmiles(rd, doRandom=True)
        p = Chem.SmilesParserParams()
        p.removeHs = False
        r2 = Chem.MolFromSmiles(smi, p)
        if r2 is not None:
            out.append(('random-smiles', r2))
    except Exception:
        pass
    try:
        k = Chem.Mol(rd)
        Chem.Kekulize(k, clearAromaticFlags=True)
        out.append(('kekulized', k))
    except Exception:
        pass
    return out


def rd_carried(smi):
    """RDKit molecule that CARRIES every label the SMILES spells, without RDKit's stereo perception having had a say: parsed
    unsanitised (chiral tags as written), sanitised, double-bond labels set from the direction marks as stereo atoms + STEREOZ/E.
    Built from the text by RDKit functions only (no chython code on the way)."""
    from rdkit import Chem
    from rdkit.Chem import BondStereo
    p = Chem.SmilesParserParams()
    p.removeHs = False
    p.sanitize = False
    rd = Chem.MolFromSmiles(smi, p)
    if rd is None:
        return None
    try:
        Chem.SanitizeMol(rd)
        Chem.SetBondStereoFromDirections(rd)
    except Exception:
        return None
    for b in rd.GetBonds():
        st = b.GetStereo()
        if st == BondStereo.STEREOCIS:
            b.SetStereo(BondStereo.STEREOZ)
        elif st == BondStereo.STEREOTRANS:
            b.SetStereo(BondStereo.STEREOE)
    return rd


def rd_inputs(ctx, smi, mol, rd0):
    """RDKit-side inputs for one SMILES: RDKit's own reading re-expressed (`rd_variants`), and — where RDKit's perception dropped
    labels that chython's reader accepts — the molecule carrying all labels as spelled (`rd_carried`), as built and renumbered.
    The carried molecule is used only when its labels are exactly those of chython's own reading of the same text (by index, own
    parity on both sides), so that every label on it stands on a unit chython supports."""
    from rdkit import Chem
    out = rd_variants(ctx, rd0)
    if mol is None or ('@' not in smi and '/' not in smi and '\\' not in smi):
        return out
    try:
        want = configuration(mol, {n: i for i, n in enumerate(mol._atoms)})
        if want == rd_configuration(rd0) or unsupported_labels(mol):
            return out
        rc = rd_carried(smi)
        if rc is None or rc.GetNumAtoms() != len(mol._atoms) or rd_configuration(rc) != want:
            ctx.dist('carried:not-comparable')
            return out
    except Exception:
        return out
    ctx.dist('carried:used')
    perm = list(range(rc.GetNumAtoms()))
    ctx.rng.shuffle(perm)
    return out + [('carried', rc), ('carried-renumbered', Chem.RenumberAtoms(rc, perm))]


def set_rd_coords(rng, rd):
    from rdkit.Chem import Conformer
    from rdkit import Chem
    rd = Chem.Mol(rd)
    rd.RemoveAllConformers()
    c = Conformer(rd.GetNumAtoms())
    for i in range(rd.GetNumAtoms()):
        c.SetAtomPosition(i, (rng.randint(-160, 160) / Q, rng.randint(-160, 160) / Q, 0.0))
    c.Set3D(False)
    rd.AddConformer(c, assignId=True)
    return rd


# ------------------------------------------------------------------------------------------------
# correspondence
# ------------------------------------------------------------------------------------------------

class Stream:
    def __init__(self, ctx, name, canon=None):
        self.ctx, self.name, self.req, self.real, self.meta, self.canon = ctx, name, [], [], [], canon

    def add(self, req, real, meta, nontriv=True):
        self.req.append(req)
        self.real.append(real)
        self.meta.append(meta)
        self.ctx.count((self.name, req), nontriv)

    def run(self):
        ctx = self.ctx
        if not self.req:
            return
        if not ctx.build_ok:
            ctx.notes.append(f'{self.name}: driver not built, {len(self.req)} requests not compared')
            return
        import time as _t, os as _o
        _t0 = _t.time()
        model = core.run_driver('C20', self.req)
        if _o.environ.get('C20_TIMING'):
            print(f'[timing] driver {self.name}: {len(self.req)} requests {_t.time() - _t0:.1f}s', flush=True)
        if len(model) != len(self.req):
            ctx.broke('correspondence', self.name, f'driver returned {len(model)} lines for {len(self.req)} requests')
            return
        bad = []
        if self.canon:
            model = [self.canon(x) for x in model]
            self.real = [self.canon(x) for x in self.real]
        for q, r, mo, me in zip(self.req, self.real, model, self.meta):
            ctx.dist(f'{self.name}:' + (r if r.startswith('err') else 'ok'))
            if r != mo:
                bad.append((q, r, mo, me))
        if bad:
            ctx.cov['disagreements_checked'] += len(bad)
            q, r, mo, me = bad[0]
            ctx.sample({'stream': self.name, 'case': me, 'real': r[:300], 'model': mo[:300], 'DISAGREE': True})
            ctx.broke('correspondence', self.name,
                      f'{len(bad)} disagreements; first: case={me!r}\n request={q[:600]!r}\n real ={r[:600]!r}\n model={mo[:600]!r}')
            _state.setdefault('disagreements', []).extend(me for *_x, me in bad[:40])
        else:
            i = len(self.req) // 2
            ctx.sample({'stream': self.name, 'case': self.meta[i], 'real': self.real[i][:160], 'model': model[i][:160]})


def add_final(ctx, stream, rd, back, box, meta):
    """one `from-final` case: the molecule `from_rdkit_molecule` RETURNED vs `fromRdFinal` (label loops + fix_stereo over the
    oracle table)."""
    try:
        has = any(a.GetChiralTag().name in ('CHI_TETRAHEDRAL_CW', 'CHI_TETRAHEDRAL_CCW') for a in rd.GetAtoms()) or \
            any(b.GetStereo().name in ('STEREOE', 'STEREOZ') for b in rd.GetBonds())
        if ctx.quick and not meta.startswith(('stereo', 'dependent', 'meso', 'axial', 'mixed', 'isostereo', 'spelling', 'edge')) \
                and ctx.rng.random() < (0.6 if has else 0.8):
            return      # quick tier: every template, a sample of the corpus / element / donor molecules
        table = oracle_table(back, box.get('labels', ({}, {}))) if has else [0]
        stream.add(line('fromf', rmol_ints(rd), nbrs_ints(rd), table), 'ok ' + ' '.join(map(str, cmol_ints(back))), meta,
                   has)
        ctx.dist('from-final:rounds=%d' % (table[0] if has else -1))
    except Exception as e:
        ctx.dist('from-final:not-encodable:' + type(e).__name__)


def report(ctx, kind, tag, smi, bad, extra=None):
    for what, detail in bad:
        ctx.fail(f'C20/{kind}/{what}', f'{kind} round trip: {what} not preserved for {tag} ({smi}): {detail}',
                 dict({'judge': kind, 'smiles': smi, 'tag': tag}, **(extra or {})))


def correspond(ctx):
    from rdkit import Chem, RDLogger
    RDLogger.DisableLog('rdApp.*')
    ctx.cov['programs'] = 6   # to_rdkit_molecule, from_rdkit_molecule, stereogenic_tetrahedrons, _stereo_cis_trans_centers, stereogenic_cis_trans, fix_stereo (as called by from)
    s_env, s_from, s_rt, s_edge = (Stream(ctx, n) for n in ('env', 'from', 'model-round-trip', 'edge'))
    s_to = Stream(ctx, 'to', canon_rmol)
    s_ff = Stream(ctx, 'from-final', canon_final)    # the RETURNED molecule against the whole-function model (fix_stereo included)
    s_tof = Stream(ctx, 'to-final', canon_labels)   # the RETURNED RDKit molecule against the model: the tail of `to` (SanitizeMol,
    #                                                AssignStereochemistry, SetDoubleBondNeighborDirections) must leave every transferred field alone
    rng = ctx.rng
    for tag, smi in source_smiles(ctx):
        mol = parse(smi)
        if mol is None:
            ctx.dist('chython-rejects')
            continue
        # ---- chython side ----
        for vtag, m in variants(ctx, tag, mol):
            nt = nontrivial(m)
            ml = wire.mol_to_ints(m)
            s_env.add(line('env', ml), outcome(lambda: env_ints(m)), vtag, nt)
            if any(a._implicit_hydrogens is None for a in m._atoms.values()):
                # hydrogens unknown (aromatic SMILES before kekule(), valence errors): outside the property's domain, but the
                # error branch of the model (`SetNumExplicitHs(None)`) is compared
                ctx.dist('domain:hydrogens-unknown')
                s_edge.add(line('to', 1, cmol_ints(m)), outcome(lambda: real_to(m, True)[1]), vtag, nt)
                continue
            keep = rng.random() < 0.7
            try:
                rd, pre = real_to(m, keep)
            except Exception as e:
                # hydrogens are known and chython accepted the molecule: a conversion that raises does not preserve it
                ctx.dist('A:to-raises:' + type(e).__name__)
                pre = pre_of(m, keep)
                s_to.add(line('to', int(keep), cmol_ints(m)), 'err ' + type(e).__name__ if pre is None else
                         'ok ' + ' '.join(map(str, pre)), vtag, nt)
                if rdkit_accepts(m):
                    report(ctx, 'A', vtag, smi, [(raise_kind(m, e), f'to_rdkit_molecule raised {type(e).__name__}: {str(e)[:120]}')],
                           {'variant': vtag.split(':', 1)[1] if ':' in vtag else '', 'seed': ctx.seed})
                continue
            s_to.add(line('to', int(keep), cmol_ints(m)), 'ok ' + ' '.join(map(str, pre)), vtag, nt)
            s_tof.add(line('to', int(keep), cmol_ints(m)), outcome(lambda: rmol_ints(rd)), vtag, nt)
            ctx.dist('A:atoms<=%d' % (10 * (1 + len(m._atoms) // 10)))
            ctx.dist('A:stereo-labels=%d' % min(4, len(configuration(m))))
            try:
                bad = judge_A(m, keep)
            except Exception as e:
                ctx.dist('A:raises:' + type(e).__name__)
                bad = [('raises', f'from_rdkit_molecule(to_rdkit_molecule(m)) raised {type(e).__name__}: {str(e)[:120]}')]
            ctx.count(('A', vtag, smi), nt)
            report(ctx, 'A', vtag, smi, bad, {'variant': vtag.split(':', 1)[1] if ':' in vtag else '', 'seed': ctx.seed})
            # model round trip (RDKit as the identity) must return the same molecule, renumbered by position
            if len(m._atoms) <= 40 and unsupported_labels(m) == 0:
                s_rt.add(line('rt', int(keep), cmol_ints(m)), 'ok ' + ' '.join(map(str, expected_rt(m, keep))), vtag, nt)
        # ---- RDKit side ----
        p = Chem.SmilesParserParams()
        p.removeHs = False
        rd0 = Chem.MolFromSmiles(smi, p) if '|' not in smi else None
        if rd0 is None:
            ctx.dist('rdkit-rejects-or-cx')
        elif not rd_representable(rd0):
            ctx.dist('domain:rdkit-molecule-outside')
        else:
            for vt, rd in rd_inputs(ctx, smi, mol, rd0):
                rd = set_rd_coords(rng, rd)
                if rng.random() < 0.5:
                    for a in rd.GetAtoms():
                        a.SetAtomMapNum(rng.randint(0, 99))
                fbox = {}
                try:
                    back, pre, envr = real_from(rd, fbox)
                except Exception as e:
                    ctx.dist('B:from-raises:' + type(e).__name__)
                    s_from.add(line('from', rmol_ints(rd), nbrs_ints(rd)), 'err ' + type(e).__name__, f'{tag}:rd:{vt}')
                    if chython_accepts(smi):
                        report(ctx, 'B', f'{tag}:rd:{vt}', smi, [('raises', f'from_rdkit_molecule raised {type(e).__name__}: {str(e)[:120]}')],
                               {'rd_variant': vt, 'seed': ctx.seed})
                    continue
                nt = nontrivial(back)
                s_from.add(line('from', rmol_ints(rd), nbrs_ints(rd)), 'ok ' + ' '.join(map(str, pre)), f'{tag}:rd:{vt}', nt)
                add_final(ctx, s_ff, rd, back, fbox, f'{tag}:rd:{vt}')
                kind = 'B'
                try:
                    kind, bad = judge_B_any(rd)
                except Exception as e:
                    ctx.dist('B:raises:' + type(e).__name__)
                    bad = [('raises', f'to_rdkit_molecule(from_rdkit_molecule(r)) raised {type(e).__name__}: {str(e)[:120]}')]
                ctx.count((kind, tag, vt, smi), nt)
                ctx.dist(kind + ':judged')
                report(ctx, kind, f'{tag}:rd:{vt}', smi, bad, {'rd_variant': vt, 'seed': ctx.seed})
            x = judge_X(smi)
            if x is None:
                ctx.dist('X:readers-differ-or-outside')
            else:
                ctx.count(('X', smi))
                ctx.dist('X:judged')
                report(ctx, 'X', tag, smi, x)
    exhaustive(ctx, s_env, s_to, s_from, s_tof)
    s_conf = Stream(ctx, 'conformers')
    conformer_stream(ctx, s_conf)
    edge_from(ctx, s_edge)
    for s in (s_env, s_to, s_tof, s_from, s_ff, s_rt, s_edge, s_conf):
        s.run()
    if _state.get('unsupported-dropped'):
        ctx.notes.append(f"{len(_state['unsupported-dropped'])} molecules lost only labels RDKit cannot carry (allene, cumulated or "
                         f"hypervalent double bond): outside the domain, e.g. {_state['unsupported-dropped'][0]}")
    if _state.get('c01gap'):
        ctx.notes.append(f"{len(_state['c01gap'])} canonical-string differences with identical attributes/bonds/configuration under "
                         f"the position map (numbering dependence of the writer, C01 gap; not counted): e.g. {_state['c01gap'][0]}")


# ------------------------------------------------------------------------------------------------
# exhaustive finite domain: one centre / one double bond x every neighbour insertion order x every label
# ------------------------------------------------------------------------------------------------

HAL = ['F', 'Cl', 'Br', 'I']


def build(atoms, bonds, hcount=None):
    """molecule through the public API: `atoms` = [(number, symbol)] in insertion order, `bonds` = [(n, m, order)] in insertion order."""
    from chython import MoleculeContainer
    from chython.periodictable import Element
    m = MoleculeContainer()
    for n, sym in atoms:
        m.add_atom(Element.from_symbol(sym)(), n, _skip_calculation=True)
    for a, b, o in bonds:
        m.add_bond(a, b, o, _skip_calculation=True)
    m.fix_structure()
    return m


def tetra_templates(ctx):
    """(tag, molecule, SMILES spelling of the same configuration). Label `True` = `@` read in the order of
    `stereogenic_tetrahedrons[c]` with the hydrogen last — chython's documented convention, used here to *write the expected
    SMILES by hand*, independently of the translate table."""
    rng = ctx.rng
    out = []
    for kind in ('4heavy', 'implicitH', 'explicitH'):
        subs = HAL if kind == '4heavy' else HAL[:3] + (['H'] if kind == 'explicitH' else [])
        perms = list(itertools.permutations(range(len(subs))))
        for perm in perms:
            for atom_order in ('centre-first', 'centre-last', 'shuffled'):
                nums = rng.sample(range(1, 40), len(subs) + 1)
                c, nb = nums[0], nums[1:]
                atoms = [(c, 'C')] + [(nb[i], subs[i]) for i in range(len(subs))]
                if atom_order == 'centre-last':
                    atoms = atoms[1:] + atoms[:1]
                elif atom_order == 'shuffled':
                    rng.shuffle(atoms)
                bonds = [(c, nb[i], 1) if rng.random() < 0.5 else (nb[i], c, 1) for i in perm]
                for s in (True, False):
                    m = build(atoms, bonds)
                    if c not in m.stereogenic_tetrahedrons:
                        # a carbon with 3 or 4 distinct heavy neighbours must be listed (docstring of stereogenic_tetrahedrons)
                        ctx.broke('relational', 'template-centre-not-in-stereogenic_tetrahedrons', f'{kind} {atoms} {bonds}')
                        ctx.fail('C20/T/centre-not-stereogenic', f'template centre ({kind}) is not in stereogenic_tetrahedrons: its '
                                 'configuration cannot be transferred', {'judge': 'any', 'smiles': 'F[C@H](Cl)Br' if kind != '4heavy'
                                                                         else 'F[C@](Cl)(Br)I', 'seed': ctx.seed})
                        return out
                    order = m.stereogenic_tetrahedrons[c]
                    m._atoms[c]._stereo = s
                    sym = {n: ('[H]' if x == 'H' else x) for n, x in atoms}
                    heavy = [sym[x] for x in order]
                    mark = '@' if s else '@@'
                    if kind == '4heavy':
                        smi = f'{heavy[0]}[C{mark}]({heavy[1]})({heavy[2]}){heavy[3]}'
                    elif kind == 'implicitH':
                        smi = f'{heavy[0]}[C{mark}H]({heavy[1]}){heavy[2]}'     # H second == H last (even move)
                    else:
                        smi = f'{heavy[0]}[C{mark}]({heavy[1]})({heavy[2]})[H]'
                    out.append((f'tetra:{kind}:{"".join(map(str, perm))}:{atom_order}:{int(s)}', m, smi))
    return out


def tetra_spellings():
    """every SMILES spelling of one labelled centre: neighbour permutations x mark x centre first / not first x H kinds."""
    out = []
    for perm in itertools.permutations(HAL):
        for mark in ('@', '@@'):
            a, b, c, d = perm
            out.append(f'{a}[C{mark}]({b})({c}){d}')
            out.append(f'[C{mark}]({a})({b})({c}){d}')
    for perm in itertools.permutations(HAL[:3]):
        for mark in ('@', '@@'):
            a, b, c = perm
            out += [f'{a}[C{mark}H]({b}){c}', f'[C{mark}H]({a})({b}){c}']
            for hpos in range(4):   # explicit hydrogen atom at every position
                xs = [a, b, c]
                xs.insert(hpos, '[H]')
                out.append(f'{xs[0]}[C{mark}]({xs[1]})({xs[2]}){xs[3]}')
    return out


def dbond_templates(ctx):
    """(tag, molecule, expected SMILES): C=C / C=N with one or two substituents (heavy, implicit H, explicit H) at each end,
    every insertion order of the bonds, every label. Label `True` = first neighbours `(n0, n1)` cis."""
    rng = ctx.rng
    out = []
    ends = {'2heavy': ['F', 'Cl'], '1heavy': ['F'], 'heavy+H': ['F', 'H'], 'H+heavy': ['H', 'F']}
    ends2 = {'2heavy': ['Br', 'I'], '1heavy': ['Br'], 'heavy+H': ['Br', 'H'], 'H+heavy': ['H', 'Br']}
    for ka, sa in ends.items():
        for kb, sb in ends2.items():
            for second in ('C', 'N'):
                if second == 'N' and len(sb) == 2:
                    continue
                for trial in range(3):
                    nums = rng.sample(range(1, 40), 2 + len(sa) + len(sb))
                    a, b = nums[0], nums[1]
                    na, nb = nums[2:2 + len(sa)], nums[2 + len(sa):]
                    atoms = [(a, 'C'), (b, second)] + list(zip(na, sa)) + list(zip(nb, sb))
                    rng.shuffle(atoms)
                    bonds = [(a, b, 2)] + [(a, x, 1) for x in na] + [(b, x, 1) for x in nb]
                    rng.shuffle(bonds)
                    bonds = [(x, y, o) if rng.random() < 0.5 else (y, x, o) for x, y, o in bonds]
                    for s in (True, False):
                        m = build(atoms, bonds)
                        sc = m.stereogenic_cis_trans
                        if not sc:
                            continue
                        (p0, p1), (n0, n1, n2, n3) = next(iter(sc.items()))
                        m._bonds[p0][p1]._stereo = s
                        sym = {n: ('[H]' if x == 'H' else x) for n, x in atoms}
                        # explicit hydrogens are not in the environment: find them for the expected string
                        def other(p, first, q):
                            r = [x for x in m._bonds[p] if x not in (first, q)]
                            return sym[r[0]] if r else ''
                        o0, o1 = other(p0, n0, p1), other(p1, n1, p0)
                        left = f'{sym[n0]}/{sym[p0]}' + (f'({o0})' if o0 else '')
                        d = '\\' if s else '/'
                        right = f'{sym[p1]}' + (f'({o1})' if o1 else '') + f'{d}{sym[n1]}'
                        out.append((f'dbond:{ka}:{kb}:{second}:{trial}:{int(s)}', m, f'{left}={right}'))
    return out


def dbond_spellings():
    out = []
    for l in ('F/C(Cl)', 'F\\C(Cl)', 'Cl/C(F)', 'F/C', 'C(/F)', 'C(/F)(\\Cl)', '[H]/C(F)', 'F/C([H])'):
        for r in ('C(/Br)I', 'C(\\Br)I', 'C(I)/Br', 'C/Br', 'C\\Br', 'N/Br', 'N\\O', 'C(/Br)[H]', 'C([H])\\Br'):
            out.append(f'{l}={r}')
    return out


def exhaustive(ctx, s_env, s_to, s_from, s_tof=None):
    """the finite template domain through the real code (R) and the model (K). Complete in the thorough tier."""
    from rdkit import Chem
    from chython.utils.rdkit import to_rdkit_molecule
    tt = tetra_templates(ctx) + dbond_templates(ctx)
    sp = tetra_spellings() + dbond_spellings()
    if ctx.quick:
        tt = ctx.rng.sample(tt, min(len(tt), 160))
        sp = ctx.rng.sample(sp, min(len(sp), 80))
    p = Chem.SmilesParserParams()
    p.removeHs = False
    for tag, m, smi in tt:
        set_coords(ctx.rng, m)
        ctx.dist('template:' + ':'.join(tag.split(':')[:2]))
        s_env.add(line('env', wire.mol_to_ints(m)), outcome(lambda: env_ints(m)), tag)
        ref = Chem.MolFromSmiles(smi, p)
        try:
            rd, pre = real_to(m, True)
        except Exception as e:
            report(ctx, 'T', tag, smi, [('raises', f'to_rdkit_molecule raised {type(e).__name__}: {str(e)[:100]}')], {'template': tag})
            continue
        s_to.add(line('to', 1, cmol_ints(m)), 'ok ' + ' '.join(map(str, pre)), tag)
        if s_tof is not None:
            s_tof.add(line('to', 1, cmol_ints(m)), outcome(lambda: rmol_ints(rd)), tag)
        ctx.count(('T', tag))
        bad = []
        if ref is None:
            ctx.notes.append(f'template SMILES {smi} not read by RDKit')
        elif rdcan(rd) != rdcan(ref):
            bad.append(('to-vs-hand-written-smiles', f'to(template) {rdcan(rd)} != {rdcan(ref)} ({smi})'))
        try:
            bad += judge_A(m, True)
        except Exception as e:
            bad.append(('raises', f'{type(e).__name__}: {str(e)[:100]}'))
        report(ctx, 'T', tag, smi, bad, {'template': tag})
    for smi in sp:
        rd = Chem.MolFromSmiles(smi, p)
        if rd is None or not rd_in_domain(rd):
            ctx.dist('spelling:outside')
            continue
        ctx.dist('spelling:judged')
        try:
            back, pre, _ = real_from(rd)
            s_from.add(line('from', rmol_ints(rd), nbrs_ints(rd)), 'ok ' + ' '.join(map(str, pre)), 'spelling:' + smi)
        except Exception as e:
            report(ctx, 'S', 'spelling', smi, [('raises', f'from_rdkit_molecule raised {type(e).__name__}')])
            continue
        ctx.count(('S', smi))
        bad = []
        try:
            bad += judge_B(rd)
        except Exception as e:
            bad.append(('raises', f'{type(e).__name__}: {str(e)[:100]}'))
        x = judge_X(smi)
        if x:
            bad += x
        report(ctx, 'S', 'spelling', smi, bad)
    # tags on centres that are not stereogenic (unsanitised RDKit input keeps them): `from` must not carry them over
    for smi in NONSTEREO:
        bad = judge_N(smi)
        if bad is None:
            continue
        ctx.count(('N', smi))
        ctx.dist('nonstereogenic:judged')
        report(ctx, 'N', 'nonstereogenic', smi, bad)
    if not ctx.quick:
        ctx.exhaustive = True


def judge_N(smi):
    """an unsanitised RDKit molecule keeps chiral tags on centres that are not stereogenic; `from` must not carry them over."""
    from rdkit import Chem
    pr = Chem.SmilesParserParams()
    pr.removeHs = False
    pr.sanitize = False
    rd = Chem.MolFromSmiles(smi, pr)
    if rd is None:
        return None
    rd.UpdatePropertyCache(strict=False)
    try:
        back = real_from(rd)[0]
        ref = parse(smi)
        left = [n for n, a in back._atoms.items() if a._stereo is not None] + \
               [(n, m) for n, m, b in back.bonds() if b._stereo is not None]
        if left:
            return [('label-on-non-stereogenic-centre', f'from(unsanitised RDKit molecule) keeps labels on {left}')]
        if ref is not None and str(norm(back)) != str(norm(ref)):
            return [('from-vs-chython-reader', f'{norm(back)} != {norm(ref)}')]
    except Exception as e:
        return [('raises', f'{type(e).__name__}: {str(e)[:100]}')]
    return []


NONSTEREO = ['C[C@H](C)O', 'C[C@](C)(C)O', 'C[C@@H](C)C', 'F[C@](F)(Cl)Br', 'O[C@H]1CCCCC1', 'C[C@@](C)(O)C[C@@](C)(C)N', '[C@H](C)(C)C']
EDGE_RD = ['*C', '[99CH4]', '[Fe+5]', '[Fe-5]', 'C$C', 'C~C', '[NH3]->[Cu]', '[Cu]<-[NH3]', '[CH2]', '[CH]', '[C]', '[O]', 'C[S@](=O)CC',
           'C[P@](=O)(O)CC', 'C[N@+](CC)(CCC)CCCC', '[2H][C@H](F)Cl', '[H][C@H](F)Cl', 'C[Si@H](F)Cl', 'F[P@](Cl)(Br)(I)(C)C',
           'C[C@H](F)[O-]', 'C[C@@H]([CH2])F', 'C/C=C/C', 'C/C=C=C=C/C', 'CC=[C@]=CC', 'F/C=C/F', 'C/C=[N+](/C)[O-]', 'C/C=[O+]/C',
           'C/C=P/C', 'C/C=C/[Fe]', 'C[C@H](Cl)[Fe]', '[Fe]C(=C/C)/C', 'C1=C/CCCCCC/1', 'C1CC/C=C/CC1', '[H]/C(C)=C/C',
           '[2H]/C(C)=C/C', 'F[C@]1(Cl)CC1', 'C[C@@](F)(Cl)(Br)I', '[13C@H](C)(F)Cl', 'C[C@H](F)C#[Fe]', 'C:C', 'c1ccccc1', 'C[N]', '[NH]',
           'F/C=C/C=C/F', 'FC(Cl)=C(Br)I', 'C(/F)=C/[C@H](C)O', '[Li+].[Cl-]', '[Na]Cl', 'C[Zn]C', 'O=[Os](=O)(=O)=O']


def edge_from(ctx, stream):
    """RDKit molecules at and beyond the edge of the domain: every error branch of the model and every label that must be
    dropped (non-carbon centres, cumulenes, unsupported stereo kinds) is compared with the real code."""
    from rdkit import Chem
    from rdkit.Chem import BondStereo
    p = Chem.SmilesParserParams()
    p.removeHs = False
    p.sanitize = False
    mols = []
    for smi in EDGE_RD:
        for san in (True, False):
            rd = Chem.MolFromSmiles(smi, p)
            if rd is None:
                continue
            if san:
                try:
                    Chem.SanitizeMol(rd)
                    Chem.AssignStereochemistry(rd, cleanIt=True, force=True)
                except Exception:
                    continue
            else:
                rd.UpdatePropertyCache(strict=False)
            mols.append((f'edge:{smi}:{"sanitized" if san else "raw"}', rd))
    # stereo kinds the bridge does not read (STEREOCIS/STEREOTRANS/STEREOANY with stereo atoms set)
    for kind in ('STEREOCIS', 'STEREOTRANS', 'STEREOANY'):
        rd = Chem.RWMol(Chem.MolFromSmiles('FC=CCl'))
        b = rd.GetBondBetweenAtoms(1, 2)
        b.SetStereoAtoms(0, 3)
        b.SetStereo(getattr(BondStereo, kind))
        mols.append((f'edge:FC=CCl:{kind}', rd.GetMol()))
    for tag, rd in mols:
        def real():
            back, pre, _ = real_from(rd)
            return pre
        try:
            req = line('from', rmol_ints(rd), nbrs_ints(rd))
        except Exception as e:
            ctx.dist('edge:not-encodable:' + type(e).__name__)
            continue
        stream.add(req, outcome(real), tag)


# ------------------------------------------------------------------------------------------------
# conformers (`_conformers` <-> RDKit conformers): model stream `conformers` + own judges
# ------------------------------------------------------------------------------------------------

def rnd_p3(rng):
    return tuple(rng.randint(-160, 160) / Q for _ in range(3))


def rconfs_ints(rd):
    out = [rd.GetNumConformers()]
    for c in rd.GetConformers():
        ps = c.GetPositions()
        out += [int(c.Is3D()), len(ps)]
        for v in ps:
            out += [q16(float(x)) for x in v]
    return out


def confs_ints(confs):
    out = [len(confs)]
    for d in confs:
        out.append(len(d))
        for n, v in d.items():
            out += [n] + [q16(float(x)) for x in v]
    return out


def from_conf_ints(mol, had_conformer):
    out = [1] if had_conformer else [0]
    if had_conformer:
        for a in mol._atoms.values():
            out += [q16(float(a.x)), q16(float(a.y))]
    if hasattr(mol, '_conformers'):
        out += [1] + confs_ints(mol._conformers)
    else:
        out.append(0)
    return out


def make_conformers(rng, mol, kind):
    """`_conformers` for `mol`: full dicts in their own random key order (`ok`), or one of the malformed shapes."""
    nums = list(mol._atoms)
    k = rng.choice([1, 1, 2, 3])
    confs = []
    for _ in range(k):
        keys = nums[:]
        rng.shuffle(keys)
        confs.append({n: rnd_p3(rng) for n in keys})
    if kind == 'empty-list':
        return []
    d = confs[rng.randrange(k)]
    if kind == 'last-missing' and nums:
        del d[nums[-1]]
    elif kind == 'middle-missing' and len(nums) > 2:
        del d[nums[rng.randrange(1, len(nums) - 1)]]
    elif kind == 'first-missing' and len(nums) > 1:
        del d[nums[0]]
    elif kind == 'unknown-atom':
        extra = max(nums) + rng.randint(1, 5)
        items = list(d.items())
        items.insert(rng.randrange(len(items) + 1), (extra, rnd_p3(rng)))
        d.clear()
        d.update(items)
    elif kind == 'empty-dict':
        d.clear()
    return confs


def judge_conf_A(mol, confs):
    """chython -> RDKit -> chython for `_conformers` (full dicts): the RDKit molecule holds the 2-D conformer first and then one 3-D
    conformer per entry with every atom's position at the atom's index; the molecule coming back holds the same list re-keyed by
    position, and the same `xy`."""
    from chython.utils.rdkit import to_rdkit_molecule, from_rdkit_molecule
    bad = []
    m = mol.copy()
    if confs is not None:
        m._conformers = confs
    nums = list(m._atoms)
    rd = to_rdkit_molecule(m)
    want = [(False, [(a.x, a.y, 0.0) for a in m._atoms.values()])] + [(True, [tuple(d[n]) for n in nums]) for d in (confs or [])]
    got = [(c.Is3D(), [tuple(float(x) for x in v) for v in c.GetPositions()]) for c in rd.GetConformers()]
    if got != want:
        bad.append(('conformers-to-rdkit', f'RDKit conformers {got!r:.300} != expected {want!r:.300}'))
    back = from_rdkit_molecule(rd)
    wantb = [{i + 1: tuple(d[n]) for i, n in enumerate(nums)} for d in (confs or [])]
    gotb = [{n: tuple(float(x) for x in v) for n, v in d.items()} for d in getattr(back, '_conformers', [])]
    if gotb != wantb:
        bad.append(('conformers', f'_conformers after the round trip {gotb!r:.300} != {wantb!r:.300}'))
    if [(float(a.x), float(a.y)) for a in back._atoms.values()] != [(a.x, a.y) for a in m._atoms.values()]:
        bad.append(('coordinates', 'xy differ after the round trip of a molecule with conformers'))
    return bad


def add_rd_conformers(rng, rd, flags):
    from rdkit import Chem
    from rdkit.Chem import Conformer
    rd = Chem.Mol(rd)
    rd.RemoveAllConformers()
    for f in flags:
        c = Conformer(rd.GetNumAtoms())
        for i in range(rd.GetNumAtoms()):
            x, y, z = rnd_p3(rng)
            c.SetAtomPosition(i, (x, y, z if f else 0.0))
        c.Set3D(bool(f))
        rd.AddConformer(c, assignId=True)
    return rd


def judge_conf_B(rd):
    """RDKit -> chython -> RDKit for conformers: `xy` = x, y of the first conformer whatever its flag; `_conformers` = the 3-D
    conformers in order keyed 1..N (attribute absent when there is none); on the way back the 2-D conformer of `xy` comes first,
    then the 3-D ones unchanged."""
    from chython.utils.rdkit import to_rdkit_molecule, from_rdkit_molecule
    bad = []
    src = [(c.Is3D(), [tuple(float(x) for x in v) for v in c.GetPositions()]) for c in rd.GetConformers()]
    mol = from_rdkit_molecule(rd)
    want3 = [{i + 1: v for i, v in enumerate(ps)} for f, ps in src if f]
    got3 = [{n: tuple(float(x) for x in v) for n, v in d.items()} for d in getattr(mol, '_conformers', [])]
    if got3 != want3 or (not want3 and hasattr(mol, '_conformers')):
        bad.append(('conformers-from-rdkit', f'_conformers {got3!r:.300} != the 3-D conformers of the RDKit molecule {want3!r:.300}'))
    wxy = [(v[0], v[1]) for v in src[0][1]] if src else [(0.0, 0.0)] * rd.GetNumAtoms()
    if [(float(a.x), float(a.y)) for a in mol._atoms.values()] != wxy:
        bad.append(('coordinates', 'xy != x, y of the first conformer'))
    back = to_rdkit_molecule(mol, keep_mapping=False)
    got = [(c.Is3D(), [tuple(float(x) for x in v) for v in c.GetPositions()]) for c in back.GetConformers()]
    want = [(False, [(x, y, 0.0) for x, y in wxy])] + [(True, ps) for f, ps in src if f]
    if got != want:
        bad.append(('conformers', f'conformers after the round trip {got!r:.300} != {want!r:.300}'))
    return bad


CONF_KINDS = ['ok', 'ok', 'ok', 'none', 'empty-list', 'last-missing', 'middle-missing', 'first-missing', 'unknown-atom', 'empty-dict']


def conformer_stream(ctx, stream):
    from rdkit import Chem
    rng = ctx.rng
    pool = [s for s in STEREO + OTHER + list(molgen.HANDMADE) if '|' not in s]
    pool = rng.sample(pool, min(len(pool), 40 if ctx.quick else 160)) + ['C', '[Na+].[Cl-]', 'CCO']
    for smi in pool:
        mol = parse(smi)
        if mol is None or any(a._implicit_hydrogens is None for a in mol._atoms.values()):
            continue
        try:
            mol = molgen.renumber(rng, mol)[0]          # atom numbers other than 1..N, shuffled insertion order
        except Exception:
            pass
        set_coords(rng, mol)
        try:
            from chython.utils.rdkit import to_rdkit_molecule
            to_rdkit_molecule(mol)
        except Exception:
            ctx.dist('conformers:molecule-does-not-convert')     # judged by A (raises / recorded finding), not a conformer matter
            continue
        for kind in rng.sample(CONF_KINDS, 4 if ctx.quick else len(CONF_KINDS)):
            confs = None if kind == 'none' else make_conformers(rng, mol, kind)
            m = mol.copy()
            if confs is not None:
                m._conformers = confs
            ids = list(m._atoms)
            req = line('toc', len(ids), ids, [v for a in m._atoms.values() for v in (q16(a.x), q16(a.y))],
                       [0] if confs is None else [1] + confs_ints(confs))

            def real():
                from chython.utils.rdkit import to_rdkit_molecule
                return rconfs_ints(to_rdkit_molecule(m))
            got = outcome(real)
            stream.add(req, got, f'conf-to:{kind}:{smi}')
            ctx.dist('conformers-to:' + kind)
            if kind in ('ok', 'none', 'empty-list'):
                try:
                    bad = judge_conf_A(mol, confs)
                except Exception as e:
                    bad = [('raises', f'conversion of a molecule with conformers raised {type(e).__name__}: {str(e)[:100]}')]
                ctx.count(('A-conf', smi, kind))
                report(ctx, 'A', f'conformers:{kind}', smi, bad, {'judge': 'conf', 'seed': ctx.seed})
        rd0 = Chem.MolFromSmiles(smi)
        if rd0 is None or not rd_representable(rd0):
            continue
        for flags in rng.sample([(), (0,), (1,), (0, 1), (1, 0), (1, 1), (0, 0, 1), (1, 0, 1), (0, 1, 1)], 3 if ctx.quick else 9):
            rd = add_rd_conformers(rng, rd0, flags)
            req = line('fromc', rd.GetNumAtoms(), rconfs_ints(rd))

            def real():
                from chython.utils.rdkit import from_rdkit_molecule
                return from_conf_ints(from_rdkit_molecule(rd), bool(flags))
            stream.add(req, outcome(real), f'conf-from:{flags}:{smi}')
            ctx.dist('conformers-from:%d' % len(flags))
            try:
                bad = judge_conf_B(rd)
            except Exception as e:
                bad = [('raises', f'conversion of an RDKit molecule with conformers raised {type(e).__name__}: {str(e)[:100]}')]
            ctx.count(('B-conf', smi, flags))
            report(ctx, 'B', f'conformers:{flags}', smi, bad, {'judge': 'conf', 'seed': ctx.seed})


def pre_of(m, keep):
    """the RWMol before SanitizeMol even when sanitisation then fails."""
    from chython.utils.rdkit import to_rdkit_molecule
    with capture_to() as box:
        try:
            to_rdkit_molecule(m, keep_mapping=keep)
        except Exception:
            pass
    return box.get('pre')


def expected_rt(m, keep):
    """what from(to(m)) must be when RDKit changes nothing: the same molecule renumbered by position, bond dict order
    rebuilt in `bonds()` order, labels re-expressed for that order (own parity), parsed_mapping = old number."""
    nums = list(m._atoms)
    pos = {n: i + 1 for i, n in enumerate(nums)}
    from chython import MoleculeContainer
    from chython.containers.bonds import Bond
    c = MoleculeContainer()
    for n, a in m._atoms.items():
        b = type(a)(a._isotope, charge=a._charge, is_radical=a._is_radical, implicit_hydrogens=a._implicit_hydrogens,
                    parsed_mapping=n if keep else 0, x=a.x, y=a.y)
        c._atoms[pos[n]] = b
        c._bonds[pos[n]] = {}
    inorg = set(tables()['inorganic'])
    for n, k, b in m.bonds():
        if m._atoms[n].atomic_symbol not in inorg:
            n, k = k, n
        nb = Bond(int(b))
        c._bonds[pos[n]][pos[k]] = nb
        c._bonds[pos[k]][pos[n]] = nb
    # labels: same configuration, expressed in the new dict order
    st_old, st_new = m.stereogenic_tetrahedrons, c.stereogenic_tetrahedrons
    for n, a in m._atoms.items():
        if a._stereo is not None and n in st_old and pos[n] in st_new:
            c._atoms[pos[n]]._stereo = a._stereo ^ odd([pos[x] for x in st_old[n]], list(st_new[pos[n]]))
    ce = m._stereo_cis_trans_centers
    sc_new = c.stereogenic_cis_trans
    for (a, b), (n0, n1, n2, n3) in m.stereogenic_cis_trans.items():
        if set(ce[a]) != {a, b}:
            continue
        s = m._bonds[a][b]._stereo
        if s is None:
            continue
        if (pos[a], pos[b]) in sc_new:
            e = sc_new[(pos[a], pos[b])]
            fa, fb = e[0], e[1]
        elif (pos[b], pos[a]) in sc_new:
            e = sc_new[(pos[b], pos[a])]
            fa, fb = e[1], e[0]
        else:
            continue
        c._bonds[pos[a]][pos[b]]._stereo = s ^ (pos[n0] != fa) ^ (pos[n1] != fb)
    return cmol_ints(c)


# ------------------------------------------------------------------------------------------------
# failing-input search and probe
# ------------------------------------------------------------------------------------------------

def search(ctx):
    """property-level judges on the real code around whatever broke (never consults the Lean model)."""
    from rdkit import Chem, RDLogger
    RDLogger.DisableLog('rdApp.*')
    rng = ctx.rng
    budget = 60 if ctx.quick else 600
    t0 = ctx.elapsed()
    pool = [(t, s) for t, s in source_smiles(ctx)]
    rng.shuffle(pool)
    # start at the disagreeing cases
    first = [x for x in _state.get('disagreements', [])]
    pool = [(t, s) for t, s in pool if any(t == str(f).split(':')[0] for f in first)] + pool
    for tag, smi in pool:
        if ctx.elapsed() - t0 > budget or ctx.failures:
            break
        mol = parse(smi)
        if mol is None:
            continue
        for vtag, m in variants(ctx, tag, mol):
            if any(a._implicit_hydrogens is None for a in m._atoms.values()):
                continue
            for keep in (True, False):
                try:
                    bad = judge_A(m, keep)
                except Exception as e:
                    bad = [(raise_kind(m, e), f'raised {type(e).__name__}')] if rdkit_accepts(m) else []
                report(ctx, 'A', vtag, smi, bad, {'seed': ctx.seed})
        if '|' in smi:
            continue
        p = Chem.SmilesParserParams()
        p.removeHs = False
        rd0 = Chem.MolFromSmiles(smi, p)
        if rd0 is None or not rd_representable(rd0):
            continue
        for vt, rd in rd_inputs(ctx, smi, mol, rd0):
            try:
                kind, bad = judge_B_any(set_rd_coords(rng, rd))
            except Exception:
                continue
            report(ctx, kind, f'{tag}:rd:{vt}', smi, bad, {'seed': ctx.seed})
        x = judge_X(smi)
        if x:
            report(ctx, 'X', tag, smi, x)


def probe(inp):
    """re-execute ONE input on the real code: all three judges on the SMILES and its variants (seeded)."""
    import random
    from rdkit import Chem, RDLogger
    RDLogger.DisableLog('rdApp.*')
    smi = inp['smiles']

    class C:   # minimal ctx for the generators
        quick = False
        rng = random.Random(inp.get('seed', 0))

        @staticmethod
        def dist(*a, **k):
            pass
    found = []
    mol = parse(smi)
    if inp.get('judge') == 'N':
        bad = judge_N(smi) or []
        return bool(bad), (f'{bad[0]}' if bad else f'no label is left on a non-stereogenic centre of {smi}')
    if inp.get('judge') == 'conf':
        rng = random.Random(inp.get('seed', 0))
        found = []
        if mol is not None and all(a._implicit_hydrogens is not None for a in mol._atoms.values()):
            for kind in ('ok', 'ok', 'none', 'empty-list'):
                try:
                    found += judge_conf_A(mol, None if kind == 'none' else make_conformers(rng, mol, kind))
                except Exception as e:
                    found.append(('raises', type(e).__name__))
        rd0 = Chem.MolFromSmiles(smi) if '|' not in smi else None
        if rd0 is not None and rd_representable(rd0):
            for flags in ((), (0,), (1,), (0, 1), (1, 0), (1, 1), (0, 1, 1)):
                try:
                    found += judge_conf_B(add_rd_conformers(rng, rd0, flags))
                except Exception as e:
                    found.append(('raises', type(e).__name__))
        return bool(found), (f'{len(found)} failures; first: {found[0]}' if found else f'conformers survive both round trips for {smi}')
    if inp.get('judge') not in ('A', 'B', 'M', 'X'):
        inp = dict(inp, judge='any')
    if mol is not None and inp.get('judge', 'A') in ('A', 'any'):
        for vtag, m in variants(C, 'probe', mol):
            if any(a._implicit_hydrogens is None for a in m._atoms.values()):
                continue
            for keep in (True, False):
                try:
                    found += [(vtag, w, d) for w, d in judge_A(m, keep)]
                except Exception as e:
                    found.append((vtag, raise_kind(m, e), type(e).__name__))
    if inp.get('judge', 'B') in ('B', 'M', 'any') and '|' not in smi:
        p = Chem.SmilesParserParams()
        p.removeHs = False
        rd0 = Chem.MolFromSmiles(smi, p)
        if rd0 is not None and rd_representable(rd0):
            for vt, rd in rd_inputs(C, smi, mol, rd0):
                try:
                    found += [(vt, w, d) for w, d in judge_B_any(set_rd_coords(C.rng, rd))[1]]
                except Exception as e:
                    found.append((vt, 'raises', type(e).__name__))
    if inp.get('judge', 'X') in ('X', 'any'):
        x = judge_X(smi)
        if x:
            found += [('X', w, d) for w, d in x]
    only = inp.get('only')
    if only:
        found = [f for f in found if f[1] == only]
    if found:
        return True, f'{len(found)} failures; first: {found[0]}'
    return False, f'all round-trip judges hold for {smi}' + (f' (looking for {only})' if only else '')
