"""Translator for C08: regenerates lean/ChythonModel/Gen/QueryTables.lean from /repo on every run.

What is extracted (and how):
 * element flags  — every `Element` subclass: symbol, atomic number, `is_forming_single_bonds` (property body evaluated
   with self=None), `issubclass(cls, GroupXVIII)`;   `QueryElement` subclasses: symbol (`__name__[5:]`) and atomic number
   in `__subclasses__()` order (the order `from_symbol` / `from_atomic_number` scan).
 * tokenizer literals — `charge_dict`, `replace_dict`, `not_dict` (the live objects of chython.files.daylight.tokenize);
   the primitive-letter tuple of `_query_parse` and the character classes of `_tokenize` (AST of the source text);
   the four regex sources (compared with the patterns the hand-written Lean scanners implement: a change is a translator error).
 * accepted domains of the query setters — probed on the live classes over a window of ints
   (`neighbors/heteroatoms/implicit_hydrogens`, `hybridization`, `ring_sizes`, `charge`, bond orders); the shape must be an
   interval (ring sizes: {0} ∪ [min, ∞) as int, [min, ∞) inside a tuple) or the translator raises.
Unknown shapes raise (never guessed).
"""
import ast
import inspect

from ..core import LEAN, REPO, write_if_changed

REGEXES = {'iso_re': r'^[0-9]+', 'chg_re': r'[+-][1-4+-]?', 'mpp_re': r':[1-9][0-9]*$', 'str_re': r'@[@?]?'}
CX_RADICALS = r'\^[1-7]:[0-9]+(?:,[0-9]+)*'


class TranslatorError(Exception):
    pass


def lean_str(s):
    out = ['"']
    for ch in s:
        if ch == '"':
            out.append('\\"')
        elif ch == '\\':
            out.append('\\\\')
        elif 32 <= ord(ch) < 127:
            out.append(ch)
        else:
            raise TranslatorError(f'unexpected character {ch!r} in literal')
    out.append('"')
    return ''.join(out)


def lean_char(c):
    if c == "'":
        return "'\\''"
    if c == '\\':
        return "'\\\\'"
    if not (32 <= ord(c) < 127):
        raise TranslatorError(f'unexpected character {c!r}')
    return f"'{c}'"


def lean_chars(s):
    return '[' + ', '.join(lean_char(c) for c in s) + ']'


def lean_int(i):
    return f'({i})' if i < 0 else str(i)


def lean_bool(b):
    return 'true' if b else 'false'


def interval(accepted, what):
    acc = sorted(accepted)
    if not acc or acc != list(range(acc[0], acc[-1] + 1)):
        raise TranslatorError(f'{what}: accepted set is not an interval: {acc}')
    return acc[0], acc[-1]


def probe_setters():
    from chython.periodictable import AnyElement
    from chython.containers.bonds import QueryBond, Bond
    win = range(-6, 41)
    res = {}

    def accepted(make):
        ok = set()
        for v in win:
            try:
                make(v)
                ok.add(v)
            except (ValueError, TypeError):
                pass
        return ok

    for name in ('neighbors', 'heteroatoms', 'implicit_hydrogens'):
        as_int = accepted(lambda v: AnyElement(**{name: v}))
        as_tup = accepted(lambda v: AnyElement(**{name: (v,)}))
        if as_int != as_tup:
            raise TranslatorError(f'{name}: int and tuple domains differ')
        res[name] = interval(as_int, name)
    if not (res['neighbors'] == res['heteroatoms'] == res['implicit_hydrogens']):
        raise TranslatorError('the three _validate users no longer share a range')
    hi = accepted(lambda v: AnyElement(hybridization=v))
    if hi != accepted(lambda v: AnyElement(hybridization=(v,))):
        raise TranslatorError('hybridization: int and tuple domains differ')
    res['hybridization'] = interval(hi, 'hybridization')
    res['charge'] = interval(accepted(lambda v: AnyElement(charge=v)), 'charge')
    ri = accepted(lambda v: AnyElement(ring_sizes=v))
    rt = accepted(lambda v: AnyElement(ring_sizes=(v,)))
    if not rt or max(rt) != max(win) or sorted(rt) != list(range(min(rt), max(win) + 1)):
        raise TranslatorError(f'ring_sizes tuple domain is not [min, inf): {sorted(rt)}')
    if ri != rt | {0}:
        raise TranslatorError(f'ring_sizes int domain is not {{0}} ∪ tuple domain: {sorted(ri)}')
    res['ring_min'] = min(rt)
    # uniqueness / sorting behaviour of the tuple setters (shape the model hard-codes)
    for name in ('neighbors', 'heteroatoms', 'implicit_hydrogens', 'hybridization'):
        a = AnyElement(**{name: [3, 1]})
        if getattr(a, name) != (1, 3):
            raise TranslatorError(f'{name}: tuple setter no longer sorts')
        try:
            AnyElement(**{name: [1, 1]})
            raise TranslatorError(f'{name}: duplicates accepted')
        except ValueError:
            pass
    if AnyElement(ring_sizes=[6, 5]).ring_sizes != (5, 6):
        raise TranslatorError('ring_sizes: tuple setter no longer sorts')
    qb = sorted(accepted(lambda v: QueryBond(v)))
    if qb != sorted(accepted(lambda v: QueryBond((v,)))) or qb != sorted(accepted(lambda v: Bond(v))):
        raise TranslatorError('bond order domains differ between Bond / QueryBond(int) / QueryBond(tuple)')
    res['bond_orders'] = qb
    if QueryBond([2, 1, 2]).order != (1, 2):
        raise TranslatorError('QueryBond no longer sorts/dedups its order list')
    return res


NOTES = []


def tokenizer_literals():
    """literal tables of tokenize.py. Only *data* is extracted; the spelling of the code around it (regex text, the way the
    primitive letters are tested, extra `s in '…'` tests) is not required to stay the same: a different spelling is recorded as a
    note and the behaviour is decided by the correspondence streams."""
    from chython.files.daylight import tokenize as tk
    del NOTES[:]
    src = (REPO / 'chython' / 'files' / 'daylight' / 'tokenize.py').read_text()
    tree = ast.parse(src)
    funcs = {n.name: n for n in tree.body if isinstance(n, ast.FunctionDef)}
    for name, pat in REGEXES.items():
        got = getattr(getattr(tk, name, None), 'pattern', None)
        if got != pat:
            NOTES.append(f'{name} is spelled {got!r} (the hand-written scanner implements {pat!r}); behaviour is checked by the streams')
    # primitive letters: the tuple of 1-char constants on the right of a `not in` in _query_parse; else probed behaviourally
    prims = None
    if '_query_parse' in funcs:
        for node in ast.walk(funcs['_query_parse']):
            if isinstance(node, ast.Compare) and isinstance(node.ops[0], ast.NotIn) and isinstance(node.comparators[0], (ast.Tuple, ast.List, ast.Set)):
                vals = [e.value for e in node.comparators[0].elts if isinstance(e, ast.Constant)]
                if vals and all(isinstance(v, str) and len(v) == 1 for v in vals):
                    prims = vals
    if prims is None:
        import string
        prims = []
        for c in string.ascii_letters:
            try:
                out = tk._query_parse(f'C;{c}3')[1]
                if len(out) > 1:
                    prims.append(c)
            except Exception:
                pass
        NOTES.append(f'primitive letters probed behaviourally: {prims}')
        if not prims:
            raise TranslatorError('no numeric primitive letter is accepted by _query_parse')
    bond_chars = ''.join(tk.replace_dict)
    classes = [bond_chars, '\\/', 'NOPSFI', 'cnopsb', 'CB']
    if '_tokenize' in funcs:
        seen = []
        for node in ast.walk(funcs['_tokenize']):
            if isinstance(node, ast.Compare) and isinstance(node.ops[0], ast.In) and isinstance(node.left, ast.Name) \
                    and node.left.id == 's' and isinstance(node.comparators[0], ast.Constant) and isinstance(node.comparators[0].value, str):
                seen.append(node.comparators[0].value)
        hit = [c for c in seen if '=' in c and '#' in c]
        if len(hit) == 1:
            if set(hit[0]) != set(bond_chars):
                raise TranslatorError(f'bond characters of _tokenize {hit[0]!r} differ from the keys of replace_dict {bond_chars!r}')
        else:
            NOTES.append('bond character class of _tokenize not found as a literal; taken from replace_dict')
    try:
        import importlib
        sm = importlib.import_module('chython.files.daylight.smarts')
        if sm.cx_radicals.pattern != CX_RADICALS:
            NOTES.append(f'cx_radicals is spelled {sm.cx_radicals.pattern!r}')
    except Exception as e:
        NOTES.append(f'cx_radicals not inspected: {type(e).__name__}')
    # order-free data is emitted in a canonical order so that reordering a literal in the source changes nothing
    replace = dict(sorted(tk.replace_dict.items(), key=lambda kv: kv[1]))
    notd = {k: sorted(v) for k, v in sorted(tk.not_dict.items(), key=lambda kv: replace.get(kv[0], 99))}
    classes[0] = ''.join(replace)
    return dict(charge=dict(tk.charge_dict), replace=replace, notd=notd, prims=sorted(prims), classes=classes)


def element_rows():
    from chython.periodictable import Element, QueryElement
    from chython.periodictable.base.groups import GroupXVIII
    rows = []
    for c in Element.__subclasses__():
        rows.append((c.__name__, c.atomic_number.fget(None), bool(c.is_forming_single_bonds.fget(None)),
                     issubclass(c, GroupXVIII)))
    qrows = []
    for c in QueryElement.__subclasses__():
        if not c.__name__.startswith('Query'):
            raise TranslatorError(f'QueryElement subclass with unexpected name {c.__name__}')
        z = c.atomic_number
        qrows.append((c.__name__[5:], z if isinstance(z, int) else z.fget(None)))
    return rows, qrows


def generate():
    rows, qrows = element_rows()
    tl = tokenizer_literals()
    ps = probe_setters()
    L = ['-- GENERATED by harness/gen/gen_query.py from /repo (periodictable, tokenize.py, query setters). Do not edit.',
         'namespace ChythonModel.Gen.Query', '',
         '/-- `Element.__subclasses__()` order: symbol, atomic number, `is_forming_single_bonds`, `isinstance(·, GroupXVIII)` -/',
         'def elemFlags : List (List Char × Nat × Bool × Bool) := [']
    L.append(',\n'.join(f'  ({lean_chars(s)}, {z}, {lean_bool(a)}, {lean_bool(b)})' for s, z, a, b in rows) + ']')
    L += ['', '/-- `QueryElement.__subclasses__()` order: symbol (`__name__[5:]`), atomic number -/',
          'def querySyms : List (List Char × Nat) := [']
    L.append(',\n'.join(f'  ({lean_chars(s)}, {z})' for s, z in qrows) + ']')
    L += ['', '/-- `tokenize.charge_dict` (dict order) -/',
          'def chargeDict : List (List Char × Int) := [' + ', '.join(f'({lean_chars(k)}, {lean_int(v)})' for k, v in tl['charge'].items()) + ']',
          '/-- `tokenize.replace_dict` -/',
          'def replaceDict : List (Char × Nat) := [' + ', '.join(f'({lean_char(k)}, {v})' for k, v in tl['replace'].items()) + ']',
          '/-- `tokenize.not_dict` -/',
          'def notDict : List (Char × List Nat) := [' + ', '.join(f'({lean_char(k)}, {v})' for k, v in tl['notd'].items()) + ']',
          '/-- the primitive letters `_query_parse` accepts in front of a number -/',
          'def primLetters : List Char := [' + ', '.join(lean_char(c) for c in tl['prims']) + ']',
          '/-- character classes of `_tokenize` in source order: bonds, up/down, organic, aromatic, two-letter starters -/',
          'def tokClasses : List (List Char) := [' + ', '.join(lean_chars(c) for c in tl['classes']) + ']',
          '', '/-- accepted int range of `_validate` (neighbors, heteroatoms, implicit hydrogens), probed on the live setters -/',
          f'def countLo : Nat := {ps["neighbors"][0]}', f'def countHi : Nat := {ps["neighbors"][1]}',
          f'def hybLo : Nat := {ps["hybridization"][0]}', f'def hybHi : Nat := {ps["hybridization"][1]}',
          f'def chargeLo : Int := {lean_int(ps["charge"][0])}', f'def chargeHi : Int := {lean_int(ps["charge"][1])}',
          '/-- ring sizes: ints `0` or `≥ ringMin`; inside a tuple only `≥ ringMin` -/',
          f'def ringMin : Nat := {ps["ring_min"]}',
          f'def bondOrders : List Nat := {ps["bond_orders"]}',
          '', 'end ChythonModel.Gen.Query', '']
    if ps['neighbors'][0] < 0 or ps['hybridization'][0] < 0:
        raise TranslatorError('negative lower bound')
    path = LEAN / 'ChythonModel' / 'Gen' / 'QueryTables.lean'
    write_if_changed(path, '\n'.join(L))
    return path
