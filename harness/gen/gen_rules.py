"""Translator for C14: the standardisation rule tables of /repo -> lean/ChythonModel/Gen/RuleTables.lean.

Read from the *live lazy tables* of /repo's working tree on every run (importing the real modules):

 * `chython.algorithms.standardize._groups.single_rules`, `double_rules`
 * `chython.algorithms.standardize._metal_organics.rules`
        each entry `(pattern, atom_fix, bonds_fix, any_atoms, is_tautomer)`
 * `chython.algorithms.standardize._charged.fixed_rules`, `morgan_rules`     entries `(pattern, fix)`
 * `chython.algorithms.tautomers._acid.stripped_rules`, `_base.stripped_rules`   (patterns used by `neutralize`)

For every pattern: the query atoms in `_atoms` dict order (class: QueryElement / AnyElement / ListElement / AnyMetal; charge,
radical, isotope, D = neighbors, z = hybridization, r = ring_sizes, h = implicit_hydrogens, x = heteroatoms, stereo, masked)
and `_bonds` in dict order (order tuple, in_ring, stereo); `atom_fix` in dict order (the order the loop applies — and aborts —
in), `bonds_fix`, `any_atoms`, `is_tautomer`.  Anything of an unexpected shape is a hard translator error (never guessed).
"""
from ..core import LEAN, write_if_changed


class TranslatorError(Exception):
    pass


def _i(v):
    if type(v) is not int:
        raise TranslatorError(f'int expected, got {v!r}')
    return f'({v})' if v < 0 else str(v)


def _nats(t):
    if not isinstance(t, tuple) or not all(type(x) is int and x >= 0 for x in t):
        raise TranslatorError(f'tuple of non-negative ints expected, got {t!r}')
    return '[' + ', '.join(map(str, t)) + ']'


def _ob(v):
    if v is None:
        return 'none'
    if type(v) is not bool:
        raise TranslatorError(f'bool or None expected, got {v!r}')
    return '(some true)' if v else '(some false)'


def _b(v):
    if type(v) is not bool:
        raise TranslatorError(f'bool expected, got {v!r}')
    return 'true' if v else 'false'


def atom_record(a):
    """python-side canonical description of one query atom (also used by the harness)."""
    from chython.periodictable import AnyElement, AnyMetal, ListElement, QueryElement
    if isinstance(a, AnyMetal):
        return {'kind': 'metal', 'charge': 0, 'radical': False, 'neighbors': tuple(a.neighbors),
                'hybridization': tuple(a.hybridization), 'ring_sizes': (), 'implicit_hydrogens': (), 'heteroatoms': (),
                'stereo': None, 'masked': bool(a.masked)}
    if isinstance(a, AnyElement):
        kind = 'any'
    elif isinstance(a, ListElement):
        kind = ('list', tuple(a.atomic_numbers))
    elif isinstance(a, QueryElement):
        iso = a.isotope
        if iso is not None and type(iso) is not int:
            raise TranslatorError(f'isotope {iso!r}')
        kind = ('element', a.atomic_number, iso)
    else:
        raise TranslatorError(f'unknown query atom class {type(a).__name__}')
    return {'kind': kind, 'charge': a.charge, 'radical': a.is_radical, 'neighbors': tuple(a.neighbors),
            'hybridization': tuple(a.hybridization), 'ring_sizes': tuple(a.ring_sizes),
            'implicit_hydrogens': tuple(a.implicit_hydrogens), 'heteroatoms': tuple(a.heteroatoms),
            'stereo': a.stereo, 'masked': bool(a.masked)}


def lean_atom(r):
    k = r['kind']
    if k == 'metal':
        kind = '.metal'
    elif k == 'any':
        kind = '.any'
    elif k[0] == 'list':
        kind = f'.list {_nats(k[1])}'
    else:
        kind = f'.element {k[1]} ' + ('none' if k[2] is None else f'(some {k[2]})')
    return ('{ kind := ' + kind + f', charge := {_i(r["charge"])}, radical := {_b(r["radical"])}, neighbors := {_nats(r["neighbors"])}, '
            f'hybridization := {_nats(r["hybridization"])}, ringSizes := {_nats(r["ring_sizes"])}, '
            f'implH := {_nats(r["implicit_hydrogens"])}, heteroatoms := {_nats(r["heteroatoms"])}, '
            f'stereo := {_ob(r["stereo"])}, masked := {_b(r["masked"])} }}')


def pattern_record(q):
    from chython.containers import QueryContainer
    from chython.containers.bonds import QueryBond
    if not isinstance(q, QueryContainer):
        raise TranslatorError(f'pattern is {type(q).__name__}, QueryContainer expected')
    atoms = [(n, atom_record(a)) for n, a in q._atoms.items()]
    adj = []
    for n, ms in q._bonds.items():
        row = []
        for m, b in ms.items():
            if not isinstance(b, QueryBond):
                raise TranslatorError(f'bond {n}-{m} is {type(b).__name__}')
            row.append((m, tuple(b.order), b.in_ring, b.stereo))
        adj.append((n, row))
    if [n for n, _ in adj] != [n for n, _ in atoms]:
        raise TranslatorError('pattern _bonds keys differ from _atoms keys')
    return {'smarts': str(q), 'atoms': atoms, 'adj': adj}


def lean_pattern(p, indent='    '):
    atoms = (',\n' + indent + '  ').join(f'({n}, {lean_atom(r)})' for n, r in p['atoms'])
    rows = []
    for n, row in p['adj']:
        bs = ', '.join(f'({m}, {{ orders := {_nats(o)}, inRing := {_ob(ir)}, stereo := {_ob(st)} }})' for m, o, ir, st in row)
        rows.append(f'({n}, [{bs}])')
    adj = (',\n' + indent + '  ').join(rows)
    return f'atoms := [\n{indent}  {atoms}],\n{indent}adj := [\n{indent}  {adj}]'


def std_rule_record(entry):
    if not (isinstance(entry, tuple) and len(entry) == 5):
        raise TranslatorError(f'rule entry of unexpected shape: {entry!r}')
    q, atom_fix, bonds_fix, any_atoms, is_tautomer = entry
    p = pattern_record(q)
    ids = {n for n, _ in p['atoms']}
    if not isinstance(atom_fix, dict):
        raise TranslatorError('atom_fix is not a dict')
    af = []
    for n, v in atom_fix.items():
        if not (isinstance(v, tuple) and len(v) == 2 and type(v[0]) is int and (v[1] is None or type(v[1]) is bool)):
            raise TranslatorError(f'atom_fix value {v!r}')
        if n not in ids:
            raise TranslatorError(f'atom_fix names atom {n} that is not in the pattern {p["smarts"]}')
        af.append((n, v[0], v[1]))
    bf = []
    for t in bonds_fix:
        if not (isinstance(t, tuple) and len(t) == 3 and all(type(x) is int for x in t)):
            raise TranslatorError(f'bonds_fix entry {t!r}')
        if t[0] not in ids or t[1] not in ids:
            raise TranslatorError(f'bonds_fix names an atom that is not in the pattern {p["smarts"]}')
        bf.append(t)
    if not all(type(n) is int for n in any_atoms):
        raise TranslatorError('any_atoms')
    p.update(atom_fix=af, bonds_fix=bf, any_atoms=list(any_atoms), is_tautomer=bool(is_tautomer))
    return p


def tables():
    from chython.algorithms.standardize._groups import single_rules, double_rules
    from chython.algorithms.standardize._metal_organics import rules as metal_rules
    from chython.algorithms.standardize._charged import fixed_rules, morgan_rules
    from chython.algorithms.tautomers._acid import stripped_rules as acid_stripped
    from chython.algorithms.tautomers._base import stripped_rules as base_stripped
    std = {'single': [std_rule_record(e) for e in single_rules],
           'double': [std_rule_record(e) for e in double_rules],
           'metal': [std_rule_record(e) for e in metal_rules]}
    chg = {}
    for name, tab in (('fixed', fixed_rules), ('morgan', morgan_rules)):
        rows = []
        for e in tab:
            if not (isinstance(e, tuple) and len(e) == 2 and type(e[1]) is bool):
                raise TranslatorError(f'{name} charge rule of unexpected shape')
            p = pattern_record(e[0])
            p['fix'] = e[1]
            rows.append(p)
        chg[name] = rows
    pats = {'acidStripped': [pattern_record(q) for q in acid_stripped],
            'baseStripped': [pattern_record(q) for q in base_stripped]}
    return std, chg, pats


def render(std, chg, pats):
    L = ['import ChythonModel.Model.QueryEq',
         '/-!',
         '# GENERATED by harness/gen/gen_rules.py from the live rule tables of /repo — do not edit.',
         '',
         '`singleRules`, `doubleRules` = `standardize/_groups.py`; `metalRules` = `standardize/_metal_organics.py:rules`;',
         '`fixedRules`, `morganRules` = `standardize/_charged.py`; `acidStripped`, `baseStripped` = `tautomers/_acid.py`, `_base.py`',
         '`stripped_rules`.  Pattern atoms / bonds in `_atoms` / `_bonds` dict order; `atomFix` in `atom_fix` dict order.',
         '-/',
         'namespace ChythonModel.Gen.Rules',
         'open ChythonModel.Model.Query',
         '',
         '/-- a compiled query pattern: `QueryContainer._atoms`, `_bonds` -/',
         'structure Pattern where',
         '  atoms : List (Nat × QAtom)',
         '  adj : List (Nat × List (Nat × QBond))',
         '  deriving Repr, DecidableEq, Inhabited',
         '',
         '/-- one entry of a standardisation table: `(pattern, atom_fix, bonds_fix, any_atoms, is_tautomer)` -/',
         'structure StdRule extends Pattern where',
         '  atomFix : List (Nat × Int × Option Bool)',
         '  bondsFix : List (Nat × Nat × Nat)',
         '  anyAtoms : List Nat',
         '  isTautomer : Bool',
         '  deriving Repr, DecidableEq, Inhabited',
         '',
         '/-- one entry of a charge-position table: `(pattern, fix)` -/',
         'structure ChargeRule extends Pattern where',
         '  fix : Bool',
         '  deriving Repr, DecidableEq, Inhabited',
         '']
    for name, rows in std.items():
        L.append(f'def {name}Rules : List StdRule := [')
        items = []
        for i, r in enumerate(rows):
            af = ', '.join(f'({n}, {_i(c)}, {_ob(ir)})' for n, c, ir in r['atom_fix'])
            bf = ', '.join(f'({a}, {b}, {o})' for a, b, o in r['bonds_fix'])
            items.append(f'  -- {name}[{i}]  {r["smarts"]}\n  {{ {lean_pattern(r)},\n    atomFix := [{af}], bondsFix := [{bf}], '
                         f'anyAtoms := {_nats(tuple(r["any_atoms"]))}, isTautomer := {_b(r["is_tautomer"])} }}')
        L.append(',\n'.join(items) + ']')
        L.append('')
    for name, rows in chg.items():
        L.append(f'def {name}Rules : List ChargeRule := [')
        L.append(',\n'.join(f'  -- {name}[{i}]  {r["smarts"]}\n  {{ {lean_pattern(r)},\n    fix := {_b(r["fix"])} }}'
                            for i, r in enumerate(rows)) + ']')
        L.append('')
    for name, rows in pats.items():
        L.append(f'def {name} : List Pattern := [')
        L.append(',\n'.join(f'  -- {name}[{i}]  {r["smarts"]}\n  {{ {lean_pattern(r)} }}' for i, r in enumerate(rows)) + ']')
        L.append('')
    L += ['end ChythonModel.Gen.Rules', '']
    return '\n'.join(L)


def generate():
    std, chg, pats = tables()
    path = LEAN / 'ChythonModel' / 'Gen' / 'RuleTables.lean'
    write_if_changed(path, render(std, chg, pats))
    return path, std, chg, pats
