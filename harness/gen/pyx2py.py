"""pyx2py — render the three uncompilable Cython sources as executable Python with explicit C semantics.

No Cython exists in this sandbox, so `_pack_v2.pyx`, `_unpack_v0v2.pyx` and `_isomorphism.pyx` can never be
imported.  This translator re-reads the `.pyx` text on every run and emits a pure-Python module that the harness
injects as `chython.containers._pack_v2` etc., so that the *real* Python glue
(`MoleculeContainer.pack/unpack/pack_len`, `ReactionContainer.pack/unpack`, `QueryIsomorphism.get_mapping`) runs on it.

C semantics made explicit:
  * every `cdef`-typed integer variable is re-wrapped to its width/signedness after every assignment
    (`unsigned char` & 0xFF, `char` signed 8, `short` signed 16, `unsigned short` & 0xFFFF, `int` signed 32,
    `unsigned int` & 0xFFFFFFFF, `unsigned long long` & 2^64-1, `bint` -> bool, `double` -> float);
  * `<T> x` casts truncate the same way and bind to the following primary expression (Cython precedence);
  * `/` and `%` under `@cython.cdivision(True)` are C truncating division / remainder on integers;
  * `PyMem_Malloc` -> typed arrays (`CArray`) whose stores truncate to the element type; `&a[i]` -> `Ptr`;
  * `cdef packed struct` -> `struct.Struct` views (`StructArray`) over the byte buffers (little-endian, packed);
  * `frexp(x, &e)` -> `math.frexp`; `ldexp` -> `math.ldexp` (exact on IEEE doubles).
Unknown syntax is a hard error (`Pyx2PyError`), never guessed.  Intermediate C `int` promotion overflow is not
modelled (operands here are <= 16 bit shifted by <= 15).
"""
import ast
import re
from pathlib import Path

from ..core import REPO, VERIF


class Pyx2PyError(Exception):
    pass


RUNTIME = r'''
import math, struct

_INT = {'unsigned char': (8, False), 'char': (8, True), 'short': (16, True), 'unsigned short': (16, False),
        'int': (32, True), 'unsigned int': (32, False), 'unsigned long long': (64, False), 'long long': (64, True),
        'Py_ssize_t': (64, True)}


def _wrap(t, v):
    if t in _INT:
        bits, signed = _INT[t]
        if isinstance(v, float):
            v = math.trunc(v)
        v = int(v) & ((1 << bits) - 1)
        if signed and v >> (bits - 1):
            v -= 1 << bits
        return v
    if t == 'bint':
        return bool(v)
    if t == 'double':
        return float(v)
    return v


_cast = _wrap


def _cdiv(a, b):
    if isinstance(a, float) or isinstance(b, float):
        return a / b
    q = abs(a) // abs(b)
    return q if (a < 0) == (b < 0) else -q


def _cmod(a, b):
    if isinstance(a, float) or isinstance(b, float):
        return math.fmod(a, b)
    return a - b * _cdiv(a, b)


class CArray:
    """`T *` obtained from PyMem_Malloc / `T[n]` array: stores truncate to T."""
    def __init__(self, t, n):
        self.t, self.v = t, [0] * int(n)

    def __getitem__(self, i):
        if isinstance(i, slice):
            return bytes(self.v[i])
        if i < 0 or i >= len(self.v):
            raise IndexError(f'C buffer over-read/-write at {i} of {len(self.v)} (undefined behaviour in the compiled code)')
        return self.v[i]

    def __setitem__(self, i, x):
        if isinstance(i, slice):  # `table[:] = [literal list]` initialisation of a C array
            x = [_wrap(self.t, y) for y in x]
            if i != slice(None) or len(x) != len(self.v):
                raise IndexError('C array initialiser length mismatch')
            self.v = x
            return
        if i < 0 or i >= len(self.v):
            raise IndexError(f'C buffer over-read/-write at {i} of {len(self.v)} (undefined behaviour in the compiled code)')
        self.v[i] = _wrap(self.t, x)

    def __bool__(self):
        return True

    def fill(self, x):
        self.v = [_wrap(self.t, x)] * len(self.v)


class Ptr:
    def __init__(self, arr, off):
        self.arr, self.off = arr, off

    def __getitem__(self, i):
        return self.arr[self.off + i]

    def __setitem__(self, i, x):
        self.arr[self.off + i] = x


class _Rec:
    pass


class StructArray:
    """`S *` view over a bytes-like buffer at byte offset `off` (packed, little-endian)."""
    def __init__(self, name, buf, off):
        self.name, self.buf, self.off = name, buf, off
        self.fields, self.st = _STRUCTS[name]

    def __getitem__(self, i):
        vals = self.st.unpack_from(self.buf, self.off + i * self.st.size)
        r = _Rec()
        for f, v in zip(self.fields, vals):
            setattr(r, f, v)
        return r

    def end(self, count):
        return self.off + count * self.st.size


def _u32(buf, off):
    return struct.unpack_from('<I', buf, off)[0]
'''

_CTYPES = ['unsigned long long', 'unsigned short', 'unsigned char', 'unsigned int', 'long long', 'Py_ssize_t', 'short',
           'double', 'bint', 'char', 'int']
_PYTYPES = ['object', 'bytes', 'dict', 'tuple', 'list']
_FMT = {'unsigned long long': 'Q', 'unsigned int': 'I', 'unsigned short': 'H', 'unsigned char': 'B'}
_TYPE_RE = '(?:' + '|'.join(_CTYPES + _PYTYPES) + ')'


def _split_commas(s):
    out, depth, cur = [], 0, ''
    for ch in s:
        if ch in '([{':
            depth += 1
        elif ch in ')]}':
            depth -= 1
        if ch == ',' and depth == 0:
            out.append(cur)
            cur = ''
        else:
            cur += ch
    out.append(cur)
    return [x.strip() for x in out if x.strip()]


def translate(src: str, modname: str):
    lines = src.split('\n')
    out = []
    structs = {}          # name -> [(ctype, field)]
    func_types = {}       # funcname -> {var: ctype}
    cur_func, cur_indent = None, 0
    module_types = {}
    i = 0
    struct_names = set(re.findall(r'cdef packed struct (\w+):', src))

    def types():
        return func_types[cur_func] if cur_func else module_types

    while i < len(lines):
        raw = lines[i]
        i += 1
        line = raw.rstrip()
        stripped = line.strip()
        indent = len(line) - len(line.lstrip())
        code = stripped.split('#')[0].rstrip() if not stripped.startswith('#') else ''
        if cur_func and code and indent <= cur_indent and not stripped.startswith(('@', ')')):
            cur_func = None
        if not code:
            out.append(line)
            continue
        if re.match(r'(cimport |from \S+ cimport )', code) or code.startswith('@cython.'):
            out.append(' ' * indent + '# ' + stripped)
            continue
        if code.startswith('cdef extern from'):
            # skip the block
            while i < len(lines) and (not lines[i].strip() or len(lines[i]) - len(lines[i].lstrip()) > indent):
                i += 1
            continue
        m = re.match(r'cdef packed struct (\w+):', code)
        if m:
            fields = []
            while i < len(lines) and (not lines[i].strip() or len(lines[i]) - len(lines[i].lstrip()) > indent):
                f = lines[i].strip()
                i += 1
                if not f:
                    continue
                fm = re.match(r'(' + _TYPE_RE + r'|\w+)\s+(\*?)(\w+)$', f)
                if not fm:
                    raise Pyx2PyError(f'struct field: {f!r}')
                fields.append((fm.group(1), fm.group(2), fm.group(3)))
            structs[m.group(1)] = fields
            continue
        # function headers
        m = re.match(r'(?:def|cdef\s+' + r'(?:void|double|' + _TYPE_RE + r'))\s+(\w+)\((.*)\):\s*$', code)
        if m and (code.startswith('def ') or code.startswith('cdef ')):
            name, params = m.group(1), m.group(2)
            # multi-line def?
            func_types[name] = {}
            pnames = []
            for p in _split_commas(params):
                p = p.replace(' not None', '')
                pm = re.match(r'(?:const\s+)?(' + _TYPE_RE + r')\s*(\[::1\]|\*)?\s*(\w+)$', p)
                if pm:
                    if not pm.group(2) and pm.group(1) in _CTYPES:
                        func_types[name][pm.group(3)] = pm.group(1)
                    pnames.append(pm.group(3))
                elif re.match(r'\w+$', p):
                    pnames.append(p)
                else:
                    raise Pyx2PyError(f'parameter: {p!r}')
            out.append(' ' * indent + f'def {name}({", ".join(pnames)}):')
            cur_func, cur_indent = name, indent
            for v, t in func_types[name].items():
                out.append(' ' * (indent + 4) + f'{v} = _wrap({t!r}, {v})')
            continue
        if code.startswith('def ') and not code.endswith(':'):
            # multi-line def header: join
            joined = code
            while not joined.rstrip().endswith(':'):
                joined += ' ' + lines[i].strip().split('#')[0]
                i += 1
            lines.insert(i, ' ' * indent + joined)
            continue
        # declarations
        m = re.match(r'cdef\s+(' + _TYPE_RE + r'|' + '|'.join(struct_names or ['_NOSTRUCT_']) + r')\s*(\[\d+\])?\s+(.*)$', code)
        if m:
            ctype, arr, rest = m.group(1), m.group(2), m.group(3)
            emitted = False
            if arr:
                for nm in _split_commas(rest):
                    out.append(' ' * indent + f'{nm} = CArray({ctype!r}, {arr[1:-1]})')
                continue
            for d in _split_commas(rest):
                dm = re.match(r'(\*?)(\w+)\s*(?:=\s*(.*))?$', d)
                if not dm:
                    raise Pyx2PyError(f'declaration: {d!r} in {code!r}')
                ptr, nm, init = dm.groups()
                if ctype in struct_names:
                    out.append(' ' * indent + f'{nm} = _Rec()')
                    emitted = True
                    continue
                if not ptr and ctype in _CTYPES:
                    types()[nm] = ctype
                if init is not None:
                    out.append(' ' * indent + f'{nm} = ' + _expr(init, struct_names))
                    emitted = True
            if not emitted:
                out.append(' ' * indent + 'pass')
            continue
        out.append(' ' * indent + _stmt(code, struct_names))

    text = '\n'.join(out)
    # struct table
    st_lines = ['_STRUCTS = {}']
    for name, fields in structs.items():
        plain = [(t, f) for t, p, f in fields if not p]
        if all(t in _FMT for t, _ in plain) and len(plain) == len(fields):
            fmt = '<' + ''.join(_FMT[t] for t, _ in plain)
            st_lines.append(f'_STRUCTS[{name!r}] = ({[f for _, f in plain]!r}, struct.Struct({fmt!r}))')
    header = f'# GENERATED by harness/gen/pyx2py.py from {modname}.pyx — do not edit\n' + RUNTIME + '\n'.join(st_lines) + '\n'
    try:
        tree = ast.parse(text)
    except SyntaxError as e:
        raise Pyx2PyError(f'rendered module does not parse: {e}; line: {text.splitlines()[e.lineno - 1] if e.lineno else ""}')
    tree = _Typer(func_types, module_types).visit(tree)
    ast.fix_missing_locations(tree)
    return header + ast.unparse(tree) + '\n'


def _expr(e, struct_names):
    e = re.sub(r'sizeof\([^)]*\)', '1', e)
    # malloc casts
    m = re.match(r'<\s*([\w ]+?)\s*\*\s*>\s*PyMem_Malloc\((.*)\)$', e)
    if m:
        return f'CArray({m.group(1)!r}, {m.group(2)})'
    # struct views
    m = re.match(r'\(<unsigned int\*> &(\w+)\[0\]\)\[0\]$', e)
    if m:
        return f'_u32({m.group(1)}, 0)'
    m = re.match(r'<(\w+)\*> \(&(\w+)\[0\] \+ (\d+)\)$', e)
    if m and m.group(1) in struct_names:
        return f'StructArray({m.group(1)!r}, {m.group(2)}, {m.group(3)})'
    m = re.match(r'<(\w+)\*> \(&([\w.]+)\[0\] \+ ([\w.]+)\)$', e)
    if m and m.group(1) in struct_names:
        return f'StructArray({m.group(1)!r}, {m.group(2)}.buf, {m.group(2)}.end({m.group(3)}))'
    # scalar casts bind to the following primary expression
    e = re.sub(r'<\s*(' + '|'.join(_CTYPES) + r')\s*>\s*([A-Za-z_][\w.]*(?:\[[^\]]*\])?)', lambda k: f'_cast({k.group(1)!r}, {k.group(2)})', e)
    if re.search(r'<\s*[\w ]+\*?\s*>', e) and not re.search(r'[\w\])]\s*<', e):
        raise Pyx2PyError(f'unhandled cast in {e!r}')
    e = re.sub(r'&(\w+)\[([^\]]*)\]', r'Ptr(\1, \2)', e)
    e = re.sub(r'\b_PyDict_NewPresized\([^)]*\)', '{}', e)
    e = re.sub(r'\bldexp\(', 'math.ldexp(', e)
    return e


def _stmt(code, struct_names):
    m = re.match(r'(\w+)\s*=\s*frexp\((\w+),\s*&(\w+)\)$', code)
    if m:
        return f'{m.group(1)}, {m.group(3)} = math.frexp({m.group(2)})'
    m = re.match(r'memset\((\w+),\s*(\w+),.*\)$', code)
    if m:
        return f'{m.group(1)}.fill({m.group(2)})'
    if re.match(r'PyMem_Free\(\w+\)$', code):
        return 'pass'
    m = re.match(r'cdef .*', code)
    if m:
        raise Pyx2PyError(f'unhandled cdef: {code!r}')
    # assignment with cast/malloc on the right
    m = re.match(r'([\w.\[\]]+)\s*=\s*(<.*)$', code)
    if m:
        return f'{m.group(1)} = ' + _expr(m.group(2), struct_names)
    m = re.match(r'([\w.]+)\s*=\s*(\(<.*)$', code)
    if m:
        return f'{m.group(1)} = ' + _expr(m.group(2), struct_names)
    return _expr(code, struct_names)


class _Typer(ast.NodeTransformer):
    """re-wrap typed names after each assignment; C division."""

    def __init__(self, func_types, module_types):
        self.func_types, self.module_types, self.cur = func_types, module_types, None

    def visit_FunctionDef(self, node):
        prev, self.cur = self.cur, self.func_types.get(node.name, {})
        node.body = self._block(node.body)
        self.cur = prev
        return node

    def _block(self, stmts):
        out = []
        for s in stmts:
            s = self.visit(s)
            out.append(s)
            for nm in self._assigned(s):
                t = (self.cur or {}).get(nm)
                if t:
                    out.append(ast.parse(f'{nm} = _wrap({t!r}, {nm})').body[0])
        return out

    def _assigned(self, s):
        names = []
        if isinstance(s, ast.Assign):
            for t in s.targets:
                for n in ast.walk(t):
                    if isinstance(n, ast.Name) and isinstance(n.ctx, ast.Store):
                        names.append(n.id)
        elif isinstance(s, ast.AugAssign) and isinstance(s.target, ast.Name):
            names.append(s.target.id)
        return names

    def visit(self, node):
        # handle statement blocks explicitly so the re-wrap statements are inserted
        if isinstance(node, (ast.For, ast.While, ast.If, ast.Try, ast.With)):
            for field in ('body', 'orelse', 'finalbody'):
                blk = getattr(node, field, None)
                if blk:
                    setattr(node, field, self._block(blk))
            if isinstance(node, ast.Try):
                for h in node.handlers:
                    h.body = self._block(h.body)
            if isinstance(node, ast.For):
                node.iter = self.visit(node.iter)
                for tn in [x for x in ast.walk(node.target) if isinstance(x, ast.Name)][::-1]:
                    t = (self.cur or {}).get(tn.id)
                    if t:
                        node.body.insert(0, ast.parse(f'{tn.id} = _wrap({t!r}, {tn.id})').body[0])
            elif isinstance(node, (ast.While, ast.If)):
                node.test = self.visit(node.test)
            return node
        if isinstance(node, ast.FunctionDef):
            return self.visit_FunctionDef(node)
        if isinstance(node, ast.AugAssign) and isinstance(node.op, (ast.Div, ast.Mod)):
            fn = '_cdiv' if isinstance(node.op, ast.Div) else '_cmod'
            val = self.visit(node.value)
            tgt_load = ast.parse(ast.unparse(node.target)).body[0].value
            return ast.Assign(targets=[node.target], value=ast.Call(ast.Name(fn, ast.Load()), [tgt_load, val], []))
        if isinstance(node, ast.BinOp) and isinstance(node.op, (ast.Div, ast.Mod)):
            fn = '_cdiv' if isinstance(node.op, ast.Div) else '_cmod'
            return ast.Call(ast.Name(fn, ast.Load()), [self.visit(node.left), self.visit(node.right)], [])
        return ast.NodeTransformer.generic_visit(self, node)


MODULES = {
    'chython.containers._pack_v2': REPO / 'chython' / 'containers' / '_pack_v2.pyx',
    'chython.containers._unpack_v0v2': REPO / 'chython' / 'containers' / '_unpack_v0v2.pyx',
    'chython.algorithms._isomorphism': REPO / 'chython' / 'algorithms' / '_isomorphism.pyx',
}


def render_all(outdir=None):
    """Render the three modules into harness/_build/chython_ext/. Returns {modname: path}."""
    outdir = Path(outdir or VERIF / 'harness' / '_build' / 'chython_ext')
    outdir.mkdir(parents=True, exist_ok=True)
    res = {}
    for mod, path in MODULES.items():
        text = translate(path.read_text(), path.stem)
        p = outdir / (mod.rsplit('.', 1)[1] + '.py')
        if not p.exists() or p.read_text() != text:
            p.write_text(text)
        res[mod] = p
    return res


def install(which=None):
    """Render and inject the modules into sys.modules (they are absent from /repo because Cython is unavailable)."""
    import importlib.util
    import sys
    res = render_all()
    for mod, p in res.items():
        if which and mod not in which:
            continue
        if mod in sys.modules:
            continue
        spec = importlib.util.spec_from_file_location(mod, p)
        m = importlib.util.module_from_spec(spec)
        sys.modules[mod] = m
        spec.loader.exec_module(m)
        parent, _, leaf = mod.rpartition('.')
        if parent in sys.modules:
            setattr(sys.modules[parent], leaf, m)
    return res
