"""One-off generator of corpus/C05_aromatic_reference.json (run by hand on a reviewed tree, NOT during a check):

    cd /verif && PYTHONPATH=harness/shim:/repo:. /venv/bin/python -m harness.gen.make_c05_reference

Every entry pins, for an aromatic SMILES, what an *independent* toolkit (RDKit: SMILES parser, sanitisation, aromaticity
perception, hydrogen counting) says about it: which bonds are aromatic and how many hydrogens each atom carries
(OpenSMILES: an aromatic `n` without `H` has none). An entry is only written when chython on the tree the file was
made from agrees with RDKit on all of it (same atoms in the same order, reader gives the same aromatic bond set,
`thiele(kekule(m))` gives it back, `kekule(m)` gives RDKit's hydrogen counts) — so the file is green on that tree and is
from then on a regression reference that does not depend on the code under test.
`multi_n` marks fused aza-arenes with >= 2 ring nitrogens whose pyridine / pyrrole role the Kekulé search has to decide
(the class that is run under many renumberings); `freak` marks molecules with a rule-aromatised five-membered ring.
"""
import json

from ..core import VERIF
from .. import molgen

CATALOGUE = [
    # fused aza-arenes with several undetermined ring nitrogens
    'c1cc2ccc3cccnc3c2nc1', 'c1cnc2ccc3ncccc3c2c1', 'c1cnc2nccnc2n1', 'c1ccc2nc3ccccc3nc2c1', 'c1ccc2ncccc2c1',
    'c1cnc2cccnc2c1', 'c1cc2cccnc2nc1', 'c1cc2ncccc2cn1', 'c1cnc2ccncc2c1', 'c1ccc2nccnc2c1', 'c1ccc2ncncc2c1',
    'c1ccc2nnccc2c1', 'c1ccc2cnncc2c1', 'c1ncc2nc[nH]c2n1', 'c1nc2cncnc2[nH]1', 'c1ccc(nc1)-c1ccccn1', 'c1cnc2c(c1)ccc1cccnc12',
    'c1cc2cc3cccnc3cc2nc1', 'c1cnc2cc3ncccc3cc2c1', 'c1cc2nc3cccnc3cc2nc1', 'c1ccc2c(c1)ccc1cccnc12', 'c1ccc2c(c1)nc1ccccc1n2',
    'c1cnc2c(c1)ccc1ncccc12', 'c1cnc2c(n1)ccc1nccnc12', 'c1ccc2nc3ncccc3cc2c1', 'n1ccnc2cccnc12', 'c1cc2nccnc2cn1',
    'c1nc2ccccc2c2ncccc12', 'c1ccn2ccnc2c1', 'c1ccn2cncc2c1', 'c1cnc2ccccn12', 'c1ccn2nccc2c1', 'c1cn2ccnc2cn1', 'c1cn2ccnc2n1',
    'c1cc[nH+]c2c1ccc1ccc[nH+]c12', 'c1ncc2ccncc2n1', 'c1cc2cnccc2cn1', 'c1cnc2cnccc2c1', 'c1ccc2c(c1)cnc1cccnc12',
    # rule-aromatised ("freak") five-membered rings sharing a bond with an aromatic ring, and their parents
    'c1ccc2c(c1)sc1nccn12', 'c1ccc2c(c1)[nH]c1cccn12', 'Cn1c2ccccc2n2cccc12', 'c1ccc2c(c1)oc1cccn12', 'c1cnc2c(c1)sc1nccn12',
    'c1cc2sc3nccn3c2s1', 'c1csc2nccn12', '[nH]1ccn2cccc12', 'c1ccc2scnc2c1', 'c1ccc2c(c1)[nH]c1ccccc12', 's1ccn2cccc12',
    'o1ccn2cccc12', 'Cn1ccn2cccc12', 'c1csc2nc3ccccc3n12', 'c1ccc2c(c1)nc1sccn12', 'c1cn2c(n1)sc1ccccc12',
    # classical rings
    'c1ccccc1', 'c1ccncc1', 'c1cc[nH]c1', 'c1ccoc1', 'c1ccsc1', 'c1cnc[nH]1', 'c1cn[nH]c1', 'c1cocn1', 'c1cscn1', 'c1ncn[nH]1',
    'c1nnn[nH]1', 'c1ccc2[nH]ccc2c1', 'c1ccc2occc2c1', 'c1ccc2sccc2c1', 'c1ccc2[nH]cnc2c1', 'c1ccc2ocnc2c1', 'c1ccc2ccccc2c1',
    'c1ccc2cc3ccccc3cc2c1', 'c1ccc2c(c1)ccc1ccccc12', 'c1cc2ccc3cccc4ccc(c1)c2c34', 'c1ccn2cccc2c1', 'c1cnc2[nH]ccc2c1',
    'C[n+]1ccccc1', '[O-][n+]1ccccc1', 'c1cc[nH+]cc1', 'c1cc[o+]cc1', 'c1cc[s+]cc1', 'O=c1cc[nH]cc1', 'O=c1ccocc1', 'O=c1ccccn1C',
    'Cn1cnc2c1c(=O)n(C)c(=O)n2C', 'O=c1[nH]c(=O)c2[nH]cnc2[nH]1', 'c1ccc(cc1)-c1ccccc1', 'Cc1ccc(O)cc1', 'c1cc[cH-]c1',
    'Nc1ncnc2[nH]cnc12', 'Nc1ccn(C)c(=O)n1', 'c1ccc2c(c1)oc1ccccc12', 'c1ccc2c(c1)sc1ccccc12', 'c1ccc2nsnc2c1', 'c1ncon1',
]


def facts(smi):
    """(elements, aromatic bond list, per-atom total H) from RDKit; None if RDKit rejects the SMILES"""
    from rdkit import Chem, RDLogger
    RDLogger.DisableLog('rdApp.*')
    rm = Chem.MolFromSmiles(smi)
    if rm is None:
        return None
    elements = [a.GetAtomicNum() for a in rm.GetAtoms()]
    arom = sorted(sorted((b.GetBeginAtomIdx() + 1, b.GetEndAtomIdx() + 1)) for b in rm.GetBonds() if b.GetIsAromatic())
    hs = [a.GetTotalNumHs() for a in rm.GetAtoms()]
    return elements, arom, hs


def agrees(smi, f):
    """chython (the tree this is run on) agrees with the RDKit facts on everything the check will later demand"""
    elements, arom, hs = f
    m = molgen.parse(smi)
    if m is None or [a.atomic_number for _, a in m.atoms()] != elements or list(m._atoms) != list(range(1, len(elements) + 1)):
        return False
    if sorted(sorted((n, k)) for n, k, b in m.bonds() if int(b) == 4) != arom or not arom:
        return False
    if any(a.implicit_hydrogens is not None and a.implicit_hydrogens != h for (_, a), h in zip(m.atoms(), hs)):
        return False
    k = m.copy()
    try:
        k.kekule()
        if [a.implicit_hydrogens for _, a in k.atoms()] != hs:
            return False
        t = k.copy()
        t.thiele()
    except Exception:
        return False
    return sorted(sorted((n, j)) for n, j, b in t.bonds() if int(b) == 4) == arom


def classify(smi, f):
    from chython.algorithms.aromatics._rules import freak_rules
    m = molgen.parse(smi)
    undecided = sum(1 for n, a in m.atoms() if a.atomic_number == 7 and a.implicit_hydrogens is None and
                    any(int(b) == 4 for b in m._bonds[n].values()))
    fused = any(sum(1 for b in m._bonds[n].values() if int(b) == 4) == 3 for n in m._atoms)
    k = m.copy()
    k.kekule()
    freak = False
    for r in k.sssr:
        if len(r) == 5 and sum(k._atoms[n].hybridization == 2 for n in r) == 3:
            freak = True
    return undecided >= 2 and fused, freak


def main():
    entries, seen = [], set()
    smis = list(CATALOGUE) + molgen.corpus_smiles()
    for i, smi in enumerate(smis):
        if smi in seen:
            continue
        seen.add(smi)
        f = facts(smi)
        if f is None or not agrees(smi, f):
            continue
        multi_n, freak = classify(smi, f)
        src = 'catalogue' if i < len(CATALOGUE) else 'corpus'
        if src == 'corpus' and not (multi_n or freak) and sum(1 for e in entries if e['source'] == 'corpus' and not e['multi_n'] and not e['freak']) >= 600:
            continue
        entries.append({'smiles': smi, 'source': src, 'elements': f[0], 'aromatic_bonds': f[1], 'hydrogens': f[2],
                        'multi_n': multi_n, 'freak': freak})
    out = VERIF / 'corpus' / 'C05_aromatic_reference.json'
    out.parent.mkdir(exist_ok=True)
    out.write_text(json.dumps({'comment': 'C05 regression reference: aromatic bond sets and per-atom hydrogen counts according to RDKit for '
                                          'aromatic SMILES on which chython agreed when the file was made (harness/gen/make_c05_reference.py)',
                               'entries': entries}, indent=0) + '\n')
    print(len(entries), 'entries;', sum(e['multi_n'] for e in entries), 'multi_n;', sum(e['freak'] for e in entries), 'freak;',
          sum(e['source'] == 'catalogue' for e in entries), 'of', len(CATALOGUE), 'catalogue SMILES kept')


if __name__ == '__main__':
    main()
