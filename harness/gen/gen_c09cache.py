"""Translator for C09 (history part): regenerates lean/ChythonModel/Gen/C09Cache.lean from /repo on every run.

The packed buffers `_cython_compiled_structure` / `_cython_compiled_query` are cached properties. They stay valid only as long as
every code path that hands cached values from one object state to another (the `keep_*` lists of `copy` / `flush_cache`, direct
`__dict__[...] = ...` stores) never carries them. Extracted from the AST of every module of the package:

 * `keepSites`   every place where `__dict__` entries are *selected by key*: `if k in <keys>` inside a function that touches
                 `__dict__` (the literal tuple / list / set, or a Name resolved to a module-level or class-level constant
                 collection — hoisted tuples are resolved), and every constant-key store `<obj>.__dict__['key'] = …` /
                 `<dict that is later assigned to __dict__>['key'] = …`;   as (site, keys)
 * `literalSites` every string literal anywhere in the package that spells one of the two buffer names (legitimate code only
                 uses them as attribute / function names, never as strings)
A key collection that cannot be resolved to constants raises TranslatorError (never guessed).
"""
import ast

from ..core import LEAN, REPO, write_if_changed

BUFFER_KEYS = ('_cython_compiled_structure', '_cython_compiled_query')


class TranslatorError(Exception):
    pass


def _const_strs(node):
    if isinstance(node, (ast.Tuple, ast.List, ast.Set)) and all(isinstance(e, ast.Constant) and isinstance(e.value, str) for e in node.elts):
        return [e.value for e in node.elts]
    if isinstance(node, ast.Constant) and isinstance(node.value, str):
        return None  # `k in 'string'` is not a key collection
    return None


def _touches_dict(fn):
    return any(isinstance(n, ast.Attribute) and n.attr == '__dict__' for n in ast.walk(fn))


def _collections(scope_body):
    """name -> list of str for constant collections assigned at this level (module or class body)"""
    out = {}
    for st in scope_body:
        if isinstance(st, ast.Assign) and len(st.targets) == 1 and isinstance(st.targets[0], ast.Name):
            v = _const_strs(st.value)
            if v is not None:
                out[st.targets[0].id] = v
        elif isinstance(st, ast.AnnAssign) and isinstance(st.target, ast.Name) and st.value is not None:
            v = _const_strs(st.value)
            if v is not None:
                out[st.target.id] = v
    return out


def _functions(tree):
    """(qualified name, FunctionDef, enclosing class body | None)"""
    for node in tree.body:
        if isinstance(node, (ast.FunctionDef, ast.AsyncFunctionDef)):
            yield node.name, node, None
        elif isinstance(node, ast.ClassDef):
            for sub in node.body:
                if isinstance(sub, (ast.FunctionDef, ast.AsyncFunctionDef)):
                    yield f'{node.name}.{sub.name}', sub, node.body


def scan_file(path, rel):
    tree = ast.parse(path.read_text())
    mod_cols = _collections(tree.body)
    keeps, literals = [], []
    for node in ast.walk(tree):
        if isinstance(node, ast.Constant) and isinstance(node.value, str) and node.value in BUFFER_KEYS:
            literals.append(f'{rel}: {node.value!r}')
    for qual, fn, cls_body in _functions(tree):
        if not _touches_dict(fn):
            continue
        cls_cols = _collections(cls_body) if cls_body is not None else {}
        loc_cols = {}
        for n in ast.walk(fn):
            if isinstance(n, ast.Assign) and len(n.targets) == 1 and isinstance(n.targets[0], ast.Name):
                v = _const_strs(n.value)
                if v is not None:
                    loc_cols[n.targets[0].id] = v
        # dict variables that end up as the object's __dict__
        dict_vars = set()
        for n in ast.walk(fn):
            if isinstance(n, ast.Assign):
                for t in n.targets:
                    if isinstance(t, ast.Attribute) and t.attr == '__dict__' and isinstance(n.value, ast.Name):
                        dict_vars.add(n.value.id)
        k = 0
        for n in ast.walk(fn):
            if isinstance(n, ast.Compare) and len(n.ops) == 1 and isinstance(n.ops[0], (ast.In, ast.NotIn)) \
                    and isinstance(n.left, ast.Name):
                comp = n.comparators[0]
                keys = _const_strs(comp)
                if keys is None and isinstance(comp, ast.Name):
                    for cols in (loc_cols, cls_cols, mod_cols):
                        if comp.id in cols:
                            keys = cols[comp.id]
                            break
                    if keys is None:
                        # a membership test against something that is not a constant key collection (a set of atoms, …)
                        continue
                if keys is None and isinstance(comp, ast.Attribute) and isinstance(comp.value, ast.Name) and comp.value.id in ('self', 'cls'):
                    if comp.attr in cls_cols:
                        keys = cls_cols[comp.attr]
                    else:
                        continue
                if keys is None:
                    continue
                k += 1
                kind = 'in' if isinstance(n.ops[0], ast.In) else 'not-in'
                keeps.append((f'{rel}:{qual}#{kind}{k}', sorted(keys)))
            if isinstance(n, (ast.Assign, ast.AugAssign)):
                targets = n.targets if isinstance(n, ast.Assign) else [n.target]
                for t in targets:
                    if isinstance(t, ast.Subscript) and isinstance(t.slice, ast.Constant) and isinstance(t.slice.value, str):
                        base = t.value
                        if (isinstance(base, ast.Attribute) and base.attr == '__dict__') or \
                                (isinstance(base, ast.Name) and base.id in dict_vars):
                            keeps.append((f'{rel}:{qual}#store', [t.slice.value]))
    return keeps, literals


def extract():
    pkg = REPO / 'chython'
    keeps, literals = [], []
    for path in sorted(pkg.rglob('*.py')):
        rel = str(path.relative_to(REPO))
        if '/test' in rel or rel.endswith('conftest.py'):
            continue
        try:
            k, l = scan_file(path, rel)
        except SyntaxError as e:
            raise TranslatorError(f'{rel}: {e}')
        keeps += k
        literals += l
    # merge stores per site
    merged = {}
    for site, keys in keeps:
        merged.setdefault(site, set()).update(keys)
    keeps = sorted((s, sorted(v)) for s, v in merged.items())
    if not any(s.endswith('MoleculeContainer.copy#in1') or 'MoleculeContainer.copy#' in s for s, _ in keeps):
        raise TranslatorError('MoleculeContainer.copy: no key selection found (the cache hand-over moved: unknown shape)')
    if not any('MoleculeContainer.flush_cache#' in s for s, _ in keeps):
        raise TranslatorError('MoleculeContainer.flush_cache: no key selection found (unknown shape)')
    return keeps, sorted(set(literals))


def lean_str(s):
    assert all(32 <= ord(c) < 127 and c not in '"\\' for c in s), s
    return '"' + s + '"'


def render(keeps, literals):
    lines = ['-- GENERATED by harness/gen/gen_c09cache.py from /repo/chython/**/*.py (AST). Do not edit: rewritten on every check run.',
             'namespace ChythonModel.Gen.C09Cache', '',
             '/-- the cached keys of the two packed buffers of the accelerated matcher -/',
             'def bufferKeys : List String := [' + ', '.join(lean_str(k) for k in BUFFER_KEYS) + ']', '',
             '/-- every place where `__dict__` entries are selected or stored by constant key: (site, keys) -/',
             'def keepSites : List (String × List String) := [']
    lines += ['  (' + lean_str(s) + ', [' + ', '.join(lean_str(k) for k in ks) + '])' + (',' if i + 1 < len(keeps) else '')
              for i, (s, ks) in enumerate(keeps)]
    lines += [']', '', '/-- string literals spelling a buffer key anywhere in the package -/',
              'def literalSites : List String := [' + ', '.join(lean_str(x) for x in literals) + ']', '',
              'end ChythonModel.Gen.C09Cache', '']
    return '\n'.join(lines)


def generate():
    keeps, literals = extract()
    path = LEAN / 'ChythonModel' / 'Gen' / 'C09Cache.lean'
    write_if_changed(path, render(keeps, literals))
    return path, {'keeps': keeps, 'literals': literals}


if __name__ == '__main__':
    k, l = extract()
    for s, ks in k:
        print(s, ks)
    print(l)
