"""gen_effects — AST effect summaries of chython's cache discipline -> lean/ChythonModel/Gen/CacheEffects.lean  (C13; C19 may import).

Reads the *source text* of the classes in `MoleculeContainer.__mro__` (files located through the imported classes,
bodies taken from the AST of those files) and of every other file that calls `flush_cache`, and emits

 * `cachedKeys`        every cached_property / cached_method / cached_args_method of the MRO, as its `__dict__` key
 * `keyReads`          per cached key: the cached keys its body reads or stores (directly or through plain helper
                       methods/properties of the MRO) -> dependency graph of the memoised values
 * `keyRaw`            per cached key: the raw `self._xxx` slots its body (and helpers) touch
 * `fns`               per modelled method: the ORDERED list of cache-relevant events (raw graph edit, flush with its keep
                       flags, `__dict__` pops/stores, cached reads, `_changed`/`_backup` reads and writes, hydrogen
                       recalculation loop, label/stereo mark writes, calls of other modelled methods) each with its guards
 * keep lists          the literal key tuples of `flush_cache(keep_sssr/keep_components)` and of `copy(keep_*)`
 * slot lists          which slots `__init__`, `copy`, `substructure` assign on the object they create; what `__exit__`
                       restores; whether `Graph.copy` deep-copies atoms/bonds; whether `Element.copy` shares the Vector
 * `bulkSites`         every other `self.flush_cache(...)` call site of the package with its flags (standardize, aromatics, ...)

Unknown syntax in a cache-relevant position (`self._changed = <expr>`, `self.__dict__ = <expr>` outside the known
patterns, a modelled method that disappeared) raises TranslatorError - never guessed.
"""
import ast
import inspect
from pathlib import Path

from ..core import LEAN, REPO, write_if_changed

OUT = LEAN / 'ChythonModel' / 'Gen' / 'CacheEffects.lean'


class TranslatorError(Exception):
    pass


# methods whose event lists are emitted (class name, method)
MODELLED = [
    ('Graph', 'add_atom'), ('Graph', 'add_bond'), ('Graph', 'remap'), ('Graph', 'union'), ('Graph', 'flush_cache'),
    ('MoleculeContainer', 'add_atom'), ('MoleculeContainer', 'add_bond'), ('MoleculeContainer', 'delete_atom'),
    ('MoleculeContainer', 'delete_bond'), ('MoleculeContainer', 'union'), ('MoleculeContainer', 'fix_structure'),
    ('MoleculeContainer', 'calc_labels'), ('MoleculeContainer', '__enter__'), ('MoleculeContainer', '__exit__'),
    ('MoleculeStereo', 'clean_stereo'), ('MoleculeStereo', 'flush_stereo_cache'), ('MoleculeStereo', 'fix_stereo'),
]
MODELLED_NAMES = {m for _, m in MODELLED}
LABEL_SLOTS = {'_neighbors', '_heteroatoms', '_hybridization', '_explicit_hydrogens', '_in_ring', '_ring_sizes'}
GRAPH_SLOTS = {'_atoms', '_bonds'}


def lean_str(s):
    return '"' + s.replace('\\', '\\\\').replace('"', '\\"') + '"'


def lean_list(xs):
    return '[' + ', '.join(xs) + ']'


def is_self_attr(node, name=None, base='self'):
    return (isinstance(node, ast.Attribute) and isinstance(node.value, ast.Name) and node.value.id == base
            and (name is None or node.attr == name))


def is_self_dict(node):
    return is_self_attr(node, '__dict__')


def mangle(cls, name):
    if name.startswith('__') and not name.endswith('__'):
        return f'_{cls}{name}'
    return name


class Classes:
    """AST of every class in the MRO + decorator classification."""

    def __init__(self):
        from chython import MoleculeContainer
        self.mro = [c for c in MoleculeContainer.__mro__ if c.__module__.startswith('chython')]
        self.defs = {}        # (cls, method) -> FunctionDef
        self.kind = {}        # (cls, method) -> 'cached_property' | 'cached_method' | 'cached_args_method' | 'property' | 'method'
        self.files = {}
        for c in self.mro:
            try:
                path = inspect.getsourcefile(c)
            except TypeError:
                continue
            tree = ast.parse(Path(path).read_text())
            self.files[c.__name__] = path
            for node in ast.walk(tree):
                if isinstance(node, ast.ClassDef) and node.name == c.__name__:
                    for f in node.body:
                        if isinstance(f, ast.FunctionDef):
                            kind = 'method'
                            for d in f.decorator_list:
                                dn = d.id if isinstance(d, ast.Name) else d.attr if isinstance(d, ast.Attribute) else None
                                if dn in ('cached_property', 'cached_method', 'cached_args_method'):
                                    kind = dn
                                elif dn == 'property' and kind == 'method':
                                    kind = 'property'
                                elif dn in ('setter',):
                                    kind = 'setter'
                            if kind == 'setter':
                                continue
                            self.defs[(c.__name__, f.name)] = f
                            self.kind[(c.__name__, f.name)] = kind
        self.order = [c.__name__ for c in self.mro]

    def resolve(self, name, start_after=None):
        """first class in MRO order (optionally after `start_after`) defining `name`."""
        names = self.order
        if start_after is not None:
            names = names[names.index(start_after) + 1:]
        for c in names:
            if (c, name) in self.defs:
                return c
        return None

    def dict_key(self, cls, name):
        k = self.kind[(cls, name)]
        m = mangle(cls, name)
        if k == 'cached_property':
            return m
        if k == 'cached_method':
            return f'__cached_method_{name}'
        if k == 'cached_args_method':
            return f'__cached_args_method_{name}'
        return None


BUILTIN_DUNDER = {'str': '__str__', 'hash': '__hash__', 'int': '__int__', 'float': '__float__', 'len': '__len__',
                  'bool': '__bool__', 'format': '__format__', 'bytes': '__bytes__', 'iter': '__iter__'}


def self_accesses(fn, cls, C):
    """ordered (name, node) for every `self.<name>` load/call inside fn (private names mangled);
    `str(self)`, `hash(self)`, ... count as accesses of the corresponding dunder method."""
    out = []
    for node in ast.walk(fn):
        if isinstance(node, ast.Call) and isinstance(node.func, ast.Name) and node.func.id in BUILTIN_DUNDER \
                and node.args and isinstance(node.args[0], ast.Name) and node.args[0].id == 'self':
            out.append(BUILTIN_DUNDER[node.func.id])
        if is_self_attr(node):
            out.append(mangle(cls, node.attr) if node.attr.startswith('__') and not node.attr.endswith('__') else node.attr)
    return out


def helper_reads(C):
    """for every method/property of the MRO: set of cached dict keys it reads (transitively through helpers),
    raw slots read, and dict keys stored through self.__dict__['k'] = ..."""
    direct = {}
    for (cls, name), fn in C.defs.items():
        if C.resolve(name) != cls:
            continue  # overridden: only the resolved definition counts
        acc = []
        for a in self_accesses(fn, cls, C):
            acc.append(a)
        stores = []
        for node in ast.walk(fn):
            if isinstance(node, ast.Subscript) and is_self_dict(node.value) and isinstance(node.ctx, ast.Store) \
                    and isinstance(node.slice, ast.Constant):
                stores.append(node.slice.value)
        direct[name] = (cls, acc, stores)

    def unmangle_lookup(a):
        # a may be a mangled private name `_Cls__x`
        for (cls, name) in C.defs:
            if mangle(cls, name) == a and C.resolve(name) == cls:
                return cls, name
        return None

    memo = {}

    def reads_of(name, stack=()):
        if name in memo:
            return memo[name]
        if name in stack or name not in direct:
            return set(), set()
        cls, acc, stores = direct[name]
        keys, raw = set(stores), set()
        for a in acc:
            hit = unmangle_lookup(a)
            if hit is None:
                if a.startswith('_') and not a.startswith('__'):
                    raw.add(a)
                continue
            c2, n2 = hit
            dk = C.dict_key(c2, n2)
            if dk is not None:
                keys.add(dk)
            elif n2 != name:
                k2, r2 = reads_of(n2, stack + (name,))
                keys |= k2
                raw |= r2
        memo[name] = (keys, raw)
        return memo[name]

    return direct, reads_of, unmangle_lookup


class FnExtractor:
    def __init__(self, C, cls, fn, reads_of, lookup, variant=None):
        self.C, self.cls, self.fn, self.reads_of, self.lookup, self.variant = C, cls, fn, reads_of, lookup, variant
        self.params = {}
        a = fn.args
        for arg, d in zip(a.kwonlyargs, a.kw_defaults):
            if isinstance(d, ast.Constant) and isinstance(d.value, bool):
                self.params[arg.arg] = d.value
        pos = a.args[len(a.args) - len(a.defaults):]
        for arg, d in zip(pos, a.defaults):
            if isinstance(d, ast.Constant) and isinstance(d.value, bool):
                self.params[arg.arg] = d.value
        self.events = []

    # -- helpers ------------------------------------------------------------------------------
    def emit(self, guards, ev):
        if ev in ('Ev.labelsWrite', 'Ev.stereoWrite'):
            # the loop over all atoms / bonds *is* the bulk write: one event, not a data-dependent repetition
            guards = [x for x in guards if x != 'Guard.inLoop']
        g = tuple(guards)
        if self.events:
            lg, le = self.events[-1]
            if ev == 'Ev.edit' and le == ev and lg == g:
                return  # merge runs of raw graph writes under the same guards
            if ev in ('Ev.labelsWrite', 'Ev.stereoWrite') and le == ev:
                return  # one event per run of label / stereo mark writes
        self.events.append((g, ev))

    def flag(self, node):
        if isinstance(node, ast.Constant) and isinstance(node.value, bool):
            return 'Flag.yes' if node.value else 'Flag.no'
        if isinstance(node, ast.Name):
            return f'Flag.param {lean_str(node.id)}'
        raise TranslatorError(f'{self.cls}.{self.fn.name}: flag expression {ast.dump(node)}')

    def kw_flags(self, call, names):
        got = {k.arg: self.flag(k.value) for k in call.keywords if k.arg in names}
        return [got.get(n, 'Flag.no') for n in names]

    # -- expressions --------------------------------------------------------------------------
    def expr(self, node, guards):
        """emit events of an expression in (approximate) evaluation order."""
        if node is None:
            return
        if isinstance(node, ast.Call):
            f = node.func
            # self.flush_cache(...)
            if is_self_attr(f, 'flush_cache'):
                for a in node.args + [k.value for k in node.keywords]:
                    self.expr(a, guards)
                ks, kc = self.kw_flags(node, ['keep_sssr', 'keep_components'])
                self.emit(guards, f'Ev.flush ({ks}) ({kc})')
                return
            # self.__dict__.clear() / .pop('k', ..)
            if isinstance(f, ast.Attribute) and is_self_dict(f.value):
                if f.attr == 'clear':
                    self.emit(guards, 'Ev.flushAll')
                    return
                if f.attr == 'pop' and node.args and isinstance(node.args[0], ast.Constant):
                    self.emit(guards, f'Ev.pop {lean_str(node.args[0].value)}')
                    return
                if f.attr in ('items', 'get', 'keys', 'values'):
                    return
                raise TranslatorError(f'{self.cls}.{self.fn.name}: self.__dict__.{f.attr}(...)')
            # super().f(...)
            if isinstance(f, ast.Attribute) and isinstance(f.value, ast.Call) and isinstance(f.value.func, ast.Name) \
                    and f.value.func.id == 'super':
                for a in node.args + [k.value for k in node.keywords]:
                    self.expr(a, guards)
                parent = self.C.resolve(f.attr, start_after=self.cls)
                if parent is None:
                    raise TranslatorError(f'super().{f.attr} not found above {self.cls}')
                if f.attr in MODELLED_NAMES:
                    self.emit(guards, f'Ev.call {lean_str(parent + "." + f.attr)} {self.call_args(node)}')
                return
            # self.f(...) with f modelled
            if is_self_attr(f) and f.attr in MODELLED_NAMES:
                for a in node.args + [k.value for k in node.keywords]:
                    self.expr(a, guards)
                target = self.C.resolve(f.attr)
                self.emit(guards, f'Ev.call {lean_str(target + "." + f.attr)} {self.call_args(node)}')
                return
            # self.copy(keep...) inside `self._backup = ` handled by caller; raw graph mutation through methods
            if isinstance(f, ast.Attribute) and f.attr in ('pop', 'update', 'clear', 'setdefault', 'popitem') \
                    and self.touches_graph(f.value):
                for a in node.args:
                    self.expr(a, guards)
                self.emit(guards, 'Ev.edit')
                return
            self.expr(f, guards)
            for a in node.args + [k.value for k in node.keywords]:
                self.expr(a, guards)
            return
        if is_self_attr(node):
            name = node.attr
            if name == '_changed' or name == '_backup':
                self.emit(guards, 'Ev.changedRead' if name == '_changed' else 'Ev.backupRead')
                return
            m = mangle(self.cls, name)
            hit = self.lookup(m)
            if hit is not None:
                c2, n2 = hit
                dk = self.C.dict_key(c2, n2)
                if dk is not None:
                    self.emit(guards, f'Ev.readC {lean_str(dk)}')
                elif n2 not in MODELLED_NAMES and n2 not in ('copy', 'substructure'):
                    keys, _ = self.reads_of(n2)
                    plain = self.C.kind[(c2, n2)] == 'property' and len(self.C.defs[(c2, n2)].body) <= 2
                    for k in sorted(keys):
                        self.emit(guards if plain else guards + ['Guard.cond'], f'Ev.readC {lean_str(k)}')
            return
        if isinstance(node, (ast.ListComp, ast.SetComp, ast.DictComp, ast.GeneratorExp)):
            self.expr(node.generators[0].iter, guards)  # evaluated once, outside the loop
            inner = guards + ['Guard.inLoop']
            for i, gen in enumerate(node.generators):
                if i:
                    self.expr(gen.iter, inner)
                for c in gen.ifs:
                    self.expr(c, inner)
            for e in ([node.key, node.value] if isinstance(node, ast.DictComp) else [node.elt]):
                self.expr(e, inner)
            return
        for child in ast.iter_child_nodes(node):
            if isinstance(child, (ast.expr, ast.keyword)):
                self.expr(child, guards)

    def call_args(self, call):
        items = []
        for k in call.keywords:
            if k.arg is None:
                continue
            try:
                items.append(f'({lean_str(k.arg)}, {self.flag(k.value)})')
            except TranslatorError:
                continue
        return lean_list(items)

    def touches_graph(self, node):
        """node is (a subscript chain on) self._atoms / self._bonds or u._atoms / u._bonds"""
        while isinstance(node, ast.Subscript):
            node = node.value
        return isinstance(node, ast.Attribute) and node.attr in GRAPH_SLOTS and isinstance(node.value, ast.Name) \
            and node.value.id in ('self', 'u')

    # -- statements ---------------------------------------------------------------------------
    def store_target(self, t, guards, value=None):
        if isinstance(t, ast.Tuple):
            for e in t.elts:
                self.store_target(e, guards)
            return
        if self.touches_graph(t) and not isinstance(t, ast.Name):
            self.emit(guards, 'Ev.edit')
            return
        if isinstance(t, ast.Subscript) and is_self_dict(t.value):
            if isinstance(t.slice, ast.Constant):
                self.emit(guards, f'Ev.dictSet {lean_str(t.slice.value)}')
                return
            raise TranslatorError(f'{self.cls}.{self.fn.name}: self.__dict__[<non-literal>] store')
        if is_self_attr(t, '_changed'):
            if isinstance(value, ast.Constant) and value.value is None:
                self.emit(guards, 'Ev.changedNone')
                return
            raise TranslatorError(f'{self.cls}.{self.fn.name}: self._changed = <unrecognised>')
        if is_self_attr(t, '_backup'):
            if isinstance(value, ast.Constant) and value.value is None:
                self.emit(guards, 'Ev.backupNone')
                return
            if isinstance(value, ast.Call) and is_self_attr(value.func, 'copy'):
                ks, kc = self.kw_flags(value, ['keep_sssr', 'keep_components'])
                self.emit(guards, f'Ev.backupCopy ({ks}) ({kc})')
                return
            raise TranslatorError(f'{self.cls}.{self.fn.name}: self._backup = <unrecognised>')
        if is_self_dict(t):
            raise TranslatorError(f'{self.cls}.{self.fn.name}: self.__dict__ = <unrecognised>')
        if isinstance(t, ast.Attribute) and not is_self_attr(t):
            if t.attr == '_stereo':
                self.emit(guards, 'Ev.stereoWrite')
            elif t.attr in LABEL_SLOTS:
                self.emit(guards, 'Ev.labelsWrite')
            elif t.attr == '_implicit_hydrogens':
                self.emit(guards, 'Ev.hcalc')

    def is_changed_add(self, s):
        """if self._changed is None: self._changed = {..} else: self._changed.add(..)"""
        if not (isinstance(s, ast.If) and isinstance(s.test, ast.Compare) and is_self_attr(s.test.left, '_changed')
                and len(s.test.ops) == 1 and isinstance(s.test.ops[0], ast.Is)
                and isinstance(s.test.comparators[0], ast.Constant) and s.test.comparators[0].value is None):
            return False
        ok_body = all(isinstance(x, ast.Assign) and is_self_attr(x.targets[0], '_changed') and isinstance(x.value, ast.Set)
                      for x in s.body)
        ok_else = bool(s.orelse) and all(
            isinstance(x, ast.Expr) and isinstance(x.value, ast.Call) and isinstance(x.value.func, ast.Attribute)
            and x.value.func.attr == 'add' and is_self_attr(x.value.func.value, '_changed') for x in s.orelse)
        if not (ok_body and ok_else):
            raise TranslatorError(f'{self.cls}.{self.fn.name}: unrecognised `if self._changed is None` shape')
        return True

    def is_changed_attr(self, s):
        """if self._changed is not None: [backup = self._backup._atoms]; self._changed.update(<atoms whose charge / radical
        state differs from the backup>)   -- transaction exit adds the directly edited atoms to the pending set"""
        if not (isinstance(s, ast.If) and ast.unparse(s.test) == 'self._changed is not None' and not s.orelse):
            return False
        body = list(s.body)
        if body and isinstance(body[0], ast.Assign) and ast.unparse(body[0].value) == 'self._backup._atoms':
            body = body[1:]
        if len(body) != 1 or not (isinstance(body[0], ast.Expr) and isinstance(body[0].value, ast.Call)
                                  and isinstance(body[0].value.func, ast.Attribute) and body[0].value.func.attr == 'update'
                                  and is_self_attr(body[0].value.func.value, '_changed')):
            return False
        src = ast.unparse(body[0].value)
        if not ('.charge !=' in src and '.is_radical !=' in src and 'self._atoms' in src and ' in backup' in src):
            raise TranslatorError(f'{self.cls}.{self.fn.name}: unrecognised `_changed.update(...)` at transaction exit')
        return True

    def is_changed_discard(self, s):
        """if self._changed is not None: self._changed.discard(n)"""
        if not (isinstance(s, ast.If) and ast.unparse(s.test) in ('self._changed is not None', 'self._changed')):
            return False
        ok = not s.orelse and all(
            isinstance(x, ast.Expr) and isinstance(x.value, ast.Call) and isinstance(x.value.func, ast.Attribute)
            and x.value.func.attr == 'discard' and is_self_attr(x.value.func.value, '_changed') for x in s.body)
        if not ok:
            raise TranslatorError(f'{self.cls}.{self.fn.name}: unrecognised `if self._changed is not None` shape')
        return True

    def is_calc_guard(self, test):
        src = ast.unparse(test)
        return '_skip_calculation' in src and 'self._backup is None' in src

    def is_special8(self, test):
        src = ast.unparse(test)
        return src.endswith('== 8') or src.endswith('!= 8')

    def stmts(self, body, guards):
        guards = list(guards)
        for s in body:
            if isinstance(s, ast.Expr) and isinstance(s.value, ast.Constant):
                continue  # docstring
            if isinstance(s, ast.If):
                if self.is_changed_add(s):
                    self.emit(guards, 'Ev.changedAdd')
                    continue
                if self.is_changed_attr(s):
                    self.emit(guards, 'Ev.changedAttr')
                    continue
                if self.is_changed_discard(s):
                    self.emit(guards, 'Ev.changedDiscard')
                    continue
                if self.is_calc_guard(s.test):
                    self.stmts(s.body, guards + ['Guard.ifCalc'])
                    if s.orelse:
                        raise TranslatorError('else branch of calculation guard')
                    continue
                if self.is_special8(s.test):
                    self.expr(s.test, guards)
                    src = ast.unparse(s.test)
                    if src.endswith('== 8') and s.body and isinstance(s.body[-1], (ast.Return, ast.Continue)) and not s.orelse:
                        self.stmts(s.body[:-1], guards + ['Guard.isSpecial'])
                        guards = guards + ['Guard.notSpecial']  # rest of this block only for non-special bonds
                        continue
                    if src.endswith('!= 8'):
                        self.stmts(s.body, guards + ['Guard.notSpecial'])
                        self.stmts(s.orelse, guards + ['Guard.isSpecial'])
                        continue
                if self.fn.name == '__exit__' and isinstance(s.test, ast.Name) and s.test.id == 'exc_type':
                    if self.variant == 'exc':
                        self.restore(s.body, guards)
                    else:
                        self.stmts(s.orelse, guards)
                    continue
                t = s.test
                neg = False
                if isinstance(t, ast.UnaryOp) and isinstance(t.op, ast.Not):
                    t, neg = t.operand, True
                if isinstance(t, ast.Name) and t.id in self.params:
                    g = f'Guard.ifParam {lean_str(t.id)} {"true" if neg else "false"}'
                    g2 = f'Guard.ifParam {lean_str(t.id)} {"false" if neg else "true"}'
                    self.stmts(s.body, guards + [g])
                    self.stmts(s.orelse, guards + [g2])
                    continue
                self.expr(s.test, guards)
                self.stmts(s.body, guards + ['Guard.cond'])
                self.stmts(s.orelse, guards + ['Guard.cond'])
                continue
            if isinstance(s, (ast.For, ast.While)):
                if isinstance(s, ast.For):
                    # hydrogen recalculation loop
                    src = ast.unparse(s.iter)
                    if 'self._changed' in src and len(s.body) == 1 and 'calc_implicit' in ast.unparse(s.body[0]):
                        self.emit(guards, 'Ev.hcalc')
                        continue
                    self.expr(s.iter, guards)
                else:
                    self.expr(s.test, guards + ['Guard.inLoop'])
                self.stmts(s.body, guards + ['Guard.inLoop'])
                self.stmts(s.orelse, guards + ['Guard.cond'])
                continue
            if isinstance(s, ast.Try):
                self.stmts(s.body, guards)
                for h in s.handlers:
                    self.stmts(h.body, guards + ['Guard.cond'])
                self.stmts(s.orelse, guards + ['Guard.cond'])
                self.stmts(s.finalbody, guards)
                continue
            if isinstance(s, ast.With):
                self.stmts(s.body, guards)
                continue
            if isinstance(s, ast.Assign):
                self.expr(s.value, guards)
                for t in s.targets:
                    self.store_target(t, guards, s.value)
                continue
            if isinstance(s, ast.AugAssign):
                self.expr(s.value, guards)
                self.store_target(s.target, guards, None)
                continue
            if isinstance(s, ast.AnnAssign):
                self.expr(s.value, guards)
                self.store_target(s.target, guards, s.value)
                continue
            if isinstance(s, ast.Delete):
                for t in s.targets:
                    if self.touches_graph(t):
                        self.emit(guards, 'Ev.edit')
                    elif isinstance(t, ast.Subscript) and is_self_dict(t.value) and isinstance(t.slice, ast.Constant):
                        self.emit(guards, f'Ev.pop {lean_str(t.slice.value)}')
                    elif isinstance(t, ast.Subscript) and is_self_dict(t.value):
                        raise TranslatorError('del self.__dict__[<non-literal>]')
                continue
            if isinstance(s, (ast.Return, ast.Expr)):
                self.expr(s.value, guards)
                continue
            if isinstance(s, ast.Raise):
                continue
            if isinstance(s, (ast.Pass, ast.Continue, ast.Break, ast.Import, ast.ImportFrom, ast.Assert, ast.Global,
                              ast.Nonlocal, ast.FunctionDef)):
                continue
            raise TranslatorError(f'{self.cls}.{self.fn.name}: statement {type(s).__name__}')

    def restore(self, body, guards):
        slots = []
        for s in body:
            if isinstance(s, ast.Assign) and len(s.targets) == 1 and is_self_attr(s.targets[0]) \
                    and isinstance(s.value, ast.Attribute) and isinstance(s.value.value, ast.Name) \
                    and s.value.value.id == 'backup':
                if s.value.attr != s.targets[0].attr:
                    raise TranslatorError('__exit__ restores a slot from a different slot')
                slots.append(s.targets[0].attr)
            elif isinstance(s, ast.Assign) and isinstance(s.targets[0], ast.Name) and is_self_attr(s.value, '_backup'):
                self.emit(guards, 'Ev.backupRead')
            elif isinstance(s, ast.Expr) and isinstance(s.value, ast.Constant):
                continue
            else:
                # anything else in the restore branch is handled as ordinary statements
                self.emit(guards, f'Ev.restore {lean_list(map(lean_str, slots))}') if slots else None
                slots = []
                self.stmts([s], guards)
        if slots:
            self.emit(guards, f'Ev.restore {lean_list(map(lean_str, slots))}')

    def run(self):
        self.stmts(self.fn.body, [])
        return self.events


def new_object_slots(fn, var):
    """slots assigned on the freshly created object `var` inside fn (ordered, unique)."""
    slots = []
    for node in ast.walk(fn):
        if isinstance(node, ast.Assign):
            for t in node.targets:
                if isinstance(t, ast.Attribute) and isinstance(t.value, ast.Name) and t.value.id == var:
                    if t.attr not in slots:
                        slots.append(t.attr)
    return slots


def keep_lists(fn):
    """literal key tuples guarded by `if keep_sssr:` / `if keep_components:` in flush_cache / copy."""
    res = {'keep_sssr': None, 'keep_components': None}
    for s in ast.walk(fn):
        if isinstance(s, ast.If) and isinstance(s.test, ast.Name) and s.test.id in res:
            keys = []
            for node in ast.walk(s):
                if isinstance(node, ast.Compare) and isinstance(node.ops[0], ast.In):
                    c = node.comparators[0]
                    if isinstance(c, ast.Tuple) and all(isinstance(e, ast.Constant) for e in c.elts):
                        keys += [e.value for e in c.elts]
                    elif isinstance(node.left, ast.Constant) and is_self_dict(c):
                        keys.append(node.left.value)
            if not keys:
                raise TranslatorError(f'{fn.name}: no literal key list under `if {s.test.id}`')
            res[s.test.id] = keys
    if None in res.values():
        raise TranslatorError(f'{fn.name}: keep_sssr/keep_components branches not found')
    return res


def meta_copy_kind(fn, var, where):
    """how `<var>._meta` of the new object is produced: it must be `None` for `None` and a *new* dict otherwise.
    Recognised: `if self._meta is None: v._meta = None  else: v._meta = self._meta.copy()` (statement or conditional
    expression, also `dict(self._meta)` / `{**self._meta}`).  Anything else (e.g. `self._meta and self._meta.copy()`, which
    hands out the source's own dict when it is empty) is not guessed."""
    def fresh(v):
        src = ast.unparse(v)
        return src in ('self._meta.copy()', 'dict(self._meta)', '{**self._meta}', 'copy(self._meta)')

    def is_none(v):
        return isinstance(v, ast.Constant) and v.value is None

    found = False
    for node in ast.walk(fn):
        if isinstance(node, ast.Assign) and any(isinstance(t, ast.Attribute) and t.attr == '_meta' and isinstance(t.value, ast.Name)
                                                and t.value.id == var for t in node.targets):
            found = True
            v = node.value
            ok = False
            if isinstance(v, ast.IfExp) and ast.unparse(v.test) in ('self._meta is None', 'self._meta is not None'):
                a, b = (v.body, v.orelse) if 'not' not in ast.unparse(v.test) else (v.orelse, v.body)
                ok = is_none(a) and fresh(b)
            elif is_none(v) or fresh(v):
                # must sit under the matching branch of `if self._meta is None`
                ok = any(isinstance(i, ast.If) and ast.unparse(i.test) == 'self._meta is None'
                         and any(x is node for x in ast.walk(i)) for i in ast.walk(fn))
                if var == 'sub':
                    ok = ok or is_none(v)     # substructure starts without metadata
            if not ok:
                raise TranslatorError(f'{where}: `{ast.unparse(node)}` is not a recognised way to give the copy its own metadata')
    if not found:
        raise TranslatorError(f'{where}: the new object gets no _meta')
    return True


def bulk_sites(C):
    """every self.flush_cache(...) call of the package outside the modelled methods: (file, function, flags)."""
    sites = []
    modelled_files = {}
    for p in sorted((REPO / 'chython').rglob('*.py')):
        if '/test' in str(p):
            continue
        try:
            tree = ast.parse(p.read_text())
        except SyntaxError as e:
            raise TranslatorError(f'{p}: {e}')
        for cls in [n for n in ast.walk(tree) if isinstance(n, ast.ClassDef)]:
            for fn in [n for n in cls.body if isinstance(n, ast.FunctionDef)]:
                if (cls.name, fn.name) in MODELLED or fn.name == 'flush_cache':
                    continue
                for node in ast.walk(fn):
                    if isinstance(node, ast.Call) and isinstance(node.func, ast.Attribute) and node.func.attr == 'flush_cache' \
                            and isinstance(node.func.value, ast.Name) and node.func.value.id in ('self', 'molecule'):
                        kw = {k.arg: k.value for k in node.keywords}
                        if 'keep_molecule_cache' in kw:
                            continue  # ReactionContainer.flush_cache
                        fl = []
                        for name in ('keep_sssr', 'keep_components'):
                            v = kw.get(name)
                            if v is None:
                                fl.append('Flag.no')
                            elif isinstance(v, ast.Constant):
                                fl.append('Flag.yes' if v.value else 'Flag.no')
                            elif isinstance(v, ast.Name):
                                fl.append(f'Flag.param {lean_str(v.id)}')
                            else:
                                raise TranslatorError(f'{p}:{node.lineno}: flag expression')
                        sites.append((str(p.relative_to(REPO)), f'{cls.name}.{fn.name}', fl[0], fl[1]))
    return sites


def _has_self(e):
    """the expression is `self` or a literal collection / comprehension / conditional that contains `self`"""
    if isinstance(e, ast.Name) and e.id == 'self':
        return True
    if isinstance(e, (ast.List, ast.Tuple, ast.Set)):
        return any(_has_self(x) for x in e.elts)
    if isinstance(e, (ast.ListComp, ast.GeneratorExp, ast.SetComp)):
        return _has_self(e.elt)
    if isinstance(e, ast.IfExp):
        return _has_self(e.body) or _has_self(e.orelse)
    if isinstance(e, ast.Starred):
        return _has_self(e.value)
    return False


def returns_self(C):
    """every method of every class in the MRO that hands out the object itself: `return self` / `yield self` / a collection
    containing self, or binds it to a local that may be returned (`u = self.copy() if copy else self`)."""
    out = []
    for (cls, name), fn in sorted(C.defs.items()):
        for s in ast.walk(fn):
            if isinstance(s, (ast.Return, ast.Yield, ast.YieldFrom)) and s.value is not None and _has_self(s.value):
                out.append(f'{cls}.{name}')
            elif isinstance(s, (ast.Assign, ast.AnnAssign)) and s.value is not None and _has_self(s.value):
                t = s.targets[0] if isinstance(s, ast.Assign) else s.target
                if isinstance(t, ast.Name):
                    out.append(f'{cls}.{name}#{t.id}')
            elif isinstance(s, ast.NamedExpr) and _has_self(s.value):
                out.append(f'{cls}.{name}#{s.target.id}')
    return sorted(set(out))


def split_shape(C):
    """`split` must be exactly: return [self.substructure(c, recalculate_hydrogens=False) for c in self.connected_components]
    (the correspondence expands a real `split()` into that sequence of modelled operations)."""
    fn = C.defs.get(('MoleculeContainer', 'split'))
    if fn is None:
        raise TranslatorError('MoleculeContainer.split not found')
    body = [s for s in fn.body if not (isinstance(s, ast.Expr) and isinstance(s.value, ast.Constant))]
    want = 'return [self.substructure(c, recalculate_hydrogens=False) for c in self.connected_components]'
    if len(body) != 1 or not isinstance(body[0], ast.Return) or not isinstance(body[0].value, ast.ListComp):
        raise TranslatorError(f'MoleculeContainer.split: unrecognised shape `{ast.unparse(fn)[-200:]}`')
    lc = body[0].value
    g = lc.generators[0]
    ok = (len(lc.generators) == 1 and not g.ifs and isinstance(g.target, ast.Name) and is_self_attr(g.iter, 'connected_components')
          and isinstance(lc.elt, ast.Call) and is_self_attr(lc.elt.func, 'substructure') and len(lc.elt.args) == 1
          and isinstance(lc.elt.args[0], ast.Name) and lc.elt.args[0].id == g.target.id
          and [(k.arg, getattr(k.value, 'value', '?')) for k in lc.elt.keywords] == [('recalculate_hydrogens', False)])
    if not ok:
        raise TranslatorError(f'MoleculeContainer.split: `{ast.unparse(body[0])}` is not `{want}`')
    return True


WRAPPERS = [('MoleculeContainer', 'augmented_substructure', 'substructure'), ('MoleculeContainer', 'augmented_substructures', 'substructure'),
            ('MoleculeContainer', 'split', 'substructure'), ('MoleculeContainer', '__and__', 'substructure'),
            ('MoleculeContainer', '__sub__', 'substructure'), ('Graph', '__copy__', 'copy'), ('Graph', '__or__', 'union'),
            ('Graph', '__ior__', 'union')]


def wrapper_delegation(C):
    """the derived constructors: every value they return is a call of the modelled constructor on `self` (or a list
    comprehension of such calls); anything else is not understood."""
    out = []
    for cls, name, prim in WRAPPERS:
        fn = C.defs.get((cls, name))
        if fn is None:
            raise TranslatorError(f'derived constructor {cls}.{name} not found')
        rets = [s for s in ast.walk(fn) if isinstance(s, ast.Return)]
        if not rets:
            raise TranslatorError(f'{cls}.{name}: no return')
        for r in rets:
            v = r.value
            if isinstance(v, ast.ListComp):
                v = v.elt
            if not (isinstance(v, ast.Call) and is_self_attr(v.func, prim)):
                raise TranslatorError(f'{cls}.{name}: `{ast.unparse(r)}` does not return self.{prim}(...)')
        out.append((f'{cls}.{name}', prim))
    return out


def extract():
    C = Classes()
    direct, reads_of, lookup = helper_reads(C)
    # cached keys
    cached = []
    key_reads, key_raw = [], []
    for cname in C.order:
        for (c, name), kind in C.kind.items():
            if c != cname or C.resolve(name) != c:
                continue
            dk = C.dict_key(c, name)
            if dk is None:
                continue
            cached.append(dk)
            keys, raw = reads_of(name)
            key_reads.append((dk, sorted(k for k in keys if k != dk)))
            key_raw.append((dk, sorted(raw)))
    order = sorted(range(len(cached)), key=lambda i: cached[i])
    cached = [cached[i] for i in order]
    key_reads = [key_reads[i] for i in order]
    key_raw = [key_raw[i] for i in order]

    fns = []
    for cls, name in MODELLED:
        fn = C.defs.get((cls, name))
        if fn is None:
            raise TranslatorError(f'modelled method {cls}.{name} not found')
        variants = [('exc', '#exc'), ('ok', '#ok')] if name == '__exit__' else [(None, '')]
        for variant, suffix in variants:
            ex = FnExtractor(C, cls, fn, reads_of, lookup, variant)
            evs = ex.run()
            fns.append((f'{cls}.{name}{suffix}', sorted(ex.params.items()), evs))

    mc_flush = keep_lists(C.defs[('MoleculeContainer', 'flush_cache')])
    mc_copy = keep_lists(C.defs[('MoleculeContainer', 'copy')])
    init_slots = new_object_slots(C.defs[('Graph', '__init__')], 'self') + \
        new_object_slots(C.defs[('MoleculeContainer', '__init__')], 'self')
    copy_slots = new_object_slots(C.defs[('Graph', 'copy')], 'copy') + \
        [s for s in new_object_slots(C.defs[('MoleculeContainer', 'copy')], 'copy')]
    sub_slots = new_object_slots(C.defs[('MoleculeContainer', 'substructure')], 'sub')
    gcopy_src = ast.unparse(C.defs[('Graph', 'copy')])
    atoms_deep = 'atom.copy(' in gcopy_src
    bonds_deep = 'bond.copy(' in gcopy_src
    sub_src = ast.unparse(C.defs[('MoleculeContainer', 'substructure')])
    sub_atoms_deep = '].copy(' in sub_src or 'atom.copy(' in sub_src
    sub_bonds_deep = 'bond.copy(' in sub_src
    sub_calls = [n.func.attr for n in ast.walk(C.defs[('MoleculeContainer', 'substructure')])
                 if isinstance(n, ast.Call) and isinstance(n.func, ast.Attribute) and isinstance(n.func.value, ast.Name)
                 and n.func.value.id == 'sub']
    meta_copied = meta_copy_kind(C.defs[('MoleculeContainer', 'copy')], 'copy', 'MoleculeContainer.copy')
    import chython.containers.reaction as rmod
    rtree = ast.parse(Path(rmod.__file__).read_text())
    rcopy = [f for c in ast.walk(rtree) if isinstance(c, ast.ClassDef) and c.name == 'ReactionContainer'
             for f in c.body if isinstance(f, ast.FunctionDef) and f.name == 'copy']
    if not rcopy:
        raise TranslatorError('ReactionContainer.copy not found')
    reaction_meta_copied = meta_copy_kind(rcopy[0], 'copy', 'ReactionContainer.copy')
    rsrc = ast.unparse(rcopy[0])
    reaction_mols_copied = rsrc.count('x.copy()') >= 3 or rsrc.count('.copy(') >= 4

    # Element.copy: does the copy get the same Vector object?
    import chython.periodictable.base.element as elmod
    etree = ast.parse(Path(elmod.__file__).read_text())
    shares = None
    ecopy_slots = []
    for node in ast.walk(etree):
        if isinstance(node, ast.ClassDef) and node.name == 'Element':
            for f in node.body:
                if isinstance(f, ast.FunctionDef) and f.name == 'copy':
                    for s in ast.walk(f):
                        if isinstance(s, ast.Assign) and isinstance(s.targets[0], ast.Attribute) \
                                and isinstance(s.targets[0].value, ast.Name) and s.targets[0].value.id == 'copy':
                            if s.targets[0].attr not in ecopy_slots:
                                ecopy_slots.append(s.targets[0].attr)
                            if s.targets[0].attr == '_xy':
                                v = s.value
                                shares = isinstance(v, ast.Attribute) and isinstance(v.value, ast.Name) and v.value.id == 'self'
    if shares is None:
        raise TranslatorError('Element.copy: assignment of _xy not found')
    return dict(cached=cached, key_reads=key_reads, key_raw=key_raw, fns=fns, mc_flush=mc_flush, mc_copy=mc_copy,
                init_slots=init_slots, copy_slots=copy_slots, sub_slots=sub_slots, atoms_deep=atoms_deep,
                bonds_deep=bonds_deep, sub_atoms_deep=sub_atoms_deep, sub_bonds_deep=sub_bonds_deep, sub_calls=sub_calls,
                meta_copied=meta_copied, reaction_meta_copied=reaction_meta_copied,
                reaction_mols_copied=reaction_mols_copied, shares_xy=shares, ecopy_slots=ecopy_slots, bulk=bulk_sites(C),
                returns_self=returns_self(C), split_per_component=split_shape(C), wrappers=wrapper_delegation(C))


def render(d, data_only_namespace=None):
    """Lean text. `data_only_namespace`: emit only the data definitions into that namespace (types come from the
    regenerated module) — used once to freeze the pre-fix tables for Findings/C13Old.lean."""
    L = []
    w = L.append
    if data_only_namespace:
        text = render(d)
        body = text[text.index('def cachedKeys'):text.rindex('end ChythonModel.Gen.CacheEffects')]
        return ('import ChythonModel.Gen.CacheEffects\n/- FROZEN copy of the effect tables of /repo before the C13 fix: commits '
                '(generated once by gen_effects from that tree). -/\n'
                f'namespace {data_only_namespace}\nopen ChythonModel.Gen.CacheEffects\n\n' + body +
                f'end {data_only_namespace}\n')
    w('/- GENERATED by harness/gen/gen_effects.py from the source text of /repo on every run — do not edit. -/')
    w('namespace ChythonModel.Gen.CacheEffects')
    w('')
    w('inductive Flag where | yes | no | param (p : String) deriving DecidableEq, Repr, Inhabited')
    w('/-- `ifParam p neg`: executed iff boolean parameter `p` is `!neg`. `cond`/`inLoop`: data dependent. -/')
    w('inductive Guard where | ifCalc | ifParam (p : String) (neg : Bool) | inLoop | notSpecial | isSpecial | cond')
    w('  deriving DecidableEq, Repr, Inhabited')
    w('inductive Ev where')
    w('  | edit | call (f : String) (args : List (String × Flag)) | flushAll | flush (kS kC : Flag)')
    w('  | pop (k : String) | dictSet (k : String) | readC (k : String)')
    w('  | changedAdd | changedDiscard | changedAttr | changedNone | changedRead | backupRead | backupCopy (kS kC : Flag) | backupNone')
    w('  | restore (slots : List String) | hcalc | labelsWrite | stereoWrite')
    w('  deriving DecidableEq, Repr, Inhabited')
    w('structure GEv where')
    w('  gs : List Guard')
    w('  e : Ev')
    w('  deriving DecidableEq, Repr, Inhabited')
    w('structure Fn where')
    w('  name : String')
    w('  params : List (String × Bool)')
    w('  evs : List GEv')
    w('  deriving DecidableEq, Repr, Inhabited')
    w('')
    w(f'def cachedKeys : List String := {lean_list(map(lean_str, d["cached"]))}')
    w('')
    w('/-- per cached key: cached keys read or stored while computing it (direct, through plain helpers) -/')
    w('def keyReads : List (String × List String) := [')
    w(',\n'.join(f'  ({lean_str(k)}, {lean_list(map(lean_str, v))})' for k, v in d['key_reads']))
    w(']')
    w('')
    w('/-- per cached key: raw `self._slot` names read while computing it -/')
    w('def keyRaw : List (String × List String) := [')
    w(',\n'.join(f'  ({lean_str(k)}, {lean_list(map(lean_str, v))})' for k, v in d['key_raw']))
    w(']')
    w('')
    w('def fns : List Fn := [')
    items = []
    for name, params, evs in d['fns']:
        ps = lean_list(f'({lean_str(p)}, {"true" if v else "false"})' for p, v in params)
        es = ',\n      '.join(f'⟨{lean_list(g)}, {e}⟩' for g, e in evs)
        items.append(f'  ⟨{lean_str(name)}, {ps}, [\n      {es}]⟩')
    w(',\n'.join(items))
    w(']')
    w('')
    w(f'def flushKeepSssr : List String := {lean_list(map(lean_str, d["mc_flush"]["keep_sssr"]))}')
    w(f'def flushKeepComponents : List String := {lean_list(map(lean_str, d["mc_flush"]["keep_components"]))}')
    w(f'def copyKeepSssr : List String := {lean_list(map(lean_str, d["mc_copy"]["keep_sssr"]))}')
    w(f'def copyKeepComponents : List String := {lean_list(map(lean_str, d["mc_copy"]["keep_components"]))}')
    w(f'def initSlots : List String := {lean_list(map(lean_str, d["init_slots"]))}')
    w(f'def copySlots : List String := {lean_list(map(lean_str, d["copy_slots"]))}')
    w(f'def subSlots : List String := {lean_list(map(lean_str, d["sub_slots"]))}')
    w(f'def subCalls : List String := {lean_list(map(lean_str, d["sub_calls"]))}')
    w(f'def elementCopySlots : List String := {lean_list(map(lean_str, d["ecopy_slots"]))}')
    b = lambda x: 'true' if x else 'false'
    w(f'def copyAtomsDeep : Bool := {b(d["atoms_deep"])}')
    w(f'def copyBondsDeep : Bool := {b(d["bonds_deep"])}')
    w(f'def subAtomsDeep : Bool := {b(d["sub_atoms_deep"])}')
    w(f'def subBondsDeep : Bool := {b(d["sub_bonds_deep"])}')
    w(f'def copyMetaCopied : Bool := {b(d["meta_copied"])}')
    w(f'def reactionCopyMetaCopied : Bool := {b(d.get("reaction_meta_copied", True))}')
    w(f'def reactionCopyMoleculesCopied : Bool := {b(d.get("reaction_mols_copied", True))}')
    w(f'def elementCopySharesXY : Bool := {b(d["shares_xy"])}')
    w('')
    w('/-- every method of the classes in `MoleculeContainer.__mro__` that hands out the object itself (`return self`, a collection')
    w('containing `self`, or a local bound to `self`: `Class.method#local`) -/')
    w(f'def returnsSelf : List String := {lean_list(map(lean_str, d.get("returns_self", [])))}')
    w('/-- `split` is literally `[self.substructure(c, recalculate_hydrogens=False) for c in self.connected_components]` -/')
    w(f'def splitPerComponent : Bool := {b(d.get("split_per_component", True))}')
    w('/-- derived constructors and the modelled constructor each of their return values is a call of -/')
    w('def derivedConstructors : List (String × String) := [' +
      ', '.join(f'({lean_str(a)}, {lean_str(p)})' for a, p in d.get('wrappers', [])) + ']')
    w('')
    w('/-- every other `flush_cache(...)` call site of the package: (file, Class.method, keep_sssr, keep_components) -/')
    w('def bulkSites : List (String × String × Flag × Flag) := [')
    w(',\n'.join(f'  ({lean_str(f)}, {lean_str(fn)}, {a}, {c})' for f, fn, a, c in d['bulk']))
    w(']')
    w('')
    w('end ChythonModel.Gen.CacheEffects')
    return '\n'.join(L) + '\n'


def generate():
    d = extract()
    write_if_changed(OUT, render(d))
    return OUT, d


if __name__ == '__main__':
    p, d = generate()
    print(p)
