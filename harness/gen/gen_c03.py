"""Translator for C03: literal tables and character classes of the SMILES reader -> Gen/C03Tables.lean.

Re-extracted from /repo's working tree on every run:
  * `charge_dict`, `replace_dict`, `not_dict` (module dicts of tokenize.py, dict order kept);
  * `atom_re` parsed with CPython's own regex parser into the restricted normal form
    "sequence of (optional) capture groups, each a sequence of (character class, min, max)";
    anything outside that form is a hard translator error (never guessed);
  * the single-character classes tested by `_tokenize` (`s in '0123456789'`, `'=#:-~'`, `r'\\/'`, `'NOPSFI'`, `'cnopsb'`, `'CB'`)
    taken from the AST of the function in source order;
  * the tuple of aromatic bracket symbols tested by `_atom_parse`;
  * element symbol -> (atomic number, isotope keys) for `Element.from_symbol` + the isotope setter;
  * the two CXSMILES regex sources: these are modelled by hand in Lean, so the translator only checks that
    the patterns are the ones that were modelled (else: translator error).
"""
import ast
import sys

from ..core import LEAN, REPO, write_if_changed

CX_FRAGMENTS = r'f:(?:[0-9]+(?:\.[0-9]+)+)(?:,(?:[0-9]+(?:\.[0-9]+)+))*'
CX_RADICALS = r'\^[1-7]:[0-9]+(?:,[0-9]+)*'


class UnknownSyntax(Exception):
    pass


def _chars(s):
    return '[' + ', '.join(str(ord(c)) for c in s) + ']'


def _int(i):
    return f'({i})' if i < 0 else str(i)


def _cls(item):
    """IN / LITERAL node -> list of inclusive codepoint ranges"""
    import re._constants as sc
    op, av = item
    if op is sc.LITERAL:
        return [(av, av)]
    if op is sc.IN:
        out = []
        for o, a in av:
            if o is sc.RANGE:
                out.append((a[0], a[1]))
            elif o is sc.LITERAL:
                out.append((a, a))
            else:
                raise UnknownSyntax(f'character class item {o}')
        return out
    raise UnknownSyntax(f'not a character class: {op}')


def _items(seq):
    """body of a group -> [(ranges, min, max)]"""
    import re._constants as sc
    out = []
    for op, av in seq:
        if op in (sc.LITERAL, sc.IN):
            out.append((_cls((op, av)), 1, 1))
        elif op is sc.MAX_REPEAT:
            lo, hi, body = av
            body = list(body)
            if len(body) != 1 or hi > 9:
                raise UnknownSyntax(f'repeat body {body}')
            out.append((_cls(body[0]), lo, hi))
        elif op is sc.BRANCH:
            # only the form  x|<empty>  (what `(@@|@)` is factored into)
            branches = [list(b) for b in av[1]]
            if len(branches) == 2 and len(branches[0]) == 1 and branches[1] == []:
                out.append((_cls(branches[0][0]), 0, 1))
            else:
                raise UnknownSyntax(f'branch {branches}')
        else:
            raise UnknownSyntax(f'regex node {op}')
    return out


def atom_re_groups(pattern):
    import re._parser as sp
    import re._constants as sc
    groups = []
    for op, av in sp.parse(pattern):
        optional = False
        if op is sc.MAX_REPEAT:
            lo, hi, body = av
            body = list(body)
            if (lo, hi) != (0, 1) or len(body) != 1:
                raise UnknownSyntax(f'top-level repeat {av}')
            optional = True
            op, av = body[0]
        if op is not sc.SUBPATTERN:
            raise UnknownSyntax(f'top-level node {op}')
        idx, add, dele, body = av
        if add or dele:
            raise UnknownSyntax('group flags')
        groups.append((idx, optional, _items(list(body))))
    if [g[0] for g in groups] != list(range(1, len(groups) + 1)):
        raise UnknownSyntax('capture groups are not 1..n in order')
    return groups


def tokenize_char_classes(src):
    """string constants `s in '<chars>'` inside _tokenize, in source order"""
    tree = ast.parse(src)
    fn = next(n for n in tree.body if isinstance(n, ast.FunctionDef) and n.name == '_tokenize')
    out = []
    for node in ast.walk(fn):
        if (isinstance(node, ast.Compare) and isinstance(node.left, ast.Name) and node.left.id == 's'
                and len(node.ops) == 1 and isinstance(node.ops[0], ast.In)
                and isinstance(node.comparators[0], ast.Constant) and isinstance(node.comparators[0].value, str)):
            out.append((node.lineno, node.col_offset, node.comparators[0].value))
    out.sort()
    return [v for _, _, v in out]


def aromatic_bracket_symbols(src):
    tree = ast.parse(src)
    fn = next(n for n in tree.body if isinstance(n, ast.FunctionDef) and n.name == '_atom_parse')
    for node in ast.walk(fn):
        if (isinstance(node, ast.Compare) and isinstance(node.left, ast.Name) and node.left.id == 'element'
                and isinstance(node.ops[0], ast.In) and isinstance(node.comparators[0], ast.Tuple)):
            return [e.value for e in node.comparators[0].elts]
    raise UnknownSyntax('aromatic symbol tuple of _atom_parse not found')


def generate():
    import importlib
    T = importlib.import_module('chython.files.daylight.tokenize')
    importlib.import_module('chython.files.daylight.smiles')
    S = sys.modules['chython.files.daylight.smiles']
    from chython.periodictable import Element
    src = (REPO / 'chython/files/daylight/tokenize.py').read_text()

    if S.cx_fragments.pattern != CX_FRAGMENTS or S.cx_radicals.pattern != CX_RADICALS:
        raise UnknownSyntax('CXSMILES regexes differ from the hand-modelled ones')
    groups = atom_re_groups(T.atom_re.pattern)
    classes = tokenize_char_classes(src)
    if len(classes) != 6:
        raise UnknownSyntax(f'_tokenize: expected 6 character-class tests, found {classes}')
    arom = aromatic_bracket_symbols(src)
    for d in (T.charge_dict, T.replace_dict, T.not_dict):
        if not all(isinstance(k, str) for k in d):
            raise UnknownSyntax('dict keys')

    L = ['-- GENERATED by harness/gen/gen_c03.py from /repo (chython/files/daylight/tokenize.py, chython.periodictable).',
         '-- Do not edit: rewritten on every check run.',
         'namespace ChythonModel.Gen.C03', '',
         '/-- `charge_dict` in dict order: spelling (codepoints) ↦ charge -/',
         'def chargeDict : List (List Nat × Int) := [' +
         ', '.join(f'({_chars(k)}, {_int(v)})' for k, v in T.charge_dict.items()) + ']', '',
         '/-- `replace_dict`: bond symbol ↦ order -/',
         'def replaceDict : List (Nat × Nat) := [' +
         ', '.join(f'({ord(k)}, {v})' for k, v in T.replace_dict.items()) + ']', '',
         '/-- `not_dict`: bond symbol ↦ complementary orders -/',
         'def notDict : List (Nat × List Nat) := [' +
         ', '.join(f'({ord(k)}, [{", ".join(map(str, v))}])' for k, v in T.not_dict.items()) + ']', '',
         '/-- character classes tested by `_tokenize`, in source order -/',
         f'def digitChars : List Nat := {_chars(classes[0])}',
         f'def bondChars : List Nat := {_chars(classes[1])}',
         f'def slashChars : List Nat := {_chars(classes[2])}',
         f'def organicChars : List Nat := {_chars(classes[3])}',
         f'def aromaticChars : List Nat := {_chars(classes[4])}',
         f'def clBrChars : List Nat := {_chars(classes[5])}', '',
         '/-- lower-case bracket symbols that `_atom_parse` marks aromatic (type 8) -/',
         'def aromaticBracket : List (List Nat) := [' + ', '.join(_chars(a) for a in arom) + ']', '',
         '/-- `atom_re` in normal form: per capture group (optional?, items); item = (inclusive codepoint ranges, min, max) -/',
         'def atomRe : List (Bool × List (List (Nat × Nat) × Nat × Nat)) := [']
    rows = []
    for idx, opt, items in groups:
        its = ', '.join('([' + ', '.join(f'({a}, {b})' for a, b in rng) + f'], {lo}, {hi})' for rng, lo, hi in items)
        rows.append(f'  ({"true" if opt else "false"}, [{its}])')
    L.append(',\n'.join(rows) + ']')
    L += ['', '/-- `Element.__subclasses__()` order: symbol, atomic number, keys of `isotopes_distribution` -/',
          'def elements : List (List Nat × Nat × List Nat) := [']
    rows = []
    for cls in Element.__subclasses__():
        z = cls.atomic_number.fget(None)
        iso = [int(k) for k in cls.isotopes_distribution.fget(None)]
        rows.append(f'  ({_chars(cls.__name__)}, {z}, [{", ".join(map(str, iso))}])')
    L.append(',\n'.join(rows) + ']')
    L += ['', 'end ChythonModel.Gen.C03', '']
    path = LEAN / 'ChythonModel' / 'Gen' / 'C03Tables.lean'
    write_if_changed(path, '\n'.join(L))
    return path
