"""Translator for C09 (memory part): regenerates lean/ChythonModel/Gen/C09Alloc.lean from the text of
/repo/chython/algorithms/_isomorphism.pyx on every run.

`get_mapping` allocates five C arrays with `PyMem_Malloc(<count expression> * sizeof(<element type>))` and zero-fills two of them with
`memset(<array>, 0, <count expression> * sizeof(<element type>))`. The element counts are translated into Lean functions of
`qn = query.atoms_count` and `mn = molecule.atoms_count` (natural-number arithmetic; `q_decrement` is resolved through its own
assignment `q_decrement = query.atoms_count - 1`). The model of the matcher (`Model/C09Arrays.lean`) guards every access to these
arrays with the regenerated sizes and `Props/C09.lean: compiled_matcher_memory_safe` proves no guard ever fails.

Anything that is not `+ - *` over integer literals and the three known names, an array that is allocated twice or not at all, a
`sizeof` of a type other than the declared element type, or a memset shorter / longer than the allocation raises TranslatorError
(never guessed).
"""
import re

from ..core import LEAN, REPO, write_if_changed

ARRAYS = ('path', 'stack_index', 'stack_depth', 'matched', 'closures')
LEAN_NAMES = {'path': 'allocPath', 'stack_index': 'allocStackIndex', 'stack_depth': 'allocStackDepth', 'matched': 'allocMatched',
              'closures': 'allocClosures'}
NAMES = {'query.atoms_count': 'qn', 'molecule.atoms_count': 'mn'}


class TranslatorError(Exception):
    pass


def _tokens(expr):
    toks = re.findall(r'\s*(sizeof\([^)]*\)|[A-Za-z_][\w.]*|\d+|[-+*()])', expr)
    if ''.join(toks).replace(' ', '') != expr.replace(' ', ''):
        raise TranslatorError(f'unknown syntax in allocation size {expr!r}')
    return toks


def count_expr(expr, elem, q_dec):
    """`<count> * sizeof(elem)` -> Lean term for <count> over qn / mn"""
    toks = _tokens(expr)
    if len(toks) < 3 or toks[-2] != '*' or not toks[-1].startswith('sizeof('):
        raise TranslatorError(f'allocation size is not `<count> * sizeof(T)`: {expr!r}')
    st = ' '.join(toks[-1][7:-1].split())
    if st != elem:
        raise TranslatorError(f'sizeof({st}) for an array of {elem}')
    out = []
    depth = 0
    for t in toks[:-2]:
        if t in NAMES:
            out.append(NAMES[t])
        elif t == 'q_decrement':
            out.append(f'({q_dec})')
        elif t.isdigit():
            out.append(t)
        elif t in '+-*':
            out.append(t)
        elif t == '(':
            depth += 1
            out.append(t)
        elif t == ')':
            depth -= 1
            out.append(t)
        else:
            raise TranslatorError(f'unknown name {t!r} in allocation size {expr!r}')
    if depth != 0 or not out:
        raise TranslatorError(f'unbalanced allocation size {expr!r}')
    # a top-level `+`/`-` before the `* sizeof` would bind differently in C than the count we report
    level = 0
    for t in out:
        level += t == '('
        level -= t == ')'
        if level == 0 and t in '+-':
            raise TranslatorError(f'`a + b * sizeof(T)` is not a count times an element size: {expr!r}')
    return ' '.join(out)


def extract():
    text = (REPO / 'chython' / 'algorithms' / '_isomorphism.pyx').read_text()
    clean = '\n'.join(l.split('#')[0].rstrip() for l in text.splitlines())
    m = re.findall(r'^\s*q_decrement\s*=\s*(.+)$', clean, re.M)
    if len(m) != 1:
        raise TranslatorError(f'q_decrement assigned {len(m)} times')
    qd_toks = _tokens(m[0])
    if any(t not in NAMES and not t.isdigit() and t not in '+-*()' for t in qd_toks):
        raise TranslatorError(f'q_decrement = {m[0]!r}: unknown name')
    q_dec = ' '.join(NAMES.get(t, t) for t in qd_toks)
    allocs, elems = {}, {}
    for mm in re.finditer(r'cdef\s+([\w ]+?)\s*\*\s*(\w+)\s*=\s*<\s*([\w ]+?)\s*\*\s*>\s*PyMem_Malloc\((.*)\)\s*$', clean, re.M):
        typ, name, cast, size = mm.groups()
        typ, cast = ' '.join(typ.split()), ' '.join(cast.split())
        if typ != cast:
            raise TranslatorError(f'{name}: declared {typ} *, cast to {cast} *')
        if name in allocs:
            raise TranslatorError(f'{name} allocated twice')
        if name not in ARRAYS:
            raise TranslatorError(f'unknown allocated array {name}')
        allocs[name] = count_expr(size, typ, q_dec)
        elems[name] = typ
    if 'PyMem_Malloc' in clean and clean.count('PyMem_Malloc(') != len(allocs) :
        raise TranslatorError(f'{clean.count("PyMem_Malloc(")} PyMem_Malloc calls, {len(allocs)} understood')
    if set(allocs) != set(ARRAYS):
        raise TranslatorError(f'allocated arrays {sorted(allocs)} (expected {sorted(ARRAYS)})')
    memsets = {}
    for mm in re.finditer(r'^\s*memset\((\w+),\s*(\w+),\s*(.*)\)\s*$', clean, re.M):
        name, val, size = mm.groups()
        if name not in allocs or val != '0' or name in memsets:
            raise TranslatorError(f'memset({name}, {val}, …) not understood')
        memsets[name] = count_expr(size, elems[name], q_dec)
    if set(memsets) != {'matched', 'closures'}:
        raise TranslatorError(f'zero-filled arrays {sorted(memsets)} (expected matched, closures)')
    return {'allocs': allocs, 'memsets': memsets, 'q_decrement': q_dec}


def render(info):
    lines = ['-- GENERATED by harness/gen/gen_c09alloc.py from the text of /repo/chython/algorithms/_isomorphism.pyx (get_mapping).',
             '-- Element counts of the PyMem_Malloc\'ed arrays and of the memset calls, as functions of',
             '-- qn = query.atoms_count and mn = molecule.atoms_count. Do not edit: rewritten on every check run.',
             'set_option linter.unusedVariables false', 'namespace ChythonModel.Gen.C09Alloc', '',
             f'/-- `q_decrement = {info["q_decrement"]}` -/',
             f'def qDecrement (qn : Nat) : Nat := {info["q_decrement"]}', '']
    for a in ARRAYS:
        lines.append(f'def {LEAN_NAMES[a]} (qn mn : Nat) : Nat := {info["allocs"][a]}')
    lines.append('')
    for a in ('matched', 'closures'):
        lines.append(f'def memset{a.capitalize()} (qn mn : Nat) : Nat := {info["memsets"][a]}')
    lines += ['', 'end ChythonModel.Gen.C09Alloc', '']
    return '\n'.join(lines)


def generate():
    path = LEAN / 'ChythonModel' / 'Gen' / 'C09Alloc.lean'
    info = extract()
    write_if_changed(path, render(info))
    return path, info


if __name__ == '__main__':
    print(render(extract()))
