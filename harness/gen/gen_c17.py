"""gen_c17 — AST facts about chython/algorithms/fingerprints/*.py -> lean/ChythonModel/Gen/C17Cache.lean

 * `fingerprintMethods`  every method of every class of linear.py / morgan.py / __init__.py with its decorator names
                         (so that a memoised fingerprint helper is visible to the theorems)
 * `keepKeys`            every string literal inside MoleculeContainer.flush_cache and MoleculeContainer.copy
                         (the `__dict__` keys that survive `flush_cache(keep_*)` / are carried into copies and transaction backups)
 * `defaults`            default parameter values of the public entry points (ints only)

Anything that is not a plain `def` with Name/Attribute/Call decorators and int defaults raises TranslatorError (never guessed).
"""
import ast

from ..core import LEAN, REPO, write_if_changed

OUT = LEAN / 'ChythonModel' / 'Gen' / 'C17Cache.lean'
FILES = ['chython/algorithms/fingerprints/linear.py', 'chython/algorithms/fingerprints/morgan.py',
         'chython/algorithms/fingerprints/__init__.py']
PUBLIC = ['linear_fingerprint', 'linear_bit_set', 'linear_hash_set', 'linear_hash_smiles', 'linear_smiles_hash',
          'morgan_fingerprint', 'morgan_bit_set', 'morgan_hash_set', 'morgan_hash_smiles', 'morgan_smiles_hash',
          '_chains', '_fragments', '_morgan_hash_dict']


class TranslatorError(Exception):
    pass


def lean_str(s):
    return '"' + s.replace('\\', '\\\\').replace('"', '\\"') + '"'


def deco_name(d):
    if isinstance(d, ast.Name):
        return d.id
    if isinstance(d, ast.Attribute):
        return d.attr
    if isinstance(d, ast.Call):
        return deco_name(d.func)
    raise TranslatorError(f'unknown decorator syntax {ast.dump(d)}')


def collect():
    methods, defaults = [], []
    for rel in FILES:
        tree = ast.parse((REPO / rel).read_text())
        for node in tree.body:
            if not isinstance(node, ast.ClassDef):
                continue
            for item in node.body:
                if isinstance(item, (ast.FunctionDef, ast.AsyncFunctionDef)):
                    methods.append((node.name, item.name, [deco_name(d) for d in item.decorator_list]))
                    if item.name in PUBLIC:
                        a = item.args
                        if a.vararg or a.kwarg or a.kwonlyargs:
                            raise TranslatorError(f'{item.name}: unexpected parameter kinds')
                        names = [x.arg for x in a.args][1:]
                        if len(a.defaults) != len(names):
                            raise TranslatorError(f'{item.name}: a parameter without default')
                        vals = []
                        for nm, d in zip(names, a.defaults):
                            if isinstance(d, ast.UnaryOp) and isinstance(d.op, ast.USub) and isinstance(d.operand, ast.Constant):
                                v = -d.operand.value
                            elif isinstance(d, ast.Constant):
                                v = d.value
                            else:
                                raise TranslatorError(f'{item.name}.{nm}: default is not a literal')
                            if not isinstance(v, int) or isinstance(v, bool):
                                raise TranslatorError(f'{item.name}.{nm}: default {v!r} is not an int')
                            vals.append((nm, v))
                        defaults.append((item.name, vals))
    keep = collect_keep()
    return methods, keep, defaults


def _const_strings(node, env, where):
    """string constants denoted by an expression used as the right operand of `k in <expr>`: literal tuple/list/set,
    set()/frozenset()/tuple()/list() of such, `+` / `|` combinations, and names bound to such at module or class level"""
    if isinstance(node, (ast.Tuple, ast.List, ast.Set)):
        out = []
        for e in node.elts:
            if isinstance(e, ast.Constant) and isinstance(e.value, str):
                out.append(e.value)
            elif isinstance(e, ast.Starred):
                out += _const_strings(e.value, env, where)
            else:
                raise TranslatorError(f'{where}: keep-list element is not a string literal: {ast.dump(e)[:80]}')
        return out
    if isinstance(node, ast.Call) and isinstance(node.func, ast.Name) and node.func.id in ('set', 'frozenset', 'tuple', 'list') \
            and len(node.args) == 1 and not node.keywords:
        return _const_strings(node.args[0], env, where)
    if isinstance(node, ast.BinOp) and isinstance(node.op, (ast.Add, ast.BitOr)):
        return _const_strings(node.left, env, where) + _const_strings(node.right, env, where)
    if isinstance(node, ast.Name):
        if node.id not in env:
            raise TranslatorError(f'{where}: keep test against `{node.id}`, which is not a module/class level constant collection')
        return _const_strings(env[node.id], env, where + '/' + node.id)
    if isinstance(node, ast.Attribute) and isinstance(node.value, ast.Name) and node.value.id in ('self', 'cls', 'MoleculeContainer'):
        if node.attr not in env:
            raise TranslatorError(f'{where}: keep test against `{node.value.id}.{node.attr}`, not a class level constant collection')
        return _const_strings(env[node.attr], env, where + '/' + node.attr)
    raise TranslatorError(f'{where}: cannot resolve the collection of a keep test: {ast.dump(node)[:120]}')


def collect_keep():
    """the `__dict__` keys that survive MoleculeContainer.flush_cache(keep_*) or are carried over by copy(keep_*):
    every string constant inside the two functions, plus the members of every collection a `<key> in <collection>` /
    `<collection>.__contains__` test refers to (names resolved at module and class level; unresolvable -> TranslatorError)"""
    tree = ast.parse((REPO / 'chython/containers/molecule.py').read_text())
    env = {}
    cls = None
    for node in tree.body:
        if isinstance(node, ast.Assign) and len(node.targets) == 1 and isinstance(node.targets[0], ast.Name):
            env[node.targets[0].id] = node.value
        elif isinstance(node, ast.AnnAssign) and isinstance(node.target, ast.Name) and node.value is not None:
            env[node.target.id] = node.value
        elif isinstance(node, ast.ClassDef) and node.name == 'MoleculeContainer':
            cls = node
    if cls is None:
        raise TranslatorError('class MoleculeContainer not found')
    for item in cls.body:
        if isinstance(item, ast.Assign) and len(item.targets) == 1 and isinstance(item.targets[0], ast.Name):
            env[item.targets[0].id] = item.value
    keep, found = [], set()

    def add(k):
        if k not in keep:
            keep.append(k)
    for item in cls.body:
        if isinstance(item, ast.FunctionDef) and item.name in ('flush_cache', 'copy'):
            found.add(item.name)
            body = item.body
            if body and isinstance(body[0], ast.Expr) and isinstance(body[0].value, ast.Constant):
                body = body[1:]  # docstring
            for st in body:
                for c in ast.walk(st):
                    if isinstance(c, ast.Constant) and isinstance(c.value, str):
                        add(c.value)
                    elif isinstance(c, ast.Compare):
                        for op, right in zip(c.ops, c.comparators):
                            if isinstance(op, (ast.In, ast.NotIn)):
                                if isinstance(right, ast.Attribute) and right.attr == '__dict__':
                                    continue   # `'key' in self.__dict__`: the key is the (already collected) left literal
                                for k in _const_strings(right, env, f'MoleculeContainer.{item.name}'):
                                    add(k)
                    elif isinstance(c, ast.Call) and isinstance(c.func, ast.Name) and c.func.id not in ('super', 'set', 'frozenset',
                                                                                                         'tuple', 'list', 'dict', 'len'):
                        raise TranslatorError(f'MoleculeContainer.{item.name} calls the helper `{c.func.id}` — keep logic may have moved')
                    elif isinstance(c, ast.Call) and isinstance(c.func, ast.Attribute) and c.func.attr in ('__contains__', 'issubset',
                                                                                                           'intersection', 'startswith',
                                                                                                           'endswith', 'match'):
                        raise TranslatorError(f'MoleculeContainer.{item.name}: keep test by `{c.func.attr}` is not understood')
    if found != {'flush_cache', 'copy'}:
        raise TranslatorError(f'MoleculeContainer.flush_cache/copy not found: {found}')
    return keep


def collect_calls():
    """call graph of the fingerprint classes (AST): signatures, `self.<method>(...)` calls with the binding of every
    argument to the callee's parameter name (positional arguments resolved through the callee's signature, keyword
    arguments by name), and the parameters each method consumes itself.

    source of an argument:  `p`   the caller's own parameter `p`, passed as a bare name and never re-bound in the caller
                            `~p`  the caller's parameter `p`, but `p` is assigned somewhere in the caller's body
                            `<expr>` anything else (constant, expression, local variable)
    A call that cannot be resolved statically (`*args`, `**kwargs`, a fingerprint method reached through something other
    than `self.`, `getattr`, too many positional arguments, a parameter bound twice) is a TranslatorError."""
    sigs, bodies = {}, {}
    for rel in FILES:
        tree = ast.parse((REPO / rel).read_text())
        for node in tree.body:
            if not isinstance(node, ast.ClassDef):
                continue
            for item in node.body:
                if isinstance(item, (ast.FunctionDef, ast.AsyncFunctionDef)):
                    a = item.args
                    if a.vararg or a.kwarg or a.kwonlyargs or a.posonlyargs:
                        raise TranslatorError(f'{node.name}.{item.name}: unexpected parameter kinds')
                    names = [x.arg for x in a.args]
                    if not names or names[0] != 'self':
                        raise TranslatorError(f'{node.name}.{item.name}: first parameter is not self')
                    names = names[1:]
                    if item.name in sigs and sigs[item.name] != names:
                        raise TranslatorError(f'{item.name}: defined twice with different parameters')
                    if item.name in sigs and names:
                        raise TranslatorError(f'{item.name}: a parameterised method is defined in two classes')
                    sigs[item.name] = names
                    bodies.setdefault(item.name, item)
    calls, consumes = [], []
    for meth, item in bodies.items():
        params = sigs[meth]
        rebound = set()
        for c in ast.walk(item):
            if isinstance(c, ast.Name) and isinstance(c.ctx, (ast.Store, ast.Del)) and c.id in params:
                rebound.add(c.id)
            elif isinstance(c, ast.arg) and c.arg in params and not any(c is x for x in item.args.args):
                rebound.add(c.arg)   # shadowed by a lambda / nested def parameter
            elif isinstance(c, (ast.Global, ast.Nonlocal)):
                raise TranslatorError(f'{meth}: global/nonlocal statement')
        forwarded_nodes = set()

        def source(e):
            if isinstance(e, ast.Name) and e.id in params:
                forwarded_nodes.add(id(e))
                return ('~' + e.id) if e.id in rebound else e.id
            return '<expr>'
        for c in ast.walk(item):
            if isinstance(c, ast.Call):
                f = c.func
                if isinstance(f, ast.Name) and f.id in ('getattr', 'super', 'eval', 'exec', 'vars', 'locals'):
                    raise TranslatorError(f'{meth}: call of `{f.id}` — the call graph cannot be resolved statically')
                if isinstance(f, ast.Attribute) and f.attr in sigs and sigs[f.attr]:
                    if not (isinstance(f.value, ast.Name) and f.value.id == 'self'):
                        raise TranslatorError(f'{meth}: `{f.attr}` is called through something other than `self.`')
                    callee = sigs[f.attr]
                    if any(isinstance(x, ast.Starred) for x in c.args) or any(k.arg is None for k in c.keywords):
                        raise TranslatorError(f'{meth}: `{f.attr}` is called with *args / **kwargs')
                    if len(c.args) > len(callee):
                        raise TranslatorError(f'{meth}: `{f.attr}` is called with too many positional arguments')
                    binds = [(callee[i], source(e)) for i, e in enumerate(c.args)]
                    for k in c.keywords:
                        if k.arg not in callee:
                            raise TranslatorError(f'{meth}: `{f.attr}` has no parameter `{k.arg}`')
                        if any(q == k.arg for q, _ in binds):
                            raise TranslatorError(f'{meth}: `{f.attr}` gets `{k.arg}` twice')
                        binds.append((k.arg, source(k.value)))
                    calls.append((meth, f.attr, binds))
        # methods referenced but not called directly (aliasing) are not understood
        called_funcs = {id(c.func) for c in ast.walk(item) if isinstance(c, ast.Call)}
        for c in ast.walk(item):
            if isinstance(c, ast.Attribute) and c.attr in sigs and sigs[c.attr] and id(c) not in called_funcs:
                raise TranslatorError(f'{meth}: `{c.attr}` is referenced without being called (aliasing is not understood)')
        used = []
        for c in ast.walk(item):
            if isinstance(c, ast.Name) and isinstance(c.ctx, ast.Load) and c.id in params and id(c) not in forwarded_nodes:
                if c.id not in used:
                    used.append(c.id)
        consumes.append((meth, [q for q in params if q in used]))
    return [(m, sigs[m]) for m in sigs], calls, consumes


def measure_log2():
    """MEASURED on this interpreter / libm, not derived from the source: for k = 1..64 the smallest n in (2^(k-1), 2^k) with
    int(math.log2(n)) == k (the float logarithm of n rounds up to the integer k although n < 2^k), found by bisection
    (math.log2 is monotone on the probed points: checked at both ends). No entry for a k without such an n."""
    from math import log2
    out = []
    for k in range(1, 65):
        lo, hi = 1 << (k - 1), 1 << k
        if int(log2(lo)) != k - 1 or int(log2(hi)) != k:
            raise TranslatorError(f'int(log2(2^{k - 1})) / int(log2(2^{k})) are not {k - 1} / {k}')
        while hi - lo > 1:
            mid = (lo + hi) // 2
            if int(log2(mid)) >= k:
                hi = mid
            else:
                lo = mid
        if hi != 1 << k:
            if int(log2(hi)) != k or int(log2(hi - 1)) != k - 1 or int(log2((1 << k) - 1)) != k:
                raise TranslatorError(f'log2 is not monotone near 2^{k}')
            out.append((k, hi))
    return out


LIVE_ENTRY_POINTS = [('_atom_identifiers', None), ('_chains', (1, 3)), ('_fragments', (1, 3)), ('linear_hash_set', (1, 3, 2)),
                     ('linear_bit_set', (1, 3, 64, 2, 2)), ('linear_fingerprint', (1, 3, 64, 2, 2)), ('_morgan_hash_dict', (1, 3)),
                     ('morgan_hash_set', (1, 3)), ('morgan_bit_set', (1, 3, 64, 2)), ('morgan_fingerprint', (1, 3, 64, 2))]


def live_cache_keys():
    """the `__dict__` keys that calling the modelled fingerprint entry points leaves on a live molecule (observed, not derived)"""
    from chython import smiles
    keys = []
    for smi in ('CCO', 'c1ccccc1N'):
        mol = smiles(smi)
        before = set(mol.__dict__)
        for name, args in LIVE_ENTRY_POINTS:
            if args is None:
                getattr(mol, name)
            else:
                getattr(mol, name)(*args)
        for k in sorted(set(mol.__dict__) - before):
            if k not in keys:
                keys.append(k)
    return keys


def derived_cache_keys(methods):
    out = []
    for cls, name, decs in methods:
        if 'cached_property' in decs or 'class_cached_property' in decs:
            out.append(f'_{cls}{name}' if name.startswith('__') and not name.endswith('__') else name)
        if 'cached_method' in decs:
            out.append('__cached_method_' + name)
        if 'cached_args_method' in decs:
            out.append('__cached_args_method_' + name)
    return out


def generate():
    methods, keep, defaults = collect()
    live = live_cache_keys()
    # the key derivation used by the theorem must agree with what CachedMethods really does on the live object
    modelled = {n for n, _ in LIVE_ENTRY_POINTS}
    for cls, name, decs in methods:
        if name in modelled and cls in ('LinearFingerprint', 'MorganFingerprint', 'Fingerprints'):
            for k in derived_cache_keys([(cls, name, decs)]):
                if k not in live:
                    raise TranslatorError(f'{cls}.{name} is decorated {decs} but its expected cache key {k!r} did not appear in '
                                          f'mol.__dict__ ({live}) — cache-key derivation out of date')
    lines = ['/-! GENERATED by harness/gen/gen_c17.py from chython/algorithms/fingerprints/*.py and containers/molecule.py — do not edit. -/',
             'namespace ChythonModel.Gen.C17', '',
             '/-- (class, method, decorator names) of every method in the three fingerprint files -/',
             'def fingerprintMethods : List (String × String × List String) := [']
    lines.append(',\n'.join(f'  ({lean_str(c)}, {lean_str(m)}, [{", ".join(lean_str(d) for d in ds)}])' for c, m, ds in methods))
    lines += [']', '', '/-- the `__dict__` keys kept by `MoleculeContainer.flush_cache(keep_*)` / carried over by `copy(keep_*)`: string literals of',
              '    the two functions and the members of every (module/class level) collection their membership tests refer to -/',
              'def keepKeys : List String := [' + ', '.join(lean_str(k) for k in keep) + ']', '',
              '/-- OBSERVED: `__dict__` keys left on a live molecule by calling the modelled fingerprint entry points -/',
              'def liveCacheKeys : List String := [' + ', '.join(lean_str(k) for k in live) + ']', '',
              '/-- default parameter values (method, [(parameter, value)]) -/',
              'def defaults : List (String × List (String × Int)) := [']
    lines.append(',\n'.join(f'  ({lean_str(m)}, [{", ".join(f"({lean_str(n)}, {v})" for n, v in vs)}])' for m, vs in defaults))
    sigs, calls, consumes = collect_calls()
    lines += [']', '', '/-- (method, parameter names without `self`) of every method of the three fingerprint files -/',
              'def signatures : List (String × List String) := [']
    lines.append(',\n'.join(f'  ({lean_str(m)}, [{", ".join(lean_str(q) for q in ps)}])' for m, ps in sigs))
    lines += [']', '', '/-- every `self.<fingerprint method>(…)` call: (caller, callee, [(callee parameter, source)]); positional arguments are',
              '    resolved through the callee signature; source = `p` (the caller\'s own never re-bound parameter `p` as a bare name),',
              '    `~p` (parameter `p`, re-bound somewhere in the caller) or `<expr>` (anything else) -/',
              'def calls : List (String × String × List (String × String)) := [']
    lines.append(',\n'.join(f'  ({lean_str(a)}, {lean_str(b)}, [{", ".join(f"({lean_str(q)}, {lean_str(src)})" for q, src in bs)}])'
                            for a, b, bs in calls))
    lines += [']', '', '/-- (method, its parameters that the body reads anywhere other than as a bare argument of a call in `calls`) -/',
              'def consumes : List (String × List String) := [']
    lines.append(',\n'.join(f'  ({lean_str(m)}, [{", ".join(lean_str(q) for q in ps)}])' for m, ps in consumes))
    lines += [']', '', '/-- MEASURED (interpreter + libm of this machine): (k, t) for k ≤ 64 such that `int(math.log2(n)) = k` for t ≤ n < 2^k',
              '    (the float logarithm rounds up to the integer) and `= k - 1` for 2^(k-1) ≤ n < t; no entry: never rounds up -/',
              'def log2RoundsUpFrom : List (Nat × Nat) := [' + ', '.join(f'({k}, {t})' for k, t in measure_log2()) + ']']
    lines += ['', 'end ChythonModel.Gen.C17', '']
    write_if_changed(OUT, '\n'.join(lines))
    return OUT, methods, keep, defaults
