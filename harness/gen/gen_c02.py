"""Translator for C02 -> Gen/C02Tables.lean (regenerated from /repo on every run).

Read from chython/algorithms/smiles.py:

  charge_str                     the module dict int -> str (imported) -> `chargeStr`
  organic_set                    the module set of str (imported)      -> `organicSet`
  B, C, N, P, S                  module-level atomic number constants (imported)
  Smiles._smiles                 `heap = <expr over list/range>` (AST, evaluated in an empty namespace) -> `heapLo`, `heapHi`
  Smiles._format_closure         called on every heap number; must be digits below K, prefix+digits from K on
                                                                        -> `closurePercentFrom`, `closurePrefix`

and from the live classes (import chython.periodictable): atomic number -> symbol for every Element subclass.

Strings are emitted as code-point lists (`List Nat`), the representation used by the reader model of C03.
Unknown syntax at one of these sites is a hard translator error (never guessed).
"""
import ast

from ..core import LEAN, REPO, write_if_changed

OUT = LEAN / 'ChythonModel' / 'Gen' / 'C02Tables.lean'


class TranslatorError(Exception):
    pass


def _cp(s):
    return '[' + ', '.join(str(ord(c)) for c in s) + ']'


def _find(tree, qual):
    node = tree
    for p in qual.split('.'):
        for ch in node.body:
            if isinstance(ch, (ast.ClassDef, ast.FunctionDef)) and ch.name == p:
                node = ch
                break
        else:
            raise TranslatorError(f'{qual}: not found')
    return node


def extract():
    """module-level tables are read from the imported module (any spelling of the same dict/set is accepted); the heap
    initialiser is a local of `_smiles`, so its right-hand side is evaluated with only `list`/`range`/`tuple` in scope and
    must be a contiguous ascending run of positive ints; `_format_closure` is *called* for every number of the heap and
    must fit `digits` below a threshold and `prefix + digits` from it on."""
    import chython.algorithms.smiles as S
    src = (REPO / 'chython' / 'algorithms' / 'smiles.py').read_text()
    tree = ast.parse(src)
    cs = S.charge_str
    if not isinstance(cs, dict) or not all(isinstance(k, int) and isinstance(v, str) for k, v in cs.items()):
        raise TranslatorError('charge_str is not a dict int -> str')
    charge = list(cs.items())
    og = S.organic_set
    if not all(isinstance(e, str) for e in og):
        raise TranslatorError('organic_set is not a collection of str')
    organic = sorted(og)
    consts = {}
    for k in 'BCNPS':
        v = getattr(S, k, None)
        if not isinstance(v, int):
            raise TranslatorError(f'module constant {k} is not an int')
        consts[k] = v

    fn = _find(tree, 'Smiles._smiles')
    heap = None
    for st in ast.walk(fn):
        if isinstance(st, ast.Assign) and len(st.targets) == 1 and isinstance(st.targets[0], ast.Name) \
                and st.targets[0].id == 'heap':
            names = {n.id for n in ast.walk(st.value) if isinstance(n, ast.Name)}
            if not names <= {'list', 'range', 'tuple', 'sorted'} or any(isinstance(n, (ast.Attribute, ast.Lambda)) for n in ast.walk(st.value)):
                raise TranslatorError(f'heap initialiser uses unknown names: {ast.unparse(st.value)}')
            try:
                val = list(eval(compile(ast.Expression(st.value), '<heap>', 'eval'),
                                {'__builtins__': {}, 'list': list, 'range': range, 'tuple': tuple, 'sorted': sorted}))
            except Exception as e:  # noqa
                raise TranslatorError(f'heap initialiser cannot be evaluated: {ast.unparse(st.value)}: {e}')
            if not val or any(not isinstance(x, int) for x in val) or val != list(range(val[0], val[-1] + 1)) or val[0] < 0:
                raise TranslatorError(f'heap is not a contiguous ascending run: {val[:5]}…')
            heap = (val[0], val[-1] + 1)
    if heap is None:
        raise TranslatorError('heap initialiser not found in Smiles._smiles')

    fc = S.Smiles._format_closure
    outs = {c: fc(c) for c in range(heap[0], max(heap[1], 12))}
    if not all(isinstance(v, str) for v in outs.values()):
        raise TranslatorError('_format_closure does not return str')
    plain = [c for c, v in outs.items() if v == str(c)]
    pref = [c for c, v in outs.items() if v != str(c)]
    thr = min(pref) if pref else max(outs) + 1
    prefix = outs[thr][:-len(str(thr))] if pref else '%'
    if any(c >= thr for c in plain) or any(outs[c] != prefix + str(c) for c in pref) or any(ch.isdigit() for ch in prefix):
        raise TranslatorError(f'_format_closure does not fit digits / prefix+digits: {list(outs.items())[:12]}')

    from chython.periodictable import Element
    syms = []
    for c in Element.__subclasses__():
        try:
            z = c.atomic_number.fget(None)
        except Exception:
            continue
        if isinstance(z, int):
            syms.append((z, c.__name__))
    syms.sort()
    return dict(charge=charge, organic=organic, consts=consts, heap=heap, thr=thr, prefix=prefix, syms=syms)


def generate():
    d = extract()
    L = ['-- GENERATED by harness/gen/gen_c02.py from /repo (chython/algorithms/smiles.py, chython.periodictable). Do not edit.',
         'namespace ChythonModel.Gen.C02', '',
         '/-- `charge_str` of algorithms/smiles.py (charge → code points), dict order -/',
         'def chargeStr : List (Int × List Nat) := [' + ', '.join(f'(({k}), {_cp(v)})' for k, v in d['charge']) + ']', '',
         '/-- `organic_set` (sorted; membership only) -/',
         'def organicSet : List (List Nat) := [' + ', '.join(_cp(s) for s in d['organic']) + ']', '',
         '/-- atomic number → symbol for every Element subclass -/',
         'def symbols : List (Nat × List Nat) := [' + ', '.join(f'({z}, {_cp(s)})' for z, s in d['syms']) + ']', '']
    for k in 'BCNPS':
        L.append(f'def z{k} : Nat := {d["consts"][k]}')
    L += ['', '/-- `heap = list(range(heapLo, heapHi))` -/',
          f'def heapLo : Nat := {d["heap"][0]}', f'def heapHi : Nat := {d["heap"][1]}', '',
          '/-- `_format_closure`: `str(c) if c < closurePercentFrom else closurePrefix + str(c)` -/',
          f'def closurePercentFrom : Nat := {d["thr"]}', f'def closurePrefix : List Nat := {_cp(d["prefix"])}', '',
          'end ChythonModel.Gen.C02', '']
    write_if_changed(OUT, '\n'.join(L))
    return OUT
