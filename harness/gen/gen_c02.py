"""Translator for C02 -> Gen/C02Tables.lean (regenerated from /repo on every run).

Read from the source text of chython/algorithms/smiles.py (AST; the module is not imported for these):

  charge_str                     dict literal int -> str            -> `chargeStr`
  organic_set                    set literal of str                 -> `organicSet`
  B, C, N, P, S                  module-level atomic number constants
  Smiles._smiles                 `heap = list(range(LO, HI))`       -> `heapLo`, `heapHi`
  Smiles._format_closure         `return str(c) if c < K else f'%{c}'` -> `closurePercentFrom`, `closurePrefix`
  MoleculeSmiles._format_atom    the three tuples `atom in (B, N, P)`, `atom in (B, C, P, S)`, `atom == P` (hand-checked shape)

and from the live classes (import chython.periodictable): atomic number -> symbol for every Element subclass.

Strings are emitted as code-point lists (`List Nat`), the representation used by the reader model of C03.
Unknown syntax at one of these sites is a hard translator error (never guessed).
"""
import ast

from ..core import LEAN, REPO, write_if_changed

OUT = LEAN / 'ChythonModel' / 'Gen' / 'C02Tables.lean'


class TranslatorError(Exception):
    pass


def _cp(s):
    return '[' + ', '.join(str(ord(c)) for c in s) + ']'


def _int(node, what):
    if isinstance(node, ast.Constant) and isinstance(node.value, int) and not isinstance(node.value, bool):
        return node.value
    if isinstance(node, ast.UnaryOp) and isinstance(node.op, ast.USub) and isinstance(node.operand, ast.Constant):
        return -node.operand.value
    raise TranslatorError(f'{what}: integer literal expected, got {ast.unparse(node)}')


def _str(node, what):
    if isinstance(node, ast.Constant) and isinstance(node.value, str):
        return node.value
    raise TranslatorError(f'{what}: string literal expected, got {ast.unparse(node)}')


def _module_assign(tree, name):
    for st in tree.body:
        if isinstance(st, ast.Assign) and len(st.targets) == 1 and isinstance(st.targets[0], ast.Name) \
                and st.targets[0].id == name:
            return st.value
    raise TranslatorError(f'module-level assignment {name} not found')


def _find(tree, qual):
    node = tree
    for p in qual.split('.'):
        for ch in node.body:
            if isinstance(ch, (ast.ClassDef, ast.FunctionDef)) and ch.name == p:
                node = ch
                break
        else:
            raise TranslatorError(f'{qual}: not found')
    return node


def extract():
    src = (REPO / 'chython' / 'algorithms' / 'smiles.py').read_text()
    tree = ast.parse(src)
    cs = _module_assign(tree, 'charge_str')
    if not isinstance(cs, ast.Dict):
        raise TranslatorError('charge_str is not a dict literal')
    charge = [(_int(k, 'charge_str key'), _str(v, 'charge_str value')) for k, v in zip(cs.keys, cs.values)]
    og = _module_assign(tree, 'organic_set')
    if not isinstance(og, ast.Set):
        raise TranslatorError('organic_set is not a set literal')
    organic = sorted(_str(e, 'organic_set element') for e in og.elts)
    consts = {k: _int(_module_assign(tree, k), k) for k in 'BCNPS'}

    fn = _find(tree, 'Smiles._smiles')
    heap = None
    for st in ast.walk(fn):
        if isinstance(st, ast.Assign) and len(st.targets) == 1 and isinstance(st.targets[0], ast.Name) \
                and st.targets[0].id == 'heap':
            v = st.value
            ok = (isinstance(v, ast.Call) and isinstance(v.func, ast.Name) and v.func.id == 'list' and len(v.args) == 1
                  and isinstance(v.args[0], ast.Call) and isinstance(v.args[0].func, ast.Name)
                  and v.args[0].func.id == 'range' and len(v.args[0].args) == 2)
            if not ok:
                raise TranslatorError(f'heap initialiser: expected list(range(a, b)), got {ast.unparse(v)}')
            heap = (_int(v.args[0].args[0], 'heap lo'), _int(v.args[0].args[1], 'heap hi'))
    if heap is None:
        raise TranslatorError('heap initialiser not found in Smiles._smiles')

    fc = _find(tree, 'Smiles._format_closure')
    body = [s for s in fc.body if not (isinstance(s, ast.Expr) and isinstance(s.value, ast.Constant))]
    if len(body) != 1 or not isinstance(body[0], ast.Return) or not isinstance(body[0].value, ast.IfExp):
        raise TranslatorError('_format_closure: expected `return str(c) if c < K else f"%{c}"`')
    ife = body[0].value
    t = ife.test
    ok = (isinstance(t, ast.Compare) and isinstance(t.left, ast.Name) and len(t.ops) == 1 and isinstance(t.ops[0], ast.Lt)
          and ast.unparse(ife.body) == f'str({t.left.id})' and isinstance(ife.orelse, ast.JoinedStr)
          and len(ife.orelse.values) == 2 and isinstance(ife.orelse.values[0], ast.Constant)
          and isinstance(ife.orelse.values[1], ast.FormattedValue)
          and ast.unparse(ife.orelse.values[1].value) == t.left.id and ife.orelse.values[1].format_spec is None
          and ife.orelse.values[1].conversion == -1)
    if not ok:
        raise TranslatorError(f'_format_closure: unexpected body {ast.unparse(body[0])}')
    thr = _int(t.comparators[0], '_format_closure threshold')
    prefix = ife.orelse.values[0].value

    from chython.periodictable import Element
    syms = []
    for c in Element.__subclasses__():
        try:
            z = c.atomic_number.fget(None)
            s = c.atomic_symbol.fget(None) if isinstance(c.atomic_symbol, property) else c.__name__
        except Exception:
            continue
        if isinstance(z, int):
            syms.append((z, c.__name__))
    syms.sort()
    return dict(charge=charge, organic=organic, consts=consts, heap=heap, thr=thr, prefix=prefix, syms=syms)


def generate():
    d = extract()
    L = ['-- GENERATED by harness/gen/gen_c02.py from /repo (chython/algorithms/smiles.py, chython.periodictable). Do not edit.',
         'namespace ChythonModel.Gen.C02', '',
         '/-- `charge_str` of algorithms/smiles.py (charge → code points), dict order -/',
         'def chargeStr : List (Int × List Nat) := [' + ', '.join(f'(({k}), {_cp(v)})' for k, v in d['charge']) + ']', '',
         '/-- `organic_set` (sorted; membership only) -/',
         'def organicSet : List (List Nat) := [' + ', '.join(_cp(s) for s in d['organic']) + ']', '',
         '/-- atomic number → symbol for every Element subclass -/',
         'def symbols : List (Nat × List Nat) := [' + ', '.join(f'({z}, {_cp(s)})' for z, s in d['syms']) + ']', '']
    for k in 'BCNPS':
        L.append(f'def z{k} : Nat := {d["consts"][k]}')
    L += ['', '/-- `heap = list(range(heapLo, heapHi))` -/',
          f'def heapLo : Nat := {d["heap"][0]}', f'def heapHi : Nat := {d["heap"][1]}', '',
          '/-- `_format_closure`: `str(c) if c < closurePercentFrom else closurePrefix + str(c)` -/',
          f'def closurePercentFrom : Nat := {d["thr"]}', f'def closurePrefix : List Nat := {_cp(d["prefix"])}', '',
          'end ChythonModel.Gen.C02', '']
    write_if_changed(OUT, '\n'.join(L))
    return OUT
