"""Translator for C01 -> Gen/C01Tables.lean (regenerated from /repo on every run).

What is read from the source text (AST; nothing is imported):

  periodictable/base/element.py  Element.__hash__      the tuple display fed to hash(): one `HashField` per item
  containers/bonds.py            Bond.__hash__         the attribute returned (`order`)
  algorithms/morgan.py           _morgan               the two integer literals of the loop control:
                                                       `tries = len(atoms) - K` and `if stab == S`
                                 Morgan.atoms_order    the two shortcuts (`not self` -> {}, `len(self) == 1` -> fromkeys(self, V))
  algorithms/smiles.py           Smiles.__eq__         must be `isinstance(other, Smiles) and str(self) == str(other)`
                                 Smiles.__hash__       must be `hash(str(self))`

Unknown syntax at one of these sites is a hard translator error (never guessed): the Lean model evaluates
`Element.__hash__` *from this table*, so a change of the field list changes the model, and a change to something the
table language cannot express (e.g. `hash(self.atomic_symbol)`) stops the run before any theorem is believed.
"""
import ast
from pathlib import Path

from ..core import LEAN, REPO, write_if_changed

OUT = LEAN / 'ChythonModel' / 'Gen' / 'C01Tables.lean'

# attribute name -> (HashField constructor, whether `or 0` is expected/allowed)
FIELDS = {'isotope': 'isotope', 'atomic_number': 'atomicNumber', 'charge': 'charge', 'is_radical': 'isRadical',
          'implicit_hydrogens': 'implicitH', 'in_ring': 'inRing'}


class TranslatorError(Exception):
    pass


def _find(tree, qual):
    parts = qual.split('.')
    node = tree
    for p in parts:
        for ch in node.body:
            if isinstance(ch, (ast.ClassDef, ast.FunctionDef)) and ch.name == p:
                node = ch
                break
        else:
            raise TranslatorError(f'{qual}: not found')
    return node


def _body_wo_doc(fn):
    body = list(fn.body)
    if body and isinstance(body[0], ast.Expr) and isinstance(body[0].value, ast.Constant) and isinstance(body[0].value.value, str):
        body = body[1:]
    return body


def _single_return(fn, what):
    body = _body_wo_doc(fn)
    if len(body) != 1 or not isinstance(body[0], ast.Return) or body[0].value is None:
        raise TranslatorError(f'{what}: expected a single return statement, got {ast.unparse(fn)[:200]}')
    return body[0].value


def _self_attr(e):
    if isinstance(e, ast.Attribute) and isinstance(e.value, ast.Name) and e.value.id == 'self':
        return e.attr
    return None


def element_hash_fields(repo):
    tree = ast.parse((Path(repo) / 'chython/periodictable/base/element.py').read_text())
    v = _single_return(_find(tree, 'Element.__hash__'), 'Element.__hash__')
    if not (isinstance(v, ast.Call) and isinstance(v.func, ast.Name) and v.func.id == 'hash' and len(v.args) == 1
            and not v.keywords and isinstance(v.args[0], ast.Tuple)):
        raise TranslatorError('Element.__hash__: expected `return hash((…tuple…))`, got ' + ast.unparse(v))
    out = []
    for it in v.args[0].elts:
        or0, other = False, None
        if isinstance(it, ast.BoolOp) and isinstance(it.op, ast.Or) and len(it.values) == 2:
            rhs = it.values[1]
            if isinstance(rhs, ast.Constant) and rhs.value == 0 and rhs.value is not False:
                or0 = True
            else:
                # `x or <something else>`: not expressible; emitted as an opaque fallback. The model then has no value for an
                # unset attribute and the table theorem `element_hash_never_none` fails (G+P) instead of the run stopping here.
                other = ' '.join(ast.unparse(rhs).split())
            it = it.values[0]
        a = _self_attr(it)
        if a not in FIELDS:
            raise TranslatorError('Element.__hash__: item outside the table language (self.<int attribute> [or …]): '
                                  + ast.unparse(it))
        out.append((FIELDS[a], or0, other))
    return out


def bond_hash_field(repo):
    tree = ast.parse((Path(repo) / 'chython/containers/bonds.py').read_text())
    v = _single_return(_find(tree, 'Bond.__hash__'), 'Bond.__hash__')
    a = _self_attr(v)
    if a != 'order':
        raise TranslatorError('Bond.__hash__: expected `return self.order`, got ' + ast.unparse(v))
    return 'order'


def morgan_consts(repo):
    tree = ast.parse((Path(repo) / 'chython/algorithms/morgan.py').read_text())
    fn = _find(tree, '_morgan')
    tries_off = None
    for st in fn.body:
        if isinstance(st, ast.Assign) and isinstance(st.value, ast.BinOp) and isinstance(st.value.op, ast.Sub) \
                and isinstance(st.value.left, ast.Call) and isinstance(st.value.left.func, ast.Name) \
                and st.value.left.func.id == 'len' and isinstance(st.value.right, ast.Constant) \
                and isinstance(st.value.right.value, int):
            tries_off = st.value.right.value
            break
    if tries_off is None or tries_off < 0:
        raise TranslatorError('_morgan: `tries = len(atoms) - <int>` not found')
    loops = [st for st in fn.body if isinstance(st, ast.For)]
    if len(loops) != 1:
        raise TranslatorError('_morgan: expected exactly one for loop')
    limits = []
    for n in ast.walk(loops[0]):
        if isinstance(n, ast.If) and isinstance(n.test, ast.Compare) and len(n.test.ops) == 1 \
                and isinstance(n.test.ops[0], ast.Eq) and isinstance(n.test.comparators[0], ast.Constant) \
                and isinstance(n.test.comparators[0].value, int) and isinstance(n.test.left, ast.Name) \
                and any(isinstance(b, ast.Break) for b in n.body):
            limits.append(n.test.comparators[0].value)
    if len(limits) != 1 or limits[0] < 0:
        raise TranslatorError(f'_morgan: expected one `if <counter> == <int>: break`, found {limits}')
    # enumerate(..., start=K)
    start = None
    for n in ast.walk(fn):
        if isinstance(n, ast.Call) and isinstance(n.func, ast.Name) and n.func.id == 'enumerate':
            for kw in n.keywords:
                if kw.arg == 'start' and isinstance(kw.value, ast.Constant) and isinstance(kw.value.value, int):
                    start = kw.value.value
            if start is None and len(n.args) == 2 and isinstance(n.args[1], ast.Constant):
                start = n.args[1].value
            if start is None:
                start = 0
    if start is None or start < 0:
        raise TranslatorError('_morgan: enumerate(…, start=<int>) not found')
    return tries_off, limits[0], start


def atoms_order_shortcuts(repo):
    """(value given to the single atom by the len==1 shortcut). Structure: if not self: return {} / elif len(self) == 1:
    return dict.fromkeys(self, V) / return _morgan({n: hash(a) …}, self.int_adjacency)"""
    tree = ast.parse((Path(repo) / 'chython/algorithms/morgan.py').read_text())
    fn = _find(tree, 'Morgan.atoms_order')
    body = _body_wo_doc(fn)
    if len(body) != 2 or not isinstance(body[0], ast.If) or not isinstance(body[1], ast.Return):
        raise TranslatorError('Morgan.atoms_order: expected `if … elif …` + return')
    i0 = body[0]
    ok = isinstance(i0.test, ast.UnaryOp) and isinstance(i0.test.op, ast.Not) and isinstance(i0.test.operand, ast.Name) \
        and i0.test.operand.id == 'self' and len(i0.body) == 1 and isinstance(i0.body[0], ast.Return) \
        and isinstance(i0.body[0].value, ast.Dict) and not i0.body[0].value.keys
    if not ok or len(i0.orelse) != 1 or not isinstance(i0.orelse[0], ast.If):
        raise TranslatorError('Morgan.atoms_order: empty-container shortcut not recognised')
    i1 = i0.orelse[0]
    t = i1.test
    ok = isinstance(t, ast.Compare) and len(t.ops) == 1 and isinstance(t.ops[0], ast.Eq) \
        and ast.unparse(t.left) == 'len(self)' and isinstance(t.comparators[0], ast.Constant) and t.comparators[0].value == 1 \
        and not i1.orelse and len(i1.body) == 1 and isinstance(i1.body[0], ast.Return)
    if not ok:
        raise TranslatorError('Morgan.atoms_order: single-atom shortcut not recognised')
    r = i1.body[0].value
    if not (isinstance(r, ast.Call) and ast.unparse(r.func) == 'dict.fromkeys' and len(r.args) == 2
            and ast.unparse(r.args[0]) == 'self' and isinstance(r.args[1], ast.Constant) and isinstance(r.args[1].value, int)
            and r.args[1].value >= 0):
        raise TranslatorError('Morgan.atoms_order: expected dict.fromkeys(self, <int>)')
    single = r.args[1].value
    m = body[1].value
    if not (isinstance(m, ast.Call) and isinstance(m.func, ast.Name) and m.func.id == '_morgan' and len(m.args) == 2):
        raise TranslatorError('Morgan.atoms_order: expected `return _morgan({…}, self.int_adjacency)`')
    a0 = ' '.join(ast.unparse(m.args[0]).split())
    if a0 not in ('{n: hash(a) for n, a in self.atoms()}', '{n: hash(a) for n, a in self._atoms.items()}') \
            or ast.unparse(m.args[1]) != 'self.int_adjacency':
        raise TranslatorError('Morgan.atoms_order: unexpected arguments of _morgan: ' + ast.unparse(m))
    ia = _find(tree, 'Morgan.int_adjacency')
    v = ' '.join(ast.unparse(_single_return(ia, 'Morgan.int_adjacency')).split())
    # hash(b), int(b) and b.order are the same number for a Bond (Bond.__hash__/__int__ return self.order; checked above / K)
    if v not in ('{n: {m: %s for m, b in mb.items()} for n, mb in self._bonds.items()}' % e
                 for e in ('hash(b)', 'int(b)', 'b.order')):
        raise TranslatorError('Morgan.int_adjacency: unexpected body: ' + v)
    return single


def eq_hash_forms(repo):
    tree = ast.parse((Path(repo) / 'chython/algorithms/smiles.py').read_text())
    e = ' '.join(ast.unparse(_single_return(_find(tree, 'Smiles.__eq__'), 'Smiles.__eq__')).split())
    h = ' '.join(ast.unparse(_single_return(_find(tree, 'Smiles.__hash__'), 'Smiles.__hash__')).split())
    eq = {'isinstance(other, Smiles) and str(self) == str(other)': 'isinstanceAndStrEq',
          'isinstance(other, Smiles) and str(other) == str(self)': 'isinstanceAndStrEq'}.get(e, 'other')
    hs = {'hash(str(self))': 'hashOfStr'}.get(h, 'other')
    return (eq, e), (hs, h)


def _s(x):
    return '"' + x.replace('\\', '\\\\').replace('"', '\\"') + '"'


def generate(repo=REPO):
    fields = element_hash_fields(repo)
    bond_hash_field(repo)
    tries_off, stab_limit, start = morgan_consts(repo)
    single = atoms_order_shortcuts(repo)
    (eq, eq_src), (hs, hs_src) = eq_hash_forms(repo)
    out = ['-- GENERATED by harness/gen/gen_c01.py from /repo. Do not edit.',
           'namespace ChythonModel.Gen.C01', '',
           '/-- the int attributes of an atom that `Element.__hash__` may read -/',
           'inductive HashAttr where',
           '  | isotope | atomicNumber | charge | isRadical | implicitH | inRing',
           '  deriving Repr, DecidableEq', '',
           '/-- one item of the tuple hashed by `Element.__hash__`: the attribute, and whether it is written `x or 0` -/',
           'structure HashField where',
           '  attr : HashAttr',
           '  orZero : Bool',
           '  /-- source of a fallback other than the literal 0 (`x or <expr>`); the model cannot evaluate it -/',
           '  orOther : Option String := none',
           '  deriving Repr, DecidableEq', '',
           '/-- `Element.__hash__`: `hash((…))` of these items, in this order -/',
           'def elementHashFields : List HashField := [',
           ',\n'.join(f'  ⟨HashAttr.{a}, {"true" if o else "false"}, {"none" if x is None else "some " + _s(x)}⟩'
                       for a, o, x in fields),
           ']', '',
           '/-- `Bond.__hash__` returns `self.order` (the translator accepts nothing else) -/',
           'inductive BondHashAttr where | order',
           '  deriving Repr, DecidableEq',
           'def bondHashField : BondHashAttr := BondHashAttr.order', '',
           '/-- `_morgan`: `tries = len(atoms) - morganTriesOffset` -/',
           f'def morganTriesOffset : Nat := {tries_off}',
           '/-- `_morgan`: `if stab == morganStabLimit: break` -/',
           f'def morganStabLimit : Nat := {stab_limit}',
           '/-- `_morgan`: `enumerate(groupby(…), start=morganRankStart)` -/',
           f'def morganRankStart : Nat := {start}',
           '/-- `Morgan.atoms_order`: `dict.fromkeys(self, singleAtomRank)` for one-atom containers -/',
           f'def singleAtomRank : Nat := {single}', '',
           'inductive EqForm where | isinstanceAndStrEq | other',
           '  deriving Repr, DecidableEq',
           'inductive HashForm where | hashOfStr | other',
           '  deriving Repr, DecidableEq', '',
           f'/-- `Smiles.__eq__` returns `{eq_src}` -/',
           f'def smilesEqForm : EqForm := EqForm.{eq}',
           f'def smilesEqSource : String := {_s(eq_src)}',
           f'/-- `Smiles.__hash__` returns `{hs_src}` -/',
           f'def smilesHashForm : HashForm := HashForm.{hs}',
           f'def smilesHashSource : String := {_s(hs_src)}', '',
           'end ChythonModel.Gen.C01', '']
    write_if_changed(OUT, '\n'.join(out))
    return OUT


if __name__ == '__main__':
    print(generate())
