"""Translator: option forwarding of the file readers -> Gen/MdlOptions.lean (C11).

AST walk over /repo's `chython/files/*.py`, repeated on every run. A *unit* is a function or method that calls one of the
record-building helpers

    postprocess_parsed_molecule / postprocess_parsed_reaction   (family `map`:   atom numbers;  options remap, ignore)
    create_molecule / create_reaction                           (family `create`: containers;   option ignore_bad_isotopes)
    postprocess_molecule                                        (family `stereo`: wedges, cis/trans; calc_cis_trans, ignore_stereo)
    parse_rxn_v2000 / parse_rxn_v3000                           (family `parse_rxn`: option ignore)

Its *public options* are the keyword parameters of the class' `__init__` (methods) or of the function itself. For every
call site the table records the branch (`rxn`: inside the smallest statement list that contains the `create_reaction`
call of the unit; `mol` otherwise), the callee, its line, and the options that *reach* it: as keyword argument
(`kwarg=self._opt` / `kwarg=opt`) or as a guard (an enclosing `if` whose test mentions the option). `self._x` is resolved
to the constructor parameter through the `self._x = x` assignments of the class' `__init__` and, through the keywords of
its `super().__init__(…)` call, of the base class (`MDLRead`). Anything the walker does not understand (a keyword value
that is neither a name, a constant, nor a `self.` attribute; `**kwargs`; positional option arguments) is a translator
error, never a silently shorter table.
"""
import ast

from ..core import LEAN, REPO, write_if_changed

FAMILY = {'postprocess_parsed_molecule': 'map', 'postprocess_parsed_reaction': 'map',
          'create_molecule': 'create', 'create_reaction': 'create',
          'postprocess_molecule': 'stereo',
          'parse_rxn_v2000': 'parse_rxn', 'parse_rxn_v3000': 'parse_rxn'}
# number of leading positional (data) arguments each helper takes
POSITIONAL = {'postprocess_parsed_molecule': 1, 'postprocess_parsed_reaction': 1, 'create_molecule': 1,
              'create_reaction': 1, 'postprocess_molecule': 2, 'parse_rxn_v2000': 1, 'parse_rxn_v3000': 1}
CALLEE_FILES = {'postprocess_parsed_molecule': '_mapping.py', 'postprocess_parsed_reaction': '_mapping.py',
                'create_molecule': '_convert.py', 'create_reaction': '_convert.py',
                'postprocess_molecule': 'mdl/stereo.py', 'parse_rxn_v2000': 'mdl/rxn.py', 'parse_rxn_v3000': 'mdl/erxn.py'}
BASES = {'MDLRead': 'mdl/read.py'}


class Unknown(ValueError):
    pass


def _params(fn):
    a = fn.args
    if a.vararg or a.kwarg:
        raise Unknown(f'{fn.name}: *args/**kwargs in a reader signature')
    names = [x.arg for x in a.posonlyargs + a.args + a.kwonlyargs]
    return [n for n in names if n not in ('self', 'file', 'data')]


def _attr_map(cls, files_dir, seen=()):
    """attribute name -> constructor parameter for `self.attr = param` (own __init__ and, via super().__init__, bases)"""
    init = next((n for n in cls.body if isinstance(n, ast.FunctionDef) and n.name == '__init__'), None)
    if init is None:
        return {}, []
    params = _params(init)
    amap = {}
    for node in ast.walk(init):
        if isinstance(node, ast.Assign) and len(node.targets) == 1:
            t = node.targets[0]
            if isinstance(t, ast.Attribute) and isinstance(t.value, ast.Name) and t.value.id == 'self' \
                    and isinstance(node.value, ast.Name) and node.value.id in params:
                amap[t.attr] = node.value.id
        if isinstance(node, ast.Call) and isinstance(node.func, ast.Attribute) and node.func.attr == '__init__' \
                and isinstance(node.func.value, ast.Call) and getattr(node.func.value.func, 'id', None) == 'super':
            for b in cls.bases:
                bname = getattr(b, 'id', None)
                if bname not in BASES:
                    continue
                btree = ast.parse((files_dir / BASES[bname]).read_text())
                bcls = next(n for n in btree.body if isinstance(n, ast.ClassDef) and n.name == bname)
                bmap, _ = _attr_map(bcls, files_dir)
                for kw in node.keywords:
                    if kw.arg is None:
                        raise Unknown(f'{cls.name}.__init__: **kwargs to super().__init__')
                    if isinstance(kw.value, ast.Name) and kw.value.id in params:
                        for attr, bparam in bmap.items():
                            if bparam == kw.arg:
                                amap.setdefault(attr, kw.value.id)
    return amap, params


def _option_of(value, amap, params, where):
    """the option a keyword value / guard operand denotes, or None for constants and non-option attributes"""
    if isinstance(value, ast.Constant):
        return None
    if isinstance(value, ast.Name):
        return value.id if value.id in params else None
    if isinstance(value, ast.Attribute) and isinstance(value.value, ast.Name) and value.value.id == 'self':
        return amap.get(value.attr)
    raise Unknown(f'{where}: keyword value {ast.dump(value)[:80]} is not a name, constant or self attribute')


def _guard_options(test, amap, params):
    out = []
    for node in ast.walk(test):
        if isinstance(node, ast.Name) and node.id in params:
            out.append(node.id)
        elif isinstance(node, ast.Attribute) and isinstance(node.value, ast.Name) and node.value.id == 'self' \
                and node.attr in amap:
            out.append(amap[node.attr])
    return out


def _contains_call(stmts, name):
    for s in stmts:
        for node in ast.walk(s):
            if isinstance(node, ast.Call) and getattr(node.func, 'id', None) == name:
                return True
    return False


def _bodies(stmt):
    for f in ('body', 'orelse', 'finalbody'):
        b = getattr(stmt, f, None)
        if isinstance(b, list) and b and isinstance(b[0], ast.stmt):
            yield b
    for h in getattr(stmt, 'handlers', []) or []:
        yield h.body


def _rxn_scope(body):
    """the smallest statement list containing the unit's create_reaction call (None: the unit builds no reaction)"""
    if not _contains_call(body, 'create_reaction'):
        return None
    for s in body:
        for b in _bodies(s):
            inner = _rxn_scope(b)
            if inner is not None:
                return inner
    return body


def _walk_sites(stmts, guards, in_rxn, rxn_scope, amap, params, where, out):
    if stmts is rxn_scope:
        in_rxn = True
    for s in stmts:
        # calls in the statement's own expressions (not in nested statement lists)
        nested = [x for b in _bodies(s) for x in b]
        for node in ast.walk(s):
            if isinstance(node, ast.Call) and getattr(node.func, 'id', None) in FAMILY:
                if any(node in list(ast.walk(n)) for n in nested):
                    continue
                callee = node.func.id
                if len(node.args) != POSITIONAL[callee] or any(isinstance(a, ast.Starred) for a in node.args):
                    raise Unknown(f'{where}:{node.lineno}: {callee} called with {len(node.args)} positional arguments')
                reach = []
                for kw in node.keywords:
                    if kw.arg is None:
                        raise Unknown(f'{where}:{node.lineno}: **kwargs forwarded to {callee}')
                    opt = _option_of(kw.value, amap, params, f'{where}:{node.lineno}')
                    if opt is not None:
                        reach.append((opt, kw.arg))
                for g in guards:
                    reach.append((g, 'guard'))
                out.append({'branch': 'rxn' if in_rxn else 'mol', 'callee': callee, 'line': node.lineno,
                            'reach': reach})
        test = getattr(s, 'test', None)
        g2 = guards + (_guard_options(test, amap, params) if isinstance(s, ast.If) and test is not None else [])
        for b in _bodies(s):
            # the `else` part of an `if` is guarded by the same options as its body
            _walk_sites(b, g2, in_rxn, rxn_scope, amap, params, where, out)


def _callee_keywords(files_dir):
    out = {}
    for name, rel in CALLEE_FILES.items():
        tree = ast.parse((files_dir / rel).read_text())
        fn = next((n for n in tree.body if isinstance(n, ast.FunctionDef) and n.name == name), None)
        if fn is None:
            raise Unknown(f'{rel}: def {name} not found')
        if fn.args.kwarg or fn.args.vararg:
            raise Unknown(f'{name}: *args/**kwargs')
        kws = fn.args.kwonlyargs
        dfl = fn.args.kw_defaults
        row = []
        for k, d in zip(kws, dfl):
            if d is not None and not isinstance(d, (ast.Constant, ast.Name)):
                raise Unknown(f'{name}: default of {k.arg} is not a constant')
            row.append((k.arg, 'required' if d is None else (repr(d.value) if isinstance(d, ast.Constant) else d.id)))
        out[name] = row
    return out


def tables():
    files_dir = REPO / 'chython' / 'files'
    units = []
    for path in sorted(files_dir.glob('*.py')):
        tree = ast.parse(path.read_text())
        for top in tree.body:
            if isinstance(top, ast.FunctionDef):
                cands = [(None, top)]
            elif isinstance(top, ast.ClassDef):
                cands = [(top, n) for n in top.body if isinstance(n, ast.FunctionDef)]
            else:
                continue
            for cls, fn in cands:
                if not any(isinstance(n, ast.Call) and getattr(n.func, 'id', None) in FAMILY for n in ast.walk(fn)):
                    continue
                if cls is not None:
                    amap, params = _attr_map(cls, files_dir)
                    name = f'{cls.name}.{fn.name}'
                else:
                    amap, params = {}, _params(fn)
                    name = fn.name
                where = f'{path.name}:{name}'
                sites = []
                _walk_sites(fn.body, [], False, _rxn_scope(fn.body), amap, params, where, sites)
                n_calls = sum(1 for n in ast.walk(fn) if isinstance(n, ast.Call) and getattr(n.func, 'id', None) in FAMILY)
                if n_calls != len(sites):
                    raise Unknown(f'{where}: {n_calls} helper calls in the source, {len(sites)} classified')
                units.append({'file': path.name, 'unit': name,
                              'options': [p for p in params if not p.startswith('_')], 'sites': sites})
    if not units:
        raise Unknown('no reader unit found in chython/files/*.py')
    return {'units': units, 'callees': _callee_keywords(files_dir)}


def _s(x):
    return '"' + x.replace('\\', '\\\\').replace('"', '\\"') + '"'


def generate():
    t = tables()
    rows = []
    for u in t['units']:
        sites = ',\n      '.join(
            '{ branch := %s, callee := %s, family := %s, line := %d, reach := [%s] }' % (
                _s(s['branch']), _s(s['callee']), _s(FAMILY[s['callee']]), s['line'],
                ', '.join(f'({_s(o)}, {_s(h)})' for o, h in s['reach']))
            for s in u['sites'])
        rows.append('  { file := %s, unit := %s,\n    options := [%s],\n    sites := [\n      %s] }' % (
            _s(u['file']), _s(u['unit']), ', '.join(_s(o) for o in u['options']), sites))
    callees = ',\n  '.join('(%s, [%s])' % (_s(n), ', '.join(f'({_s(k)}, {_s(d)})' for k, d in row))
                           for n, row in t['callees'].items())
    text = '''/-! GENERATED by harness/gen/gen_mdl_options.py from /repo (AST walk over chython/files/*.py) — do not edit. -/
namespace ChythonModel.Gen.MdlOptions

/-- one call of a record-building helper inside a reader: `reach` = (public option, keyword it is passed as | "guard") -/
structure Site where
  branch : String
  callee : String
  family : String
  line : Nat
  reach : List (String × String)
  deriving DecidableEq, Repr

/-- a function / method of `chython/files/*.py` that builds records; `options` = its public keyword options -/
structure ReaderUnit where
  file : String
  unit : String
  options : List String
  sites : List Site
  deriving DecidableEq, Repr

def units : List ReaderUnit := [
%s]

/-- keyword-only parameters (with defaults) of the helpers, from their `def` lines -/
def calleeKeywords : List (String × List (String × String)) := [
  %s]

end ChythonModel.Gen.MdlOptions
''' % (',\n'.join(rows), callees)
    path = LEAN / 'ChythonModel' / 'Gen' / 'MdlOptions.lean'
    write_if_changed(path, text)
    return path, t
