"""Translator for C19: every `hash(...)` call and every order-sensitive use of a locally created `set` in the
files the property anchors (plus the `__hash__` methods they delegate to) -> Gen/HashSites.lean.

A site is identified by (file, enclosing function qualname, normalised source of the argument) — not by line number,
so moving code around does not change the table. Each hash argument gets an abstract class:

  int       int / bool / None constant, whitelisted int attribute, `x or 0`, `int(..)`, `len(..)`
  inttuple  tuple display whose items are int / inttuple / obj / starred int-sequences
  obj       an atom/bond object whose `__hash__` is itself a listed site (delegation)
  str       `str(..)`, f-string, string constant, `repr(..)`, `format(..)`     <- seeded by PYTHONHASHSEED
  unknown   anything the typing environment below does not cover

The typing environment (which local names are ints / int sequences / hashable objects at which site) is the
reviewed part of this translator; a name that is not listed makes the site `unknown`, which breaks the theorem.
"""
import ast
from pathlib import Path

from ..core import LEAN, REPO, write_if_changed

FILES = ['chython/algorithms/morgan.py', 'chython/algorithms/smiles.py', 'chython/algorithms/rings.py',
         'chython/algorithms/fingerprints/linear.py', 'chython/algorithms/fingerprints/morgan.py',
         'chython/algorithms/fingerprints/__init__.py', 'chython/algorithms/isomorphism.py',
         'chython/containers/graph.py', 'chython/containers/bonds.py', 'chython/containers/reaction.py',
         'chython/periodictable/base/element.py', 'chython/periodictable/base/dynamic.py',
         'chython/periodictable/base/query.py']

INT_ATTRS = {'isotope', 'atomic_number', 'charge', 'is_radical', 'p_charge', 'p_is_radical', 'implicit_hydrogens',
             'in_ring', 'p_order'}
# attribute `order` is an int on Bond/DynamicBond and a tuple of ints on QueryBond
INTSEQ_ATTRS = {'order'}
# reviewed typing environment: (function qualname, name) -> class
NAMES = {
    ('Morgan.atoms_order', 'a'): 'obj', ('Morgan.int_adjacency', 'b'): 'obj',
    ('_morgan', 'atoms'): 'intmap', ('_morgan', 'x'): 'int',
    ('DynamicBond.__int__', 'self'): 'obj',
    ('LinearFingerprint.linear_hash_set', 'tpl'): 'intseq', ('LinearFingerprint.linear_hash_set', 'cnt'): 'int',
    ('LinearFingerprint.linear_hash_smiles', 'frg'): 'intseq', ('LinearFingerprint.linear_hash_smiles', 'cnt'): 'int',
    ('MorganFingerprint._morgan_hash_dict', 'tpl'): 'int', ('MorganFingerprint._morgan_hash_dict', 'x'): 'int',
    ('MorganFingerprint._morgan_hash_dict', 'identifiers'): 'intmap',
    ('MorganFingerprint.morgan_smiles_hash', 'tpl'): 'int', ('MorganFingerprint.morgan_smiles_hash', 'x'): 'int',
}


def _qual(stack):
    return '.'.join(stack)


class _V(ast.NodeVisitor):
    def __init__(self, file):
        self.file, self.stack, self.hash_sites, self.set_sites = file, [], [], []
        self.local_sets = [set()]

    def visit_ClassDef(self, node):
        self.stack.append(node.name)
        self.generic_visit(node)
        self.stack.pop()

    def visit_FunctionDef(self, node):
        self.stack.append(node.name)
        self.local_sets.append(set())
        # names bound to freshly created sets in this function
        for n in ast.walk(node):
            if isinstance(n, ast.Assign) and self._is_set_expr(n.value):
                for t in n.targets:
                    for nm in ast.walk(t):
                        if isinstance(nm, ast.Name):
                            self.local_sets[-1].add(nm.id)
            if isinstance(n, ast.NamedExpr) and self._is_set_expr(n.value) and isinstance(n.target, ast.Name):
                self.local_sets[-1].add(n.target.id)
        self.generic_visit(node)
        self.local_sets.pop()
        self.stack.pop()

    visit_AsyncFunctionDef = visit_FunctionDef

    @staticmethod
    def _is_set_expr(v):
        if isinstance(v, (ast.Set, ast.SetComp)):
            return True
        if isinstance(v, ast.Call) and isinstance(v.func, ast.Name) and v.func.id in ('set', 'frozenset'):
            return True
        if isinstance(v, ast.BinOp) and isinstance(v.op, (ast.Sub, ast.BitAnd, ast.BitOr, ast.BitXor)):
            for side in (v.left, v.right):
                if isinstance(side, ast.Call) and isinstance(side.func, ast.Attribute) and side.func.attr == 'keys':
                    return True
        return False

    def _cls(self, e):
        q = _qual(self.stack)
        if isinstance(e, ast.Constant):
            if isinstance(e.value, str):
                return 'str'
            if isinstance(e.value, (int, bool)) or e.value is None:
                return 'int'
            return 'unknown'
        if isinstance(e, ast.JoinedStr):
            return 'str'
        if isinstance(e, ast.Call) and isinstance(e.func, ast.Name):
            if e.func.id in ('str', 'repr', 'format', 'bytes'):
                return 'str'
            if e.func.id in ('int', 'len', 'bool', 'hash'):
                return 'int'
            return 'unknown'
        if isinstance(e, ast.BoolOp) and isinstance(e.op, ast.Or):
            cs = {self._cls(v) for v in e.values}
            return 'int' if cs <= {'int', 'intorseq'} else ('unknown' if 'str' not in cs else 'str')
        if isinstance(e, ast.Attribute):
            if e.attr in INT_ATTRS:
                return 'int'
            if e.attr in INTSEQ_ATTRS:
                return 'intorseq'
            return 'unknown'
        if isinstance(e, ast.Name):
            c = NAMES.get((q, e.id))
            return {'int': 'int', 'obj': 'obj', 'intseq': 'inttuple'}.get(c, 'unknown')
        if isinstance(e, ast.Subscript) and isinstance(e.value, ast.Name):
            return 'int' if NAMES.get((q, e.value.id)) == 'intmap' else 'unknown'
        if isinstance(e, ast.Tuple):
            cs = set()
            for it in e.elts:
                if isinstance(it, ast.Starred):
                    v = it.value
                    if isinstance(v, ast.Name):
                        cs.add('int' if NAMES.get((q, v.id)) == 'intseq' else 'unknown')
                    elif isinstance(v, ast.GeneratorExp):
                        cs.add(self._cls(v.elt))
                    else:
                        cs.add('unknown')
                else:
                    cs.add(self._cls(it))
            if 'str' in cs:
                return 'str'
            if cs <= {'int', 'inttuple', 'obj', 'intorseq'}:
                return 'inttuple'
            return 'unknown'
        return 'unknown'

    def visit_Call(self, node):
        if isinstance(node.func, ast.Name) and node.func.id == 'hash' and len(node.args) == 1:
            arg = node.args[0]
            c = self._cls(arg)
            if c == 'intorseq':
                c = 'inttuple'
            self.hash_sites.append((self.file, _qual(self.stack), ' '.join(ast.unparse(arg).split()), c))
        # X.pop() / next(iter(X)) on a locally created set
        if isinstance(node.func, ast.Attribute) and node.func.attr == 'pop' and not node.args \
                and isinstance(node.func.value, ast.Name) and node.func.value.id in self.local_sets[-1]:
            self.set_sites.append((self.file, _qual(self.stack), 'pop', node.func.value.id))
        if isinstance(node.func, ast.Name) and node.func.id == 'next' and node.args and isinstance(node.args[0], ast.Call) \
                and isinstance(node.args[0].func, ast.Name) and node.args[0].func.id == 'iter' and node.args[0].args \
                and isinstance(node.args[0].args[0], ast.Name) and node.args[0].args[0].id in self.local_sets[-1]:
            self.set_sites.append((self.file, _qual(self.stack), 'next-iter', node.args[0].args[0].id))
        self.generic_visit(node)

    def visit_For(self, node):
        if isinstance(node.iter, ast.Name) and node.iter.id in self.local_sets[-1]:
            self.set_sites.append((self.file, _qual(self.stack), 'for', node.iter.id))
        self.generic_visit(node)

    def visit_comprehension(self, node):
        if isinstance(node.iter, ast.Name) and node.iter.id in self.local_sets[-1]:
            self.set_sites.append((self.file, _qual(self.stack), 'for', node.iter.id))
        self.generic_visit(node)


def extract(repo=REPO):
    hs, ss = [], []
    for f in FILES:
        p = Path(repo) / f
        v = _V(f.replace('chython/', ''))
        v.visit(ast.parse(p.read_text()))
        hs += v.hash_sites
        ss += v.set_sites
    # de-duplicate set sites (same function, same variable, same kind), keep order
    seen, ss2 = set(), []
    for s in ss:
        if s not in seen:
            seen.add(s)
            ss2.append(s)
    return hs, ss2


def _s(x):
    return '"' + x.replace('\\', '\\\\').replace('"', '\\"') + '"'


def generate():
    hs, ss = extract()
    out = ['-- GENERATED by harness/gen/gen_hashsites.py from /repo. Do not edit.',
           'namespace ChythonModel.Gen', '',
           'inductive HashArg where', '  | int | inttuple | obj | str | unknown', '  deriving Repr, DecidableEq', '',
           '/-- (file, function, normalised argument source, abstract class) of every `hash(...)` call -/',
           'def hashSites : List (String × String × String × HashArg) := [']
    out.append(',\n'.join(f'  ({_s(f)}, {_s(q)}, {_s(a)}, HashArg.{c})' for f, q, a, c in hs))
    out.append(']')
    out.append('')
    out.append('/-- (file, function, kind, variable) of every order-sensitive use of a locally created set -/')
    out.append('def setOrderSites : List (String × String × String × String) := [')
    out.append(',\n'.join(f'  ({_s(f)}, {_s(q)}, {_s(k)}, {_s(v)})' for f, q, k, v in ss))
    out.append(']')
    out.append('')
    out.append('end ChythonModel.Gen')
    path = LEAN / 'ChythonModel' / 'Gen' / 'HashSites.lean'
    write_if_changed(path, '\n'.join(out) + '\n')
    return path, hs, ss
