"""Translator for C05: regenerates lean/ChythonModel/Gen/AromaticRules.lean from /repo on every run.

Imports the two lazy rule tables of chython/algorithms/aromatics/_rules.py (`rules`, `freak_rules`) and dumps, for every
rule, the pattern (atoms: accepted elements / charge / radical / neighbours / hybridization / ring sizes / hydrogens /
heteroatoms; bonds: accepted orders), `atom_fix`, `bonds_fix` and the multimatch flag. Also the atomic-number constants
the classification of `Kekule.__prepare_rings` and `Thiele.thiele` compares atoms with (module level `B = 5` … of both
files, read from the AST). Unknown atom classes or attribute shapes raise (never guessed).
"""
import ast

from ..core import LEAN, REPO, write_if_changed


class TranslatorError(Exception):
    pass


def lean_int(i):
    return f'({i})' if i < 0 else str(i)


def lean_nats(xs):
    return '[' + ', '.join(str(int(x)) for x in xs) + ']'


def dump_atom(n, a):
    from chython.periodictable import Element
    from chython.periodictable.base.query import AnyElement, AnyMetal, ListElement, QueryElement
    metal = False
    if isinstance(a, AnyMetal):
        elements, metal = [], True
    elif isinstance(a, ListElement):
        elements = [Element.from_symbol(s)().atomic_number for s in a._elements]
    elif isinstance(a, AnyElement):
        elements = []
    elif isinstance(a, QueryElement):
        elements = [a.atomic_number]
    else:
        raise TranslatorError(f'unknown query atom class {type(a).__name__}')
    if getattr(a, '_masked', False):
        raise TranslatorError('masked atom in an aromatic rule')
    if getattr(a, '_stereo', None) is not None or getattr(a, '_isotope', None) is not None:
        raise TranslatorError('stereo/isotope constraint in an aromatic rule')

    def tup(name):
        v = getattr(a, name, ())
        if not isinstance(v, tuple) or not all(isinstance(x, int) and x >= 0 for x in v):
            raise TranslatorError(f'{name} of atom {n} has unexpected shape {v!r}')
        return list(v)

    ch = getattr(a, '_charge', None)
    rad = getattr(a, '_is_radical', None)
    if metal:
        if ch is not None or rad is not None:
            raise TranslatorError('AnyMetal with charge/radical')
    else:
        if not isinstance(ch, int) or not isinstance(rad, bool):
            raise TranslatorError(f'atom {n}: charge {ch!r} radical {rad!r}')
    return {'n': n, 'elements': elements, 'metal': metal, 'charge': ch, 'radical': rad,
            'neighbors': tup('_neighbors'), 'hybridization': tup('_hybridization'), 'ring_sizes': tup('_ring_sizes'),
            'implicit_hydrogens': tup('_implicit_hydrogens'), 'heteroatoms': tup('_heteroatoms')}


def dump_query(q):
    atoms = [dump_atom(n, a) for n, a in q.atoms()]
    bonds = []
    for n, m, b in q.bonds():
        o = b.order
        if not isinstance(o, tuple) or not all(isinstance(x, int) for x in o):
            raise TranslatorError(f'bond order shape {o!r}')
        if b.in_ring is not None or getattr(b, 'stereo', None) is not None:
            raise TranslatorError('ring/stereo constraint on a rule bond')
        bonds.append({'n': n, 'm': m, 'orders': list(o)})
    return atoms, bonds


def extract():
    from chython.algorithms.aromatics._rules import _rules, _freaks
    out = []
    for item in _rules():
        if len(item) != 4:
            raise TranslatorError('rule is not a 4-tuple')
        q, af, bf, mm = item
        atoms, bonds = dump_query(q)
        if not isinstance(af, dict) or not all(isinstance(k, int) and isinstance(v, int) for k, v in af.items()):
            raise TranslatorError(f'atom_fix {af!r}')
        if not all(len(x) == 3 and all(isinstance(y, int) for y in x) for x in bf):
            raise TranslatorError(f'bonds_fix {bf!r}')
        out.append({'atoms': atoms, 'bonds': bonds, 'atom_fix': list(af.items()), 'bond_fix': [tuple(x) for x in bf],
                    'multi': bool(mm)})
    freaks = []
    for q in _freaks():
        atoms, bonds = dump_query(q)
        freaks.append({'atoms': atoms, 'bonds': bonds, 'atom_fix': [], 'bond_fix': [], 'multi': False})
    return out, freaks


def constants(path):
    """module level `NAME = <int>` assignments (the atomic number constants)"""
    tree = ast.parse(path.read_text())
    res = []
    for node in tree.body:
        if isinstance(node, ast.Assign) and len(node.targets) == 1 and isinstance(node.targets[0], ast.Name) \
                and isinstance(node.value, ast.Constant) and isinstance(node.value.value, int):
            res.append((node.targets[0].id, node.value.value))
    return res


def render_rule(r):
    def atom(a):
        ch = 'none' if a['charge'] is None else f'some {lean_int(a["charge"])}'
        rad = 'none' if a['radical'] is None else f'some {"true" if a["radical"] else "false"}'
        return (f'⟨{a["n"]}, {lean_nats(a["elements"])}, {"true" if a["metal"] else "false"}, {ch}, {rad}, '
                f'{lean_nats(a["neighbors"])}, {lean_nats(a["hybridization"])}, {lean_nats(a["ring_sizes"])}, '
                f'{lean_nats(a["implicit_hydrogens"])}, {lean_nats(a["heteroatoms"])}⟩')
    atoms = ',\n      '.join(atom(a) for a in r['atoms'])
    bonds = ', '.join(f'⟨{b["n"]}, {b["m"]}, {lean_nats(b["orders"])}⟩' for b in r['bonds'])
    af = ', '.join(f'({n}, {lean_int(c)})' for n, c in r['atom_fix'])
    bf = ', '.join(f'({n}, {m}, {o})' for n, m, o in r['bond_fix'])
    return (f'  ⟨[{atoms}],\n     [{bonds}],\n     [{af}], [{bf}], {"true" if r["multi"] else "false"}⟩')


def generate():
    rules, freaks = extract()
    kc = constants(REPO / 'chython' / 'algorithms' / 'aromatics' / 'kekule.py')
    tc = constants(REPO / 'chython' / 'algorithms' / 'aromatics' / 'thiele.py')
    lines = ['-- GENERATED by harness/gen/gen_aromrules.py from /repo (chython/algorithms/aromatics/_rules.py, kekule.py, thiele.py). Do not edit.',
             'namespace ChythonModel.Gen.Aromatic', '',
             '/-- one query atom of a rule pattern: number, accepted atomic numbers (`[]` = any element), `AnyMetal`,',
             '    charge / radical (`none` = the class has no such constraint), accepted neighbours, hybridizations,',
             '    ring sizes, implicit hydrogens, heteroatoms (`[]` = unconstrained) -/',
             'structure PatAtom where',
             '  n : Nat', '  elements : List Nat', '  metal : Bool', '  charge : Option Int', '  radical : Option Bool',
             '  neighbors : List Nat', '  hybridization : List Nat', '  ringSizes : List Nat', '  implH : List Nat',
             '  heteroatoms : List Nat', '  deriving Repr, DecidableEq, Inhabited', '',
             'structure PatBond where', '  n : Nat', '  m : Nat', '  orders : List Nat',
             '  deriving Repr, DecidableEq, Inhabited', '',
             '/-- `(query, atom_fix, bonds_fix, multimatch)` -/',
             'structure Rule where', '  atoms : List PatAtom', '  bonds : List PatBond', '  atomFix : List (Nat × Int)',
             '  bondFix : List (Nat × Nat × Nat)', '  multi : Bool', '  deriving Repr, DecidableEq, Inhabited', '',
             '/-- `aromatics._rules.rules` in list order -/',
             'def rules : List Rule := [', ',\n'.join(render_rule(r) for r in rules), ']', '',
             '/-- `aromatics._rules.freak_rules` in list order (no fixes) -/',
             'def freaks : List Rule := [', ',\n'.join(render_rule(r) for r in freaks), ']', '',
             '/-- module level atomic number constants of kekule.py -/',
             'def kekuleConstants : List (String × Nat) := [' + ', '.join(f'("{k}", {v})' for k, v in kc) + ']', '',
             '/-- module level atomic number constants of thiele.py -/',
             'def thieleConstants : List (String × Nat) := [' + ', '.join(f'("{k}", {v})' for k, v in tc) + ']', '',
             'end ChythonModel.Gen.Aromatic', '']
    path = LEAN / 'ChythonModel' / 'Gen' / 'AromaticRules.lean'
    write_if_changed(path, '\n'.join(lines))
    return path, rules, freaks
