"""Translator for C09: regenerates lean/ChythonModel/Gen/BitLayout.lean from /repo on every run.

What is extracted (and how):
 * every integer literal of `MoleculeIsomorphism._cython_compiled_structure` and `QueryIsomorphism._cython_compiled_query`
   (chython/algorithms/isomorphism.py), read from the AST in source order. The function body with local variable names
   alpha-renamed and integer literals blanked is the *skeleton*; it is compared with the skeleton this translator was written
   for. Literals that are shift bases / offsets / thresholds / masks become named Lean constants (the hand-written model
   `Model/BitLayout.lean` uses only these names, no literal of its own); the remaining literals (`[0] * n`, `== 1` keys …) must
   have the expected value.
 * the two mask conditions and the closure comparison of `_isomorphism.pyx:get_mapping` (text, whitespace-normalised).
 * struct formats `header_struct, m_atom_struct, q_atom_struct, bond_struct`.
When the skeleton or a fixed literal differs, `TranslatorError` is raised (unknown syntax is never guessed).
"""
import ast
import hashlib
import re

from ..core import LEAN, REPO, write_if_changed


class TranslatorError(Exception):
    pass


class SkeletonChanged(TranslatorError):
    """the shape of the source changed, not (only) a literal"""


F = None  # fixed literal marker

# (name | None, expected value) in source order
STRUCT_HOLES = [
    (F, 1), ('sHybSub', 1), ('sTransferZ', 56), ('sHeavyGt', 116), ('sHeavyCap', 116), ('sTransferBit', 1), (F, 1), ('sHiBase', 120),
    (F, 1), ('sLoBase', 57), (F, 1), ('sIsoOff', 54), ('sIsoRad', 0x200000000000), ('sIsoNoRad', 0x100000000000),
    ('sNoIsoRad', 0x8000200000000000), ('sNoIsoNoRad', 0x8000100000000000), (F, 1), ('sChargeOff', 39), (F, 1), ('sHNone', 0),
    ('sHOff', 30), (F, 1), ('sNbOff', 15), (F, 1), (F, 0), ('sRingMax', 65), (F, 1), ('sRingBase', 65), ('sOnlyBig', 1 << 63),
    ('sNoRing', 1 << 63), (F, 0), (F, 0), (F, 0), (F, 2), (F, 0), (F, 2), (F, 0), (F, 1), ('sOrd1', 0x0800000000000000), (F, 2),
    ('sOrd2', 0x1000000000000000), (F, 3), ('sOrd3', 0x2000000000000000), (F, 4), ('sOrd4', 0x4000000000000000),
    ('sOrdElse', 0x8000000000000000), ('sRingYes', 0x0400000000000000), ('sRingNo', 0x0200000000000000),
]

QUERY_HOLES = [
    ('qMetalV1', 0x0060707ffc1fff87), ('qMetalV2', 0xfffffff3fffffff0), ('qMetalV3', 0xffffffffc0007fff), ('qMetalV4', 0xffffffffffffffff),
    ('qAnyV1', 0x01ffffffffffffff), ('qAnyV2', 0xfffffffffffffff0), (F, 0),
    ('qlTransferZ', 56), ('qlHeavyGt', 116), ('qlHeavyCap', 116), ('qlTransferBit', 1), (F, 1), ('qlHiBase', 120), (F, 1), ('qlLoBase', 57),
    ('qeTransferZ', 56), ('qeHeavyGt', 116), ('qeHeavyCap', 116), ('qeTransferBit', 1), (F, 1), ('qeHiBase', 120), (F, 1), ('qeLoBase', 57),
    (F, 0), ('qIsoLo', 8), ('qIsoHi', 8), (F, 1), ('qIsoOff', 54), ('qIsoNone', 0), ('qIsoRad', 0x200000000000), ('qIsoNoRad', 0x100000000000), ('qAnyIsoRad', 0xffffe00000000000),
    ('qAnyIsoNoRad', 0xffffd00000000000), (F, 1), ('qChargeOff', 39), ('qHAll', 0x7c0000000), (F, 1), ('qHOff', 30), ('qHetAll', 0x7fff),
    (F, 1), (F, 0), (F, 0), ('qRingMax', 65), (F, 1), ('qRingBase', 65), ('qOnlyBig', 1 << 63), ('qNoRing', 1 << 63),
    ('qAnyRing', 0xffffffffffffffff), ('qNbAll', 0x3fff8000), (F, 1), ('qNbOff', 15), ('qHybAll', 15), (F, 1), ('qHybSub', 1),
    (F, 1), ('qOrd1', 0x0800000000000000), (F, 4), ('qOrd4', 0x4000000000000000), (F, 2), ('qOrd2', 0x1000000000000000), (F, 3),
    ('qOrd3', 0x2000000000000000), ('qOrdElse', 0x8000000000000000), ('qRingAny', 0x0600000000000000), ('qRingYes', 0x0400000000000000),
    ('qRingNo', 0x0200000000000000), (F, 0), (F, 0), (F, 0), (F, 0), (F, 0),
    ('cAtomAny', 0x01ffffffffffffff), (F, 1), ('cOrd1', 0x0800000000000000), (F, 4), ('cOrd4', 0x4000000000000000), (F, 2),
    ('cOrd2', 0x1000000000000000), (F, 3), ('cOrd3', 0x2000000000000000), ('cOrdElse', 0x8000000000000000),
    ('cRingAny', 0x0600000000000000), ('cRingYes', 0x0400000000000000), ('cRingNo', 0x0200000000000000), (F, 0), (F, 1),
]

# skeletons (sha256 of the alpha-renamed, literal-blanked function text) this translator understands
SKELETONS = {
    '_cython_compiled_structure': None,  # filled below by _expected()
    '_cython_compiled_query': None,
}

PYX_ROOT_TEST = ('scope[n] and q_atom.mask1 & n_atom.bits1 and q_atom.mask2 & n_atom.bits2 == n_atom.bits2 and '
                 'q_atom.mask3 & n_atom.bits3 == n_atom.bits3 and q_atom.mask4 & n_atom.bits4')
PYX_NEXT_TEST = ('scope[m] and not matched[m] and q_atom.mask1 & i_bond.bond == i_bond.bond and '
                 'q_atom.mask2 & m_atom.bits2 == m_atom.bits2 and q_atom.mask3 & m_atom.bits3 == m_atom.bits3 and '
                 'q_atom.mask4 & m_atom.bits4')
PYX_CLOSURE_TEST = 'not c_bond or j_bond.bond & c_bond != c_bond'
PYX_COUNTER_TEST = 'closures_counter == q_atom.closure'
STRUCT_FORMATS = {'header_struct': 'I', 'm_atom_struct': 'QQQQIII', 'q_atom_struct': 'QQQQIIIII', 'bond_struct': 'QI'}


class _Rename(ast.NodeTransformer):
    """alpha-rename locally bound names in order of first binding"""

    def __init__(self, bound):
        self.map = {n: f'L{i}' for i, n in enumerate(bound)}

    def visit_Name(self, node):
        if node.id in self.map:
            return ast.copy_location(ast.Name(id=self.map[node.id], ctx=node.ctx), node)
        return node


def _bound_names(fn):
    out = []
    for node in ast.walk(fn):
        if isinstance(node, ast.Name) and isinstance(node.ctx, ast.Store) and node.id not in out:
            out.append(node.id)
    # ast.walk is breadth-first: order by position in the source instead
    pos = {}
    for node in ast.walk(fn):
        if isinstance(node, ast.Name) and isinstance(node.ctx, ast.Store):
            pos.setdefault(node.id, (node.lineno, node.col_offset))
    return sorted(out, key=lambda n: pos[n])


_INT = re.compile(r'(?<![\w.])\d+(?![\w.])')


def analyse(fn):
    """-> (skeleton text, [ints in source order])"""
    fn = ast.fix_missing_locations(_Rename(_bound_names(fn)).visit(fn))
    body = ast.Module(body=fn.body, type_ignores=[])
    text = ast.unparse(body)
    ints = [int(m.group()) for m in _INT.finditer(text)]
    skel = _INT.sub('#', text)
    return skel, ints


def find_functions(src):
    tree = ast.parse(src)
    out = {}
    for c in tree.body:
        if isinstance(c, ast.ClassDef):
            for f in c.body:
                if isinstance(f, ast.FunctionDef) and f.name in SKELETONS:
                    out[f.name] = f
    return tree, out


EXPECTED_SKELETON_SHA = {
    '_cython_compiled_structure': 'de572eb96c7378e8',
    '_cython_compiled_query': 'e63f11b0b291e168',
}


def sha(s):
    return hashlib.sha256(s.encode()).hexdigest()[:16]


def pyx_conditions(text):
    """the two `if (...)` mask conditions and the closure comparison of get_mapping, whitespace/comment-normalised"""
    clean = '\n'.join(l.split('#')[0].rstrip() for l in text.splitlines())
    conds = []
    for m in re.finditer(r'if \((scope\[[nm]\].*?)\):', clean, re.S):
        conds.append(' '.join(m.group(1).split()))
    clos = re.search(r'if (not c_bond or [^:]*):', clean)
    cnt = re.search(r'if (closures_counter [^:]*):', clean)
    return conds, (' '.join(clos.group(1).split()) if clos else None), (' '.join(cnt.group(1).split()) if cnt else None)


def extract():
    """-> dict(consts=[(name, value)], notes=[...]); raises TranslatorError on unknown syntax"""
    src = (REPO / 'chython' / 'algorithms' / 'isomorphism.py').read_text()
    tree, fns = find_functions(src)
    if set(fns) != set(SKELETONS):
        raise TranslatorError(f'encoder functions not found: {sorted(set(SKELETONS) - set(fns))}')
    consts, shas = [], {}
    for name, holes in (('_cython_compiled_structure', STRUCT_HOLES), ('_cython_compiled_query', QUERY_HOLES)):
        skel, ints = analyse(fns[name])
        shas[name] = sha(skel)
        if shas[name] != EXPECTED_SKELETON_SHA[name]:
            raise SkeletonChanged(f'{name}: statement skeleton changed (sha {shas[name]}, expected '
                                  f'{EXPECTED_SKELETON_SHA[name]}): the translator does not know this shape')
        if len(ints) != len(holes):
            raise TranslatorError(f'{name}: {len(ints)} integer literals, expected {len(holes)}')
        for (nm, exp), v in zip(holes, ints):
            if nm is None:
                if v != exp:
                    raise TranslatorError(f'{name}: structural literal {exp} is now {v}')
            else:
                consts.append((nm, v))
    # struct formats
    fmts = {}
    for node in tree.body:
        if isinstance(node, ast.Assign) and len(node.targets) == 1 and isinstance(node.targets[0], ast.Name) \
                and node.targets[0].id in STRUCT_FORMATS:
            call = node.value
            if not (isinstance(call, ast.Call) and getattr(call.func, 'id', None) == 'Struct' and len(call.args) == 1
                    and isinstance(call.args[0], ast.Constant)):
                raise TranslatorError(f'{node.targets[0].id}: not a Struct(<literal>) call')
            fmts[node.targets[0].id] = call.args[0].value
    if fmts != STRUCT_FORMATS:
        raise TranslatorError(f'struct formats changed: {fmts}')
    pyx = (REPO / 'chython' / 'algorithms' / '_isomorphism.pyx').read_text()
    conds, clos, cnt = pyx_conditions(pyx)
    if conds != [PYX_ROOT_TEST, PYX_NEXT_TEST] or clos != PYX_CLOSURE_TEST or cnt != PYX_COUNTER_TEST:
        raise SkeletonChanged(f'_isomorphism.pyx: mask conditions changed: {conds} / {clos} / {cnt}')
    return {'consts': consts, 'skeletons': shas}


def metal_flags():
    """(atomic number, `is_forming_single_bonds or isinstance(_, GroupXVIII)`) for every Element subclass — what AnyMetal.__eq__ tests"""
    from chython.periodictable import Element
    from chython.periodictable.base.groups import GroupXVIII
    rows = []
    for cls in Element.__subclasses__():
        z = cls.atomic_number.fget(None)
        single = None
        for k in cls.__mro__:
            if isinstance(k.__dict__.get('is_forming_single_bonds'), property):
                single = k.__dict__['is_forming_single_bonds'].fget(None)
                break
        if single is None:
            raise TranslatorError(f'{cls.__name__}: is_forming_single_bonds is not a property')
        rows.append((z, bool(single) or issubclass(cls, GroupXVIII)))
    rows.sort()
    if [z for z, _ in rows] != list(range(1, 119)):
        raise TranslatorError(f'Element subclasses do not cover 1..118: {[z for z, _ in rows][:5]}…')
    return rows


def render(consts, flags=None):
    lines = ['-- GENERATED by harness/gen/gen_bitlayout.py from /repo/chython/algorithms/isomorphism.py',
             '-- (`_cython_compiled_structure`: names s…, `_cython_compiled_query`: names q… (atom masks) and c… (closure bond masks)).',
             '-- Do not edit: rewritten on every check run.',
             'namespace ChythonModel.Gen.Bits', '']
    for nm, v in consts:
        lines.append(f'def {nm} : Nat := {hex(v) if v > 1000 else v}')
    if flags is not None:
        lines += ['', '/-- (atomic number, `other.is_forming_single_bonds or isinstance(other, GroupXVIII)`): the elements `AnyMetal.__eq__` rejects -/',
                  'def notMetalFlags : List (Nat × Bool) := [' + ', '.join(f'({z}, {str(b).lower()})' for z, b in flags) + ']']
    lines += ['', 'end ChythonModel.Gen.Bits', '']
    return '\n'.join(lines)


def generate():
    """-> (path, info). When only the *shape* of the encoder source changed (statement skeleton / pyx condition text) the
    generated file is left as it is and info['shape_changed'] names what changed: the correspondence streams then decide
    whether the model (with the last extracted literals) still mirrors the code. Unknown literal positions are never guessed."""
    path = LEAN / 'ChythonModel' / 'Gen' / 'BitLayout.lean'
    try:
        info = extract()
    except SkeletonChanged as e:
        return path, {'shape_changed': str(e)}
    write_if_changed(path, render(info['consts'], metal_flags()))
    return path, info


if __name__ == '__main__':
    src = (REPO / 'chython' / 'algorithms' / 'isomorphism.py').read_text()
    _, fns = find_functions(src)
    for n, f in fns.items():
        skel, ints = analyse(f)
        print(n, sha(skel), len(ints))
