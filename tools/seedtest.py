#!/usr/bin/env python3
"""Confirm a seeded change and run the checks against it, in PRIVATE copies (never in /repo or /verif themselves).

usage: tools/seedtest.py <seed-dir> [--tier quick|thorough] [--checks C01,C02] [--keep]
  <seed-dir> contains patch.diff, demo.py (and meta.json with {"property": "Cxx", ...} or README.md)

Steps (each result is printed and appended to <seed-dir>/confirm.json):
  1. scratch worktree of /repo HEAD under /tmp/seedtest/<name>/repo; demo must PASS there without the patch
  2. apply patch; repo's baseline suite must still give 30 passed; demo must FAIL
  3. rsync /verif to /tmp/seedtest/<name>/verif (shares nothing with the live tree), run ./check <Cxx> with
     CHYTHON_REPO pointing at the patched worktree; report exit code and VIOLATION lines
  4. remove the scratch copies
"""
import json
import os
import re
import shutil
import subprocess
import sys
import time
from pathlib import Path

VERIF = Path(__file__).resolve().parent.parent


def sh(cmd, cwd=None, env=None, timeout=3600):
    p = subprocess.run(cmd, shell=True, cwd=cwd, env=env, capture_output=True, text=True, timeout=timeout)
    return p.returncode, p.stdout + p.stderr


def main():
    args = sys.argv[1:]
    sd = Path(args[0]).resolve()
    tier = args[args.index('--tier') + 1] if '--tier' in args else 'quick'
    keep = '--keep' in args
    meta = json.loads((sd / 'meta.json').read_text()) if (sd / 'meta.json').exists() else {}
    pid = meta.get('property') or re.search(r'C\d\d', sd.parent.name + sd.name).group(0)
    checks = args[args.index('--checks') + 1].split(',') if '--checks' in args else [pid]
    name = f'{sd.parent.name}-{sd.name}-{os.getpid()}'
    root = Path('/tmp/seedtest') / name
    root.mkdir(parents=True, exist_ok=True)
    wt = root / 'repo'
    res = {'seed': str(sd), 'property': pid, 'tier': tier, 'at': time.strftime('%F %T'), 'repo_head': sh('git -C /repo rev-parse --short HEAD')[1].strip()}
    try:
        rc, out = sh(f'git -C /repo worktree add --detach {wt} HEAD')
        assert rc == 0, out
        env = dict(os.environ, PYTHONPATH=f'{VERIF}/harness/shim:{wt}:/tmp/seedenv', CHYTHON_REPO=str(wt), PYTHONDONTWRITEBYTECODE='1')
        rc0, o0 = sh(f'/venv/bin/python {sd}/demo.py', cwd=wt, env=env)
        res['demo_without_patch_rc'] = rc0
        rc, out = sh(f'git -C {wt} apply --whitespace=nowarn {sd}/patch.diff')
        if rc != 0:  # the code moved on (fix: commits) since the patch was written: 3-way merge against the recorded blobs
            rc, out2 = sh(f'git -C {wt} apply --3way --whitespace=nowarn {sd}/patch.diff')
            res['applied_with'] = '3way'
            if rc == 0 and 'with conflicts' in out2:
                rc, out = 1, out2
            sh(f'git -C {wt} reset -q')
        res['patch_applies'] = rc == 0
        if rc != 0:
            res['apply_error'] = out[-500:]
            print(json.dumps(res, indent=1))
            return
        rc, out = sh('/venv/bin/python -m pytest -q -p no:cacheprovider --timeout=900 --continue-on-collection-errors 2>&1 | tail -1', cwd=wt,
                     env=dict(os.environ, PYTHONDONTWRITEBYTECODE='1'))
        res['baseline_with_patch'] = out.strip()
        res['baseline_30_pass'] = bool(re.search(r'\b30 passed', out))
        rc1, o1 = sh(f'/venv/bin/python {sd}/demo.py', cwd=wt, env=env)
        res['demo_with_patch_rc'] = rc1
        res['demo_with_patch_tail'] = o1[-400:]
        res['confirmed'] = res['baseline_30_pass'] and rc0 == 0 and rc1 != 0
        # private copy of /verif
        pv = root / 'verif'
        sh(f'rsync -a --exclude .git --exclude replays --exclude harness/_build {VERIF}/ {pv}/')
        res['checks'] = {}
        for c in checks:
            t0 = time.time()
            rc, out = sh(f'./check {c} --tier {tier}', cwd=pv, env=dict(os.environ, CHYTHON_REPO=str(wt), VERIF_NO_LEANCHECKER='1'), timeout=7200)
            viol = [l for l in out.splitlines() if l.startswith('VIOLATION')]
            det = {'rc': rc, 'violations': viol[:5], 'tail': out.strip().splitlines()[-1:] if out.strip() else [], 'wall_s': round(time.time() - t0, 1)}
            for v in viol[:1]:
                m = re.search(r'replay=(\S+)', v)
                if m and (pv / m.group(1)).exists():
                    r = json.loads((pv / m.group(1)).read_text())
                    det['replay'] = {k: r.get(k) for k in ('kind', 'signature', 'what', 'input')}
                    det['broken'] = [b.get('name') for b in r.get('broken', [])][:6]
            res['checks'][c] = det
        res['detected'] = any(d['rc'] == 1 and d['violations'] for d in res['checks'].values())
    finally:
        if not keep:
            sh(f'git -C /repo worktree remove --force {wt}')
            shutil.rmtree(root, ignore_errors=True)
            sh('git -C /repo worktree prune')
    print(json.dumps(res, indent=1))
    hist = sd / 'confirm.json'
    prev = json.loads(hist.read_text()) if hist.exists() else []
    prev.append(res)
    hist.write_text(json.dumps(prev, indent=1))


if __name__ == '__main__':
    main()
