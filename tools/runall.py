#!/usr/bin/env python3
"""Run every claimed check (MANIFEST.json) for the given tier and seeds; summarise exit codes, VIOLATION / KNOWN-FINDING counts, wall time.
usage: tools/runall.py [--tier quick|thorough] [--seeds 0,1,2] [--only C01,C02] [-j N]"""
import json, os, subprocess, sys, time
from concurrent.futures import ThreadPoolExecutor
from pathlib import Path
V = Path(__file__).resolve().parent.parent
a = sys.argv[1:]
tier = a[a.index('--tier') + 1] if '--tier' in a else 'quick'
seeds = [int(x) for x in (a[a.index('--seeds') + 1] if '--seeds' in a else '0').split(',')]
only = a[a.index('--only') + 1].split(',') if '--only' in a else None
jobs = int(a[a.index('-j') + 1]) if '-j' in a else 4
m = json.loads((V / 'MANIFEST.json').read_text())
checks = [c for c in m['checks'] if not only or c['property_id'] in only]

def run(args):
    c, seed = args
    cmd = c['quick_cmd'] if tier == 'quick' else c.get('thorough_cmd', c['quick_cmd'])
    t0 = time.time()
    p = subprocess.run(cmd, shell=True, cwd=V, capture_output=True, text=True, env=dict(os.environ, VERIF_SEED=str(seed), VERIF_TIER=tier))
    out = p.stdout
    return (c['property_id'], seed, p.returncode, sum(l.startswith('VIOLATION') for l in out.splitlines()),
            sum(l.startswith('KNOWN-FINDING') for l in out.splitlines()), round(time.time() - t0, 1),
            (out.strip().splitlines() or [''])[-1][:160], p.stderr[-300:] if p.returncode not in (0, 1) else '')

with ThreadPoolExecutor(jobs) as ex:
    res = list(ex.map(run, [(c, s) for s in seeds for c in checks]))
bad = 0
for pid, seed, rc, v, k, w, last, err in sorted(res):
    flag = 'OK ' if rc == 0 and v == 0 else 'BAD'
    bad += flag == 'BAD'
    print(f'{flag} {pid} seed={seed} rc={rc} viol={v} known={k} {w:7.1f}s  {last}')
    if err:
        print('     stderr:', err.replace('\n', ' | '))
print('all green' if not bad else f'{bad} runs need attention')
sys.exit(1 if bad else 0)
