#!/venv/bin/python
"""Write corpus/source_digests.json for the current /repo HEAD (run after every `fix:` commit once the models are re-validated)."""
import json, subprocess, sys
from pathlib import Path
V = Path(__file__).resolve().parent.parent
sys.path.insert(0, str(V))
from harness.drift import digests
repo = Path('/repo')
assert subprocess.run(['git', '-C', str(repo), 'status', '--porcelain', '--', 'chython'], capture_output=True, text=True).stdout.strip() == '', 'commit or undo edits in /repo first'
head = subprocess.run(['git', '-C', str(repo), 'rev-parse', '--short', 'HEAD'], capture_output=True, text=True).stdout.strip()
d = digests(repo)
(V / 'corpus' / 'source_digests.json').write_text(json.dumps({'repo_head': head, 'functions': d}, indent=0, sort_keys=True) + '\n')
print(head, len(d), 'digests')
