#!/usr/bin/env python3
"""Keep a confirmed seeded change: tools/keepseed.py <src-dir> <id> "<what it needs to manifest>"
Copies patch.diff, demo.py, README.md and the confirmation history into seeded/<id>/ and writes meta.json."""
import json, shutil, sys
from pathlib import Path
V = Path(__file__).resolve().parent.parent
src, sid = Path(sys.argv[1]), sys.argv[2]
needs = sys.argv[3] if len(sys.argv) > 3 else ''
conf = json.loads((src / 'confirm.json').read_text())
last = conf[-1]
assert last.get('confirmed'), 'not confirmed (baseline 30 pass, demo passes without / fails with the patch)'
dst = V / 'seeded' / sid
dst.mkdir(parents=True, exist_ok=True)
for f in ('patch.diff', 'demo.py', 'README.md'):
    if (src / f).exists():
        shutil.copy(src / f, dst / f)
meta = {'id': sid, 'property': last['property'], 'breaks': (src / 'README.md').read_text().split('\n\n')[0][:600] if (src / 'README.md').exists() else '',
        'needs_to_manifest': needs,
        'confirmed_by': 'tools/seedtest.py in a scratch worktree of /repo: demo.py exits 0 without the patch and non-zero with it; the repository baseline suite still reports 30 passed with the patch',
        'repo_head_at_confirmation': last['repo_head'],
        'ran': [{'at': c['at'], 'tier': c['tier'], 'detected': c.get('detected'),
                 'checks': {k: {'rc': v['rc'], 'violation': (v['violations'] or [None])[0], 'replay_signature': (v.get('replay') or {}).get('signature'),
                                'replay_input': (v.get('replay') or {}).get('input'), 'broken_obligations': v.get('broken')} for k, v in c.get('checks', {}).items()}}
                for c in conf],
        'detected': bool(last.get('detected'))}
(dst / 'meta.json').write_text(json.dumps(meta, indent=1) + '\n')
print('kept', dst, 'detected =', meta['detected'])
