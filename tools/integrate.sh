#!/bin/bash
# tools/integrate.sh Cxx : claim a finished check — green on seeds 0..2, run its seeded changes, keep them, regenerate manifest
pid=$1
cd /verif
ok=1
for s in 0 1 2; do
  out=$(VERIF_SEED=$s ./check $pid --tier quick 2>&1); rc=$?
  echo "$out" | grep -v '^KNOWN-FINDING' | tail -n 1
  if [ $rc -ne 0 ] || echo "$out" | grep -q '^VIOLATION'; then ok=0; echo "$out" | grep '^VIOLATION' | head -3; fi
done
if [ $ok -eq 1 ]; then
  python3 - $pid <<'PY'
import json,sys
p='/verif/tools/not_applicable.json'; d=json.load(open(p)); d.pop(sys.argv[1],None); json.dump(d,open(p,'w'),indent=1)
PY
  python3 tools/mkmanifest.py
else
  echo "NOT GREEN: $pid stays unclaimed"
fi
tools/seedbatch.sh $pid 2>&1 | cut -c1-330
for d in /tmp/seed/out/$pid/*/; do
  k=$(basename $d)
  [ -f $d/confirm.json ] && python3 tools/keepseed.py $d $pid-$k "$(grep -i -m1 -A2 'manifest\|needs\|trigger' $d/README.md | tr '\n' ' ' | cut -c1-300)" 2>&1 | tail -n 1
done
git add seeded MANIFEST.json tools/not_applicable.json evidence/$pid.json 2>/dev/null
git commit -qm "integrate $pid: claimed=$ok; seeded changes recorded" 2>/dev/null
echo "integrated $pid ok=$ok"
