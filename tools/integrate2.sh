#!/bin/bash
# tools/integrate2.sh Cxx : after a builder handled round-2 feedback: unchanged tree green (seeds 0..2), re-run round-1 and round-2 seeds, keep them
pid=$1; cd /verif; ok=1
for s in 0 1 2; do
  out=$(VERIF_SEED=$s ./check $pid --tier quick 2>&1); rc=$?
  echo "$out" | grep -v '^KNOWN-FINDING' | tail -n 1
  if [ $rc -ne 0 ] || echo "$out" | grep -q '^VIOLATION'; then ok=0; echo "$out" | grep '^VIOLATION' | head -3; fi
done
[ $ok -eq 1 ] || echo "NOT GREEN: $pid"
tools/seedbatch.sh $pid 2>&1 | cut -c1-200
SEED_ROOT=/tmp/seed/out2 tools/seedbatch.sh $pid 2>&1 | cut -c1-200
for d in /tmp/seed/out/$pid/[0-9]*/; do k=$(basename $d); [ -f $d/confirm.json ] && python3 tools/keepseed.py $d $pid-$k "$(grep -i -m1 -A2 'manifest\|needs\|trigger' $d/README.md | tr '\n' ' ' | cut -c1-300)" >/dev/null; done
for d in /tmp/seed/out2/$pid/[0-9]*/; do k=$(basename $d); [ -f $d/confirm.json ] && python3 tools/keepseed.py $d $pid-r2-$k "$(grep -i -m1 -A2 'manifest\|needs\|trigger' $d/README.md | tr '\n' ' ' | cut -c1-300)" >/dev/null; done
git add seeded evidence/$pid.json 2>/dev/null; git commit -qm "integrate2 $pid: green=$ok; round-1 and round-2 seeds re-run and recorded" 2>/dev/null
echo "integrated2 $pid green=$ok"
