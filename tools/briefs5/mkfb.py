#!/usr/bin/env python3
"""mkfb.py Cxx : render the feedback brief for Cxx from /tmp/seed/out5/Cxx/<k>/first.json -> tools/briefs5/Cxx-fb.md; prints the one-line results"""
import json, sys, glob
from pathlib import Path
pid = sys.argv[1]
lines = []
for d in sorted(glob.glob(f'/tmp/seed/out5/{pid}/[12]')):
    f = Path(d) / 'first.json'
    if not f.exists():
        lines.append(f'- change {Path(d).name}: not yet measured'); continue
    r = json.loads(f.read_text())[-1]
    c = r.get('checks', {}).get(pid, {})
    head = (Path(d) / 'README.md').read_text().splitlines()[0]
    if not r.get('confirmed'):
        st = 'NOT CONFIRMED (ignore)'
    elif c.get('rc') == 1 and c.get('violations'):
        nf = 'no-failing-input-found' in ' '.join(c['violations'])
        st = ('DETECTED WITHOUT A FAILING INPUT' if nf else 'detected with a failing input') + f" (signature {(c.get('replay') or {}).get('signature')})"
    else:
        st = f"MISSED (exit {c.get('rc')})"
    lines.append(f'- change {Path(d).name}: {st} — {head}')
res = '\n'.join(lines)
t = Path(__file__).with_name('_feedback.md').read_text()
Path(__file__).with_name(f'{pid}-fb.md').write_text(t.replace('{PID}', pid).replace('{pid}', pid.lower()).replace('{RESULTS}', res))
print(res)
