#!/usr/bin/env python3
"""Regenerate MANIFEST.json from the plugins' metadata constants (LEVEL, LEVEL_TEXT, LEVEL_NOTE, TECHNIQUE).
A property is claimed iff harness/props/<cxx>.py exists and evidence/<Cxx>.json exists; others go to not_applicable
with the reason given in tools/not_applicable.json (or a work-in-progress note)."""
import ast, json, sys
from pathlib import Path
V = Path(__file__).resolve().parent.parent
props = [json.loads(l) for l in open(V / 'properties.jsonl')]
na_reasons = json.loads((V / 'tools' / 'not_applicable.json').read_text()) if (V / 'tools' / 'not_applicable.json').exists() else {}

def consts(path):
    out = {}
    for node in ast.parse(path.read_text()).body:
        if isinstance(node, ast.Assign) and len(node.targets) == 1 and isinstance(node.targets[0], ast.Name):
            try:
                out[node.targets[0].id] = ast.literal_eval(node.value)
            except Exception:
                pass
    return out

BASE = "cd /repo && /venv/bin/python -m pytest -ra -q -p no:cacheprovider --timeout=900 --continue-on-collection-errors"
m = {"version": 1,
     "setup_cmd": "cd lean && (lake build ChythonModel || true) && for i in 01 02 03 04 05 06 07 08 09 10 11 12 13 14 15 16 17 18 19 20; do [ -f Drivers/C$i.lean ] && (lake build drv_c$i || true); done; true",
     "hooks": {"guard": "CHYTHON_VERIF",
               "enable": "none needed: there are no source hooks; checks observe the real code from outside (sys.modules injection of the translated .pyx modules, __dict__/slot inspection, CachedMethods shim on PYTHONPATH)",
               "baseline_off_cmd": BASE, "source_commits": [], "add_only": True},
     "engines": [{"name": "lean4-model+correspondence", "path": "lean/", "serves_properties": [],
                  "kind_free_text": "Lean 4 (4.33) lake project: executable models + property theorems; translators harness/gen/* regenerate lean/ChythonModel/Gen/*.lean from /repo on every run; per-property plugins harness/props/* run the model drivers and the real chython on the same inputs (line protocol) and search for failing inputs when an obligation breaks"}],
     "checks": [], "notes": "See DESIGN.md (and design/Cxx.md per property). ./check Cxx --tier quick|thorough; known findings in known_findings/Cxx.json; seeded changes in seeded/.",
     "not_applicable": []}
for p in props:
    pid = p['id']
    plug = V / 'harness' / 'props' / f'{pid.lower()}.py'
    if plug.exists() and (V / 'evidence' / f'{pid}.json').exists() and pid not in na_reasons:
        c = consts(plug)
        m['checks'].append({
            "property_id": pid, "quick_cmd": f"./check {pid} --tier quick", "thorough_cmd": f"./check {pid} --tier thorough",
            "evidence_file": f"evidence/{pid}.json", "replay_cmd_template": f"./check {pid} --replay {{path}}",
            "engine": "lean4-model+correspondence",
            "level_claimed": {"category": c.get('LEVEL', 'translation_validation'),
                              "text": c.get('LEVEL_TEXT', 'see design/%s.md' % pid), "design_ref": f"DESIGN.md §6 {pid}; design/{pid}.md"},
            "level_note": c.get('LEVEL_NOTE', 'Lean kernel; translators and correspondence harness; see DESIGN.md §5'),
            "technique": c.get('TECHNIQUE', 'Lean 4 theorems about an executable model + model/implementation correspondence')})
        m['engines'][0]['serves_properties'].append(pid)
    else:
        m['not_applicable'].append({"property_id": pid, "reason": na_reasons.get(pid, "check still being built in this session (the technique applies, see DESIGN.md §6); not claimed until its check runs green")})
(V / 'MANIFEST.json').write_text(json.dumps(m, indent=1) + '\n')
print('claimed:', [c['property_id'] for c in m['checks']])
