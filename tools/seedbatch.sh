#!/bin/bash
# tools/seedbatch.sh Cxx [tier]  — run seedtest on every /tmp/seed/out/Cxx/<k> and print one summary line each
pid=$1; tier=${2:-quick}
root=${SEED_ROOT:-/tmp/seed/out}
for d in $root/$pid/[0-9]*/; do
  [ -f "$d/patch.diff" ] || continue
  python3 /verif/tools/seedtest.py "$d" --tier $tier > /tmp/seedtest_$(basename $root)_$(basename $(dirname $d))_$(basename $d).log 2>&1
  python3 - "$d" <<'PY'
import json,sys
d=json.load(open(sys.argv[1]+'/confirm.json'))[-1]
c=d.get('checks',{})
for k,v in c.items():
    print(sys.argv[1], 'confirmed=%s'%d.get('confirmed'), 'detected=%s'%d.get('detected'), k, 'rc=%s'%v['rc'], (v.get('replay') or {}).get('signature'), '|', (v.get('replay') or {}).get('what'), '| broken:', v.get('broken'), '|', v['tail'])
if not c: print(sys.argv[1], d)
PY
done
