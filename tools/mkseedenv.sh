#!/bin/bash
# tools/mkseedenv.sh — (re)create /tmp/seedenv: the runtime environment handed to seeding sub-agents and used by
# tools/seedtest.py for their demos.  It contains NO verification machinery: only the CachedMethods shim (without it no
# molecule can be built in this sandbox) and a standalone copy of the .pyx renderer (no Cython here), so that
# pack/unpack and the accelerated matcher can be executed.  Sub-agents never see /verif.
set -e
here="$(cd "$(dirname "${BASH_SOURCE[0]}")/.." && pwd)"
rm -rf /tmp/seedenv; mkdir -p /tmp/seedenv
cp -r "$here/harness/shim" /tmp/seedenv/shim
python3 - "$here" <<'PY'
import re, sys
from pathlib import Path
src = (Path(sys.argv[1]) / 'harness/gen/pyx2py.py').read_text()
src = src.replace('from ..core import REPO, VERIF\n',
    "import os\nREPO = Path(os.environ.get('CHYTHON_REPO', '/repo'))\nVERIF = Path('/tmp/seedenv')\n")
src = src.replace("VERIF / 'harness' / '_build' / 'chython_ext'", "Path('/tmp/seedenv/_build') / str(os.getpid())")
Path('/tmp/seedenv/pyx2py_tool.py').write_text(
    '"""Renders chython\'s three .pyx files (no Cython in this sandbox) as Python with C integer semantics and injects them.\n'
    'usage: import os; os.environ["CHYTHON_REPO"] = <worktree>; import pyx2py_tool; pyx2py_tool.install()  (before importing chython containers)"""\n' + src)
PY
echo ok
