#!/venv/bin/python
"""tools/surface.py Cxx [--tier quick] — which part of the anchored code does the check of Cxx actually execute?

Runs the plugin's `correspond` (and `search`) in-process under `sys.setprofile` and records, for every function defined in the files the
property anchors (properties.jsonl → anchors.files, plus files passed with --also), whether it was called and, for every parameter that has a
default value, whether it was ever passed a value different from its default.  Prints / writes design/surface/Cxx.md:
  * anchored functions never executed by the check,
  * defaulted parameters (options) never exercised with a non-default value.
This is a builder's tool (reach of the generated streams), not part of the registered checks and not evidence of correctness.
"""
import ast, importlib, json, os, sys, time
from pathlib import Path
V = Path(__file__).resolve().parent.parent
REPO = Path(os.environ.get('CHYTHON_REPO', '/repo'))
os.environ.setdefault('CHYTHON_REPO', str(REPO))
sys.path[:0] = [str(V / 'harness' / 'shim'), str(REPO), str(V)]
pid = sys.argv[1].upper()
tier = sys.argv[sys.argv.index('--tier') + 1] if '--tier' in sys.argv else 'quick'
also = sys.argv[sys.argv.index('--also') + 1].split(',') if '--also' in sys.argv else []
prop = next(json.loads(l) for l in open(V / 'properties.jsonl') if json.loads(l)['id'] == pid)
files = [f for f in prop['anchors']['files'] if f.endswith('.py')] + also

# static side: functions and their defaulted parameters
funcs = {}   # (abs file, firstlineno) -> {'name', 'params': {name: default_src}}
for rel in files:
    p = REPO / rel
    if not p.exists():
        continue
    tree = ast.parse(p.read_text())
    def walk(node, prefix):
        for ch in ast.iter_child_nodes(node):
            if isinstance(ch, (ast.FunctionDef, ast.AsyncFunctionDef)):
                a = ch.args
                pos = a.posonlyargs + a.args
                params = {}
                for arg, d in zip(pos[len(pos) - len(a.defaults):], a.defaults):
                    params[arg.arg] = ast.unparse(d)
                for arg, d in zip(a.kwonlyargs, a.kw_defaults):
                    if d is not None:
                        params[arg.arg] = ast.unparse(d)
                ln = min([ch.lineno] + [d.lineno for d in ch.decorator_list])
                for l in range(ln, ch.lineno + 1):
                    funcs[(str(p), l)] = {'name': prefix + ch.name, 'rel': rel, 'params': params}
                walk(ch, prefix + ch.name + '.')
            elif isinstance(ch, ast.ClassDef):
                walk(ch, prefix + ch.name + '.')
    walk(tree, '')
called = {}   # name -> count
nondefault = {}  # (name, param) -> set of reprs
watch = {k[0] for k in funcs}

def prof(frame, event, arg):
    if event != 'call':
        return
    co = frame.f_code
    if co.co_filename not in watch:
        return
    f = funcs.get((co.co_filename, co.co_firstlineno))
    if f is None:
        return
    key = f['rel'] + '::' + f['name']
    called[key] = called.get(key, 0) + 1
    if f['params'] and called[key] < 20000:
        loc = frame.f_locals
        for pn, dsrc in f['params'].items():
            if pn in loc:
                try:
                    r = repr(loc[pn])[:40]
                except Exception:
                    r = '<unrepr>'
                if r != dsrc and not (dsrc in ('None', 'True', 'False', '0', '1') and r == dsrc):
                    nondefault.setdefault((key, pn), set()).add(r if len(r) < 25 else r[:25] + '…')

from harness import core
plugin = importlib.import_module(f'harness.props.{pid.lower()}')
ctx = core.Ctx(pid, tier, int(os.environ.get('VERIF_SEED', '0')))
ctx.build_ok = True
t0 = time.time()
sys.setprofile(prof)
import threading; threading.setprofile(prof)
try:
    try:
        plugin.generate(ctx)
    except Exception as e:
        print('generate raised', e)
    try:
        plugin.correspond(ctx)
    except Exception as e:
        print('correspond raised', type(e).__name__, e)
    if '--search' in sys.argv:
        try:
            plugin.search(ctx)
        except Exception as e:
            print('search raised', type(e).__name__, e)
finally:
    sys.setprofile(None)
names = {}
for (fn, ln), f in funcs.items():
    names[f['rel'] + '::' + f['name']] = f
never = sorted(k for k in names if k not in called and not k.split('::')[1].split('.')[-1].startswith('__repr') )
opts = sorted((k, pn, f['params'][pn]) for k, f in names.items() if k in called for pn in f['params'] if (k, pn) not in nondefault)
out = [f'# {pid}: reach of the check into the anchored code ({tier}, {time.time()-t0:.0f} s under the profiler; in-process calls only — worker subprocesses are not seen)', '',
       f'anchored files: {", ".join(files)}', f'functions defined there: {len(names)}; executed by correspond: {sum(1 for k in names if k in called)}', '',
       '## anchored functions never executed', ''] + [f'- `{k}`' for k in never] + ['',
       '## defaulted parameters only ever seen with their default value (function was executed)', ''] + [f'- `{k}`  `{pn}={d}`' for k, pn, d in opts]
(V / 'design' / 'surface').mkdir(parents=True, exist_ok=True)
(V / 'design' / 'surface' / f'{pid}.md').write_text('\n'.join(out) + '\n')
print('\n'.join(out[:6])); print(len(never), 'never executed;', len(opts), 'options never varied')
