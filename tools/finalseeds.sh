#!/bin/bash
# tools/finalseeds.sh [ids...] : final pass — run every seeded change (rounds 1 and 2) against the final checks
# (its own property's check plus the cross-property checks listed below), record the result in seeded/<id>/meta.json
cd /verif
declare -A CROSS=( [C07-3]="C07,C09" [C07-r2-3]="C07,C08" [C06-r2-1]="C06,C13" [C06-r2-3]="C06,C13" )
ids="$@"
if [ -z "$ids" ]; then
  ids=$(for d in /tmp/seed/out/C*/[0-9]*/ /tmp/seed/out2/C*/[0-9]*/; do p=$(basename $(dirname $d)); k=$(basename $d); case $d in */out2/*) echo $p-r2-$k;; *) echo $p-$k;; esac; done)
fi
for id in $ids; do
  p=${id%%-*}; k=${id##*-}
  case $id in *-r3-*) src=/tmp/seed/out3/$p/$k;; *-r2-*) src=/tmp/seed/out2/$p/$k;; *) src=/tmp/seed/out/$p/$k;; esac
  [ -f $src/patch.diff ] || { echo "$id: no source"; continue; }
  checks=${CROSS[$id]:-$p}
  python3 tools/seedtest.py $src --checks $checks > /tmp/final_$id.log 2>&1
  python3 tools/keepseed.py $src $id "$(grep -i -m1 -A2 'manifest\|needs\|trigger' $src/README.md | tr '\n' ' ' | cut -c1-300)" 2>&1 | tail -n 1
done
