#!/bin/bash
# tools/finalseeds.sh [-P n] [ids...] : final pass — run every seeded change (rounds 1-3) against the final checks
# (its own property's check plus the cross-property checks listed in CROSS), record the result in seeded/<id>/meta.json
cd /verif
P=5; if [ "$1" = "-P" ]; then P=$2; shift 2; fi
ids="$@"
if [ -z "$ids" ]; then
  ids=$(for d in /tmp/seed/out/C*/[0-9]*/ /tmp/seed/out2/C*/[0-9]*/ /tmp/seed/out3/C*/[0-9]*/ /tmp/seed/out4/C*/[0-9]*/ /tmp/seed/out5/C*/[0-9]*/; do p=$(basename $(dirname $d)); k=$(basename $d); case $d in */out5/*) echo $p-r5-$k;; */out4/*) echo $p-r4-$k;; */out3/*) echo $p-r3-$k;; */out2/*) echo $p-r2-$k;; *) echo $p-$k;; esac; done)
fi
one() {
  id=$1; p=${id%%-*}; k=${id##*-}
  case $id in *-r5-*) src=/tmp/seed/out5/$p/$k;; *-r4-*) src=/tmp/seed/out4/$p/$k;; *-r3-*) src=/tmp/seed/out3/$p/$k;; *-r2-*) src=/tmp/seed/out2/$p/$k;; *) src=/tmp/seed/out/$p/$k;; esac
  [ -f $src/patch.diff ] || { echo "$id: no source"; return; }
  case $id in
    C07-3) checks=C07,C09;; C07-r2-3) checks=C07,C08;; C06-r2-1|C06-r2-3) checks=C06,C13;;
    C08-r3-2|C08-r3-3) checks=C08,C09;; C07-r3-2) checks=C07,C09;; C04-r3-3) checks=C04,C13;; C04-r3-1) checks=C04,C14;;
    C15-r4-1) checks=C15,C03;; C09-r4-1) checks=C09,C13;;
    C08-r5-1) checks=C08,C09;; C18-r5-1) checks=C18,C09;; C19-r5-2) checks=C19,C10;;
    *) checks=$p;;
  esac
  python3 tools/seedtest.py $src --checks $checks > /tmp/final_$id.log 2>&1
  python3 tools/keepseed.py $src $id "$(grep -i -m1 -A2 'manifest\|needs\|trigger' $src/README.md | tr '\n' ' ' | cut -c1-300)" 2>&1 | tail -n 1
}
export -f one
echo $ids | tr ' ' '\n' | xargs -P $P -I{} bash -c 'one {}'
